(* C13/C14: facts about the grouping of align_wcs (Model/AlignModel.v): the groups partition the input positions,
   no group is empty, distinct groups are disjoint; list surgery used by the loop proofs; id assignment *)
From Coq Require Import List Bool Arith Lia Permutation ZArith.
From TW Require Import AlignModel.
Import ListNotations.

(* ---------- small list facts ---------- *)
Lemma inb_In i ms : inb i ms = true <-> In i ms.
Proof.
  unfold inb. rewrite existsb_exists. split.
  - intros [x [Hx E]]. apply Nat.eqb_eq in E. subst. exact Hx.
  - intros H. exists i. split; [exact H| apply Nat.eqb_refl].
Qed.
Lemma inb_false i ms : inb i ms = false <-> ~ In i ms.
Proof.
  split; intros H.
  - intro Hi. apply inb_In in Hi. congruence.
  - destruct (inb i ms) eqn:E; [|reflexivity]. apply inb_In in E. contradiction.
Qed.

Lemma nodup_app_inv {A} (l l' : list A) :
  NoDup (l ++ l') -> NoDup l /\ NoDup l' /\ (forall x, In x l -> In x l' -> False).
Proof.
  induction l as [|a l IH]; simpl; intros H.
  - split; [constructor| split; [exact H| intros x []]].
  - inversion H as [|? ? Hn Hd]; subst. destruct (IH Hd) as (H1 & H2 & H3).
    split; [|split].
    + constructor; [|exact H1]. intro Hi. apply Hn. apply in_or_app. left; exact Hi.
    + exact H2.
    + intros x [<-|Hx] Hx'.
      * apply Hn. apply in_or_app. right; exact Hx'.
      * exact (H3 x Hx Hx').
Qed.

Lemma split_nth {A} : forall k (l : list A) d, k < length l ->
  l = firstn k l ++ nth k l d :: skipn (S k) l.
Proof.
  induction k as [|k IH]; intros [|x l] d H; simpl in *; try lia.
  - reflexivity.
  - f_equal. apply IH. lia.
Qed.

Lemma remove_at_facts {A} (k : nat) (l : list A) (d : A) :
  k < length l -> NoDup l ->
  let x := nth k l d in
  In x l /\ ~ In x (remove_at k l) /\ NoDup (remove_at k l) /\
  (forall y, In y l <-> y = x \/ In y (remove_at k l)) /\
  length l = S (length (remove_at k l)) /\
  Permutation l (x :: remove_at k l).
Proof.
  intros Hk Hnd x. pose proof (split_nth k l d Hk) as E. fold x in E.
  unfold remove_at. set (A1 := firstn k l) in *. set (B := skipn (S k) l) in *.
  assert (Hnd' : NoDup (A1 ++ x :: B)) by (rewrite <- E; exact Hnd).
  destruct (NoDup_remove _ _ _ Hnd') as [N1 N2].
  split; [|split; [|split; [|split; [|split]]]].
  - rewrite E. apply in_or_app. right; left; reflexivity.
  - exact N2.
  - exact N1.
  - intros y. rewrite E at 1. rewrite !in_app_iff. simpl. split.
    + intros [H|[H|H]]; [right; left; exact H| left; symmetry; exact H| right; right; exact H].
    + intros [H|[H|H]]; [right; left; symmetry; exact H| left; exact H| right; right; exact H].
  - rewrite E at 1. rewrite !app_length. simpl. lia.
  - rewrite E at 1. symmetry. apply Permutation_middle.
Qed.

Lemma remove_at_0 {A} (x : A) l : remove_at 0 (x :: l) = l.
Proof. reflexivity. Qed.

Lemma tab_nth {A} n (f : nat -> A) d i : i < n -> nth i (tab n f) d = f i.
Proof.
  intros H. unfold tab. rewrite (nth_indep _ d (f 0)) by (rewrite map_length, seq_length; exact H).
  rewrite (map_nth f). rewrite seq_nth by exact H. reflexivity.
Qed.
Lemma tab_length {A} n (f : nat -> A) : length (tab n f) = n.
Proof. unfold tab. rewrite map_length, seq_length. reflexivity. Qed.

(* ---------- grouping ---------- *)
Definition flat (gs : list (gkey * group)) : list nat := concat (map snd gs).

Lemma flat_add_member kk i gs : Permutation (flat (add_member kk i gs)) (i :: flat gs).
Proof.
  induction gs as [|[k' ms] gs IH]; simpl.
  - unfold flat; simpl. reflexivity.
  - destruct (gkey_eqb kk k'); unfold flat in *; simpl.
    + rewrite <- app_assoc. simpl. symmetry. apply Permutation_middle.
    + transitivity (ms ++ i :: concat (map snd gs)).
      * apply Permutation_app_head. exact IH.
      * symmetry. apply Permutation_middle.
Qed.

Lemma flat_group_from : forall ims k gs,
  Permutation (flat (group_from k ims gs)) (flat gs ++ seq k (length ims)).
Proof.
  induction ims as [|im ims IH]; intros k gs; simpl.
  - rewrite app_nil_r. reflexivity.
  - etransitivity; [apply IH|].
    transitivity ((k :: flat gs) ++ seq (S k) (length ims)).
    + apply Permutation_app_tail. apply flat_add_member.
    + simpl. apply Permutation_middle.
Qed.

Lemma groups_perm ims : Permutation (concat (groups ims)) (seq 0 (length ims)).
Proof. unfold groups. exact (flat_group_from ims 0 []). Qed.

Lemma add_member_nonempty kk i gs :
  Forall (fun p : gkey * group => snd p <> []) gs -> Forall (fun p : gkey * group => snd p <> []) (add_member kk i gs).
Proof.
  induction gs as [|[k' ms] gs IH]; intros H; simpl.
  - constructor; [simpl; discriminate| constructor].
  - inversion H; subst. destruct (gkey_eqb kk k').
    + constructor; [simpl; destruct ms; discriminate| assumption].
    + constructor; [assumption| apply IH; assumption].
Qed.
Lemma group_from_nonempty : forall ims k gs,
  Forall (fun p : gkey * group => snd p <> []) gs -> Forall (fun p : gkey * group => snd p <> []) (group_from k ims gs).
Proof.
  induction ims as [|im ims IH]; intros k gs H; simpl; [exact H|].
  apply IH. apply add_member_nonempty. exact H.
Qed.
Lemma groups_nonempty ims : forall g, In g (groups ims) -> g <> [].
Proof.
  intros g Hg. unfold groups in Hg. apply in_map_iff in Hg. destruct Hg as [p [<- Hp]].
  pose proof (group_from_nonempty ims 0 [] (Forall_nil _)) as F.
  rewrite Forall_forall in F. exact (F p Hp).
Qed.

Definition disjoint (gs : list group) : Prop :=
  forall a b i, In a gs -> In b gs -> In i a -> In i b -> a = b.

Lemma concat_nodup_disjoint : forall (l : list group),
  NoDup (concat l) -> (forall g, In g l -> g <> []) -> NoDup l /\ disjoint l.
Proof.
  induction l as [|a l IH]; simpl; intros Hnd Hne.
  - split; [constructor| intros x y i []].
  - destruct (nodup_app_inv _ _ Hnd) as (Na & Nl & Hd).
    destruct (IH Nl (fun g Hg => Hne g (or_intror Hg))) as [IH1 IH2].
    assert (Hnot : forall b i, In b l -> In i a -> In i b -> False).
    { intros b i Hb Hia Hib. apply (Hd i Hia). apply in_concat. exists b. split; assumption. }
    split.
    + constructor; [|exact IH1]. intro Hin.
      assert (Hane : a <> []) by (apply Hne; left; reflexivity).
      destruct a as [|x a']; [congruence|].
      apply (Hnot (x :: a') x Hin); left; reflexivity.
    + intros x y i [<-|Hx] [<-|Hy] Hix Hiy.
      * reflexivity.
      * exfalso. exact (Hnot y i Hy Hix Hiy).
      * exfalso. exact (Hnot x i Hx Hiy Hix).
      * exact (IH2 x y i Hx Hy Hix Hiy).
Qed.

Lemma groups_nodup ims : NoDup (groups ims) /\ disjoint (groups ims).
Proof.
  apply concat_nodup_disjoint.
  - apply (Permutation_NoDup (Permutation_sym (groups_perm ims))). apply seq_NoDup.
  - apply groups_nonempty.
Qed.

(* every input position lies in exactly one group, and groups contain only input positions *)
Lemma groups_cover ims i : i < length ims <-> exists g, In g (groups ims) /\ In i g.
Proof.
  split; intros H.
  - apply in_concat. apply (Permutation_in _ (Permutation_sym (groups_perm ims))). apply in_seq. lia.
  - apply in_concat in H. apply (Permutation_in _ (groups_perm ims)) in H. apply in_seq in H. lia.
Qed.

Lemma groups_partition ims :
  (forall i, i < length ims <-> exists g, In g (groups ims) /\ In i g) /\
  (forall g, In g (groups ims) -> g <> []) /\
  NoDup (groups ims) /\
  (forall a b i, In a (groups ims) -> In b (groups ims) -> In i a -> In i b -> a = b).
Proof.
  split; [exact (groups_cover ims)|]. split; [exact (groups_nonempty ims)|]. exact (groups_nodup ims).
Qed.

Lemma filter_nodup {A} (f : A -> bool) l : NoDup l -> NoDup (filter f l).
Proof. apply NoDup_filter. Qed.

Lemma disjoint_incl (l l' : list group) : (forall g, In g l' -> In g l) -> disjoint l -> disjoint l'.
Proof. intros H D a b i Ha Hb. apply D; apply H; assumption. Qed.

(* ---------- ids ---------- *)
Lemma fold_max_snoc x y r : fold_right Z.max (Z.max x y) r = Z.max (fold_right Z.max y r) x.
Proof. induction r as [|z r IH]; simpl; [lia| rewrite IH; lia]. Qed.
Lemma maxid_snoc l x : maxid (l ++ [x]) = match l with [] => x | _ => Z.max (maxid l) x end.
Proof.
  destruct l as [|y r]; simpl; [reflexivity|].
  rewrite fold_right_app. simpl. apply fold_max_snoc.
Qed.
Lemma maxid_ge ids x : In x ids -> (x <= maxid ids)%Z.
Proof.
  destruct ids as [|y r]; [intros []|]. simpl.
  revert y x. induction r as [|z r IH]; intros y x H; simpl.
  - destruct H as [->|[]]. lia.
  - destruct H as [->|[->|H]].
    + specialize (IH x x (or_introl eq_refl)). pose proof (IH) as I0.
      assert (G : forall a b, (a <= fold_right Z.max a b)%Z).
      { intros a b. induction b; simpl; lia. }
      pose proof (G x r). lia.
    + lia.
    + specialize (IH y x (or_intror H)). lia.
Qed.

Lemma seq_snoc a k : seq a (S k) = seq a k ++ [a + k].
Proof. rewrite seq_S. reflexivity. Qed.

Lemma maxid_expand ids k : maxid (expand_ids ids k) = (maxid ids + Z.of_nat k)%Z.
Proof.
  unfold expand_ids. induction k as [|k IH].
  - simpl. rewrite app_nil_r. lia.
  - rewrite seq_snoc, map_app, app_assoc. simpl map. rewrite maxid_snoc.
    destruct (ids ++ map (fun j : nat => (maxid ids + 1 + Z.of_nat j)%Z) (seq 0 k)) eqn:E.
    + apply app_eq_nil in E. destruct E as [E1 E2]. subst ids.
      destruct k; [simpl; lia| simpl in E2; discriminate].
    + rewrite IH. lia.
Qed.

Lemma shift_seq_map (m : Z) (a b : nat) : forall s,
  map (fun j : nat => (m + Z.of_nat a + 1 + Z.of_nat j)%Z) (seq s b) =
  map (fun j : nat => (m + 1 + Z.of_nat j)%Z) (seq (s + a) b).
Proof.
  induction b as [|b IH]; intros s; simpl; [reflexivity|].
  f_equal; [lia|]. rewrite IH. reflexivity.
Qed.

Lemma expand_ids_add ids a b : expand_ids (expand_ids ids a) b = expand_ids ids (a + b).
Proof.
  unfold expand_ids at 1. rewrite maxid_expand. unfold expand_ids.
  rewrite <- app_assoc. f_equal. rewrite seq_app, map_app. f_equal.
  apply shift_seq_map.
Qed.

Lemma expand_ids_0 ids : expand_ids ids 0 = ids.
Proof. unfold expand_ids. simpl. apply app_nil_r. Qed.

Theorem expand_ids_spec ids k :
  firstn (length ids) (expand_ids ids k) = ids /\
  (forall j, j < k -> nth (length ids + j) (expand_ids ids k) 0%Z = (maxid ids + 1 + Z.of_nat j)%Z) /\
  (NoDup ids -> NoDup (expand_ids ids k)) /\
  length (expand_ids ids k) = length ids + k.
Proof.
  unfold expand_ids. repeat split.
  - rewrite firstn_app, Nat.sub_diag, firstn_all. simpl. apply app_nil_r.
  - intros j Hj. rewrite app_nth2 by lia. replace (length ids + j - length ids) with j by lia.
    set (F := fun j0 : nat => (maxid ids + 1 + Z.of_nat j0)%Z).
    rewrite (nth_indep _ 0%Z (F 0)) by (rewrite map_length, seq_length; exact Hj).
    rewrite (map_nth F). rewrite seq_nth by exact Hj. reflexivity.
  - intros Hnd.
    assert (G: forall l1 l2 : list Z, NoDup l1 -> NoDup l2 -> (forall x, In x l1 -> In x l2 -> False) -> NoDup (l1 ++ l2)).
    { induction l1 as [|x l1 IH]; intros l2 H1 H2 H3; simpl; [exact H2|].
      inversion H1; subst. constructor.
      - intro Hin. apply in_app_or in Hin. destruct Hin as [Hin|Hin]; [contradiction| apply (H3 x); [left; reflexivity| exact Hin]].
      - apply IH; auto. intros y Hy1 Hy2. apply (H3 y); [right; exact Hy1| exact Hy2]. }
    apply G; [exact Hnd| |].
    + apply FinFun.Injective_map_NoDup; [intros a b H; lia| apply seq_NoDup].
    + intros x Hx Hin. apply in_map_iff in Hin. destruct Hin as [j [<- _]].
      pose proof (maxid_ge ids _ Hx). lia.
  - rewrite app_length, map_length, seq_length. reflexivity.
Qed.
