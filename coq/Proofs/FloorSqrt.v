From Coq Require Import QArith Qround Qabs ZArith Lia Lqa Psatz.
Open Scope Q_scope.

(* ---- histogram bin -> offset: the half-bin theorem of C12 ---- *)
Definition bin (R : Z) (z : Q) : Z := Qfloor (z + inject_Z R + (1#2)).
Definition estimate (pscale : Q) (R : Z) (z : Q) : Q := pscale * (inject_Z (bin R z) - inject_Z R).

Lemma floor_half (t : Q) :
  -(1#2) < inject_Z (Qfloor (t + (1#2))) - t /\ inject_Z (Qfloor (t + (1#2))) - t <= 1#2.
Proof.
  pose proof (Qfloor_le (t + (1#2))). pose proof (Qlt_floor (t + (1#2))) as H0.
  rewrite inject_Z_plus in H0. change (inject_Z 1) with 1 in H0. split; lra.
Qed.

Theorem half_bin pscale R s : 0 < pscale ->
  Qabs (estimate pscale R (s / pscale) - s) <= pscale * (1#2).
Proof.
  intros Hp. unfold estimate, bin. set (z := s / pscale).
  assert (Es: s == pscale * z) by (unfold z; field; lra).
  destruct (floor_half (z + inject_Z R)) as [H1 H2].
  set (f := inject_Z (Qfloor (z + inject_Z R + (1 # 2)))) in *.
  assert (E: pscale * (f - inject_Z R) - s == pscale * (f - (z + inject_Z R))) by (rewrite Es; ring).
  rewrite E. apply Qabs_case; intros; nra.
Qed.

(* legacy conversion (before repair F3): pscale*bin - searchrad; biased when searchrad/pscale is not an integer *)
Definition legacy_estimate (pscale searchrad : Q) (R : Z) (z : Q) : Q := pscale * inject_Z (bin R z) - searchrad.
Example legacy_biased : exists pscale searchrad s,
  let R := Qceiling (searchrad / pscale) in
  ~ (Qabs (legacy_estimate pscale searchrad R (s / pscale) - s) <= pscale * (1#2)).
Proof. exists (3#10), 1, 0. vm_compute. intros H. apply H. reflexivity. Qed.

(* ---- rational enclosure of a square root via Z.sqrt ---- *)
(* for x >= 0 and a scale k > 0:  lo = floor(sqrt(x*k^2))/k,  hi = (floor(sqrt(x*k^2))+1)/k *)
Definition sqrt_lo (k : positive) (x : Q) : Q :=
  Z.sqrt (Qfloor (x * inject_Z (Zpos k * Zpos k))) # k.
Definition sqrt_hi (k : positive) (x : Q) : Q :=
  (Z.sqrt (Qfloor (x * inject_Z (Zpos k * Zpos k))) + 1) # k.

Theorem sqrt_enclosure k x : 0 <= x ->
  0 <= sqrt_lo k x /\ sqrt_lo k x * sqrt_lo k x <= x /\ x < sqrt_hi k x * sqrt_hi k x.
Proof.
  intros Hx. unfold sqrt_lo, sqrt_hi.
  set (K := inject_Z (Zpos k * Zpos k)). set (y := x * K).
  assert (HK: 0 < K) by (unfold K; replace 0 with (inject_Z 0) by reflexivity; rewrite <- Zlt_Qlt; lia).
  assert (Hy: 0 <= y) by (unfold y; nra).
  set (n := Qfloor y).
  assert (Hn: (0 <= n)%Z).
  { unfold n. replace 0%Z with (Qfloor 0) by reflexivity. apply Qfloor_resp_le. exact Hy. }
  pose proof (Z.sqrt_spec n Hn) as [S1 S2]. set (r := Z.sqrt n) in *.
  assert (Hr: (0 <= r)%Z) by apply Z.sqrt_nonneg.
  pose proof (Qfloor_le y) as F1. pose proof (Qlt_floor y) as F2. fold n in F1, F2.
  assert (A1: inject_Z (r * r) <= y).
  { apply Qle_trans with (inject_Z n); [rewrite <- Zle_Qle; exact S1| exact F1]. }
  assert (A2: y < inject_Z ((r + 1) * (r + 1))).
  { apply Qlt_le_trans with (inject_Z (n + 1)); [exact F2|]. rewrite <- Zle_Qle. unfold Z.succ in S2. lia. }
  assert (EK: K == inject_Z (Zpos k) * inject_Z (Zpos k)) by (unfold K; rewrite inject_Z_mult; reflexivity).
  assert (Hk: 0 < inject_Z (Zpos k)) by (replace 0 with (inject_Z 0) by reflexivity; rewrite <- Zlt_Qlt; lia).
  assert (L: forall m : Z, (m # k) == inject_Z m / inject_Z (Zpos k)).
  { intros m. rewrite (Qmake_Qdiv m k). reflexivity. }
  rewrite !L. rewrite inject_Z_mult in A1, A2.
  split; [| split].
  - apply Qle_shift_div_l; [exact Hk|]. rewrite Qmult_0_l. replace 0 with (inject_Z 0) by reflexivity. rewrite <- Zle_Qle. exact Hr.
  - assert (inject_Z r / inject_Z (Zpos k) * (inject_Z r / inject_Z (Zpos k)) == inject_Z r * inject_Z r / K)
      by (rewrite EK; field; lra).
    rewrite H. apply Qle_shift_div_r; [exact HK| exact A1].
  - assert (inject_Z (r + 1) / inject_Z (Zpos k) * (inject_Z (r + 1) / inject_Z (Zpos k)) == inject_Z (r + 1) * inject_Z (r + 1) / K)
      by (rewrite EK; field; lra).
    rewrite H. apply Qlt_shift_div_l; [exact HK| exact A2].
Qed.
Print Assumptions half_bin.
Print Assumptions sqrt_enclosure.
Eval vm_compute in (sqrt_lo 1000000 2, sqrt_hi 1000000 2).
