(* C10 (statistics part): what the three statistics of _compute_stat, as modelled by ClipModel.stat2_encl, are.
   rmse^2 is the weighted mean of the squared residual norms; std^2 obeys the variance decomposition
   (rmse^2 - |weighted mean residual|^2), divided by 1 - sum(w^2)/W^2 when weights are given - a denominator that is
   PROVED positive for two or more positively weighted points, so the model's totalised division never hides a
   division by zero where the code uses the formula; the mae enclosure is ordered and never exceeds rmse. *)
From Coq Require Import QArith Qabs Qround List Bool Arith Lia Lqa Psatz.
From TW Require Import CorrUtil GJModel LSQ LinearFit Clip FloorSqrt ClipModel.
Import ListNotations.
Open Scope Q_scope.

Definition psum {A} (g : A -> Q) (l : list A) : Q := fold_right (fun a acc => g a + acc) 0 l.

Lemma sumr_psum {A} (g : A -> Q) l : sumr g l == psum g l.
Proof.
  induction l as [|a l IH]; [reflexivity|].
  change (sumr g (a :: l)) with (Qred (g a + sumr g l)). change (psum g (a :: l)) with (g a + psum g l).
  rewrite Qred_correct, IH. reflexivity.
Qed.

Lemma psum_ext {A} (g h : A -> Q) l : (forall a, In a l -> g a == h a) -> psum g l == psum h l.
Proof.
  induction l as [|a l IH]; intros H; simpl; [reflexivity|].
  rewrite (H a (or_introl eq_refl)), IH; [reflexivity| intros; apply H; right; assumption].
Qed.
Lemma psum_add {A} (g h : A -> Q) l : psum (fun a => g a + h a) l == psum g l + psum h l.
Proof. induction l as [|a l IH]; simpl; [ring| rewrite IH; ring]. Qed.
Lemma psum_scal {A} c (g : A -> Q) l : psum (fun a => c * g a) l == c * psum g l.
Proof. induction l as [|a l IH]; simpl; [ring| rewrite IH; ring]. Qed.
Lemma psum_nonneg {A} (g : A -> Q) l : (forall a, In a l -> 0 <= g a) -> 0 <= psum g l.
Proof.
  induction l as [|a l IH]; intros H; simpl; [lra|].
  pose proof (H a (or_introl eq_refl)). assert (0 <= psum g l) by (apply IH; intros; apply H; right; assumption). lra.
Qed.
Lemma psum_le {A} (g h : A -> Q) l : (forall a, In a l -> g a <= h a) -> psum g l <= psum h l.
Proof.
  induction l as [|a l IH]; intros H; simpl; [lra|].
  pose proof (H a (or_introl eq_refl)). assert (psum g l <= psum h l) by (apply IH; intros; apply H; right; assumption). lra.
Qed.

Lemma r2_value f p : r2 f p == rx f p * rx f p + ry f p * ry f p.
Proof. unfold r2. apply Qred_correct. Qed.
Lemma r2_nonneg f p : 0 <= r2 f p.
Proof. rewrite r2_value. nra. Qed.

Lemma Qdiv_nonneg a b : 0 <= a -> 0 <= b -> 0 <= a / b.
Proof.
  intros Ha Hb. destruct (Qeq_dec b 0) as [E|E].
  - unfold Qdiv. rewrite E. assert (/ 0 == 0) by reflexivity. rewrite H. lra.
  - apply Qle_shift_div_l; lra.
Qed.

Section S.
Variable f : fitp.
Variable pw : list (pt4 * Q).
Let W := psum snd pw.
Let rmse2 := psum (fun a => snd a * r2 f (fst a)) pw / W.
Let mx := psum (fun a => snd a * rx f (fst a)) pw / W.
Let my := psum (fun a => snd a * ry f (fst a)) pw / W.

(* rmse^2 = sum w |r|^2 / sum w, as a point enclosure *)
Theorem rmse2_value weighted :
  fst (stat2_encl SRmse weighted f pw) == rmse2 /\ snd (stat2_encl SRmse weighted f pw) == rmse2.
Proof.
  unfold stat2_encl; cbn [fst snd]. rewrite Qred_correct, !sumr_psum. fold W. split; reflexivity.
Qed.

Theorem rmse2_nonneg : (forall a, In a pw -> 0 <= snd a) -> 0 <= rmse2.
Proof.
  intros Hw. unfold rmse2. apply Qdiv_nonneg.
  - apply psum_nonneg. intros a Ha. pose proof (Hw a Ha). pose proof (r2_nonneg f (fst a)). nra.
  - apply psum_nonneg. exact Hw.
Qed.

(* variance decomposition *)
Lemma var_decomp : ~ W == 0 ->
  psum (fun a => snd a * ((rx f (fst a) - mx) * (rx f (fst a) - mx) + (ry f (fst a) - my) * (ry f (fst a) - my))) pw / W
  == rmse2 - (mx * mx + my * my).
Proof.
  intros HW.
  rewrite (psum_ext _ (fun a => (snd a * r2 f (fst a) + (-2 * mx) * (snd a * rx f (fst a)) + (-2 * my) * (snd a * ry f (fst a)))
                                + (mx * mx + my * my) * snd a)).
  2:{ intros a _. rewrite r2_value. ring. }
  rewrite !psum_add, !psum_scal. fold W.
  set (Sx := psum (fun a => snd a * rx f (fst a)) pw). set (Sy := psum (fun a => snd a * ry f (fst a)) pw).
  set (S2 := psum (fun a => snd a * r2 f (fst a)) pw).
  unfold rmse2. fold S2. unfold mx, my. fold Sx Sy. field. exact HW.
Qed.

Theorem std2_unweighted : ~ W == 0 ->
  fst (stat2_encl SStd false f pw) == rmse2 - (mx * mx + my * my).
Proof.
  intros HW. unfold stat2_encl; cbn [fst snd andb]. cbv zeta.
  rewrite Qred_correct. rewrite sumr_psum. rewrite (sumr_psum snd pw). fold W.
  rewrite <- (var_decomp HW). apply Qdiv_comp; [|reflexivity].
  apply psum_ext. intros a _. rewrite !Qred_correct. rewrite (sumr_psum snd pw), (sumr_psum (fun a0 => snd a0 * rx f (fst a0)) pw), (sumr_psum (fun a0 => snd a0 * ry f (fst a0)) pw). fold W. reflexivity.
Qed.

Theorem std2_weighted : ~ W == 0 -> (2 <= length pw)%nat ->
  fst (stat2_encl SStd true f pw) ==
  (rmse2 - (mx * mx + my * my)) / (1 - psum (fun a => snd a * snd a) pw / (W * W)).
Proof.
  intros HW Hn. unfold stat2_encl; cbn [fst snd andb].
  destruct (Nat.eqb_spec (length pw) 1) as [E|_]; [lia|]. cbv zeta. cbn [fst].
  rewrite !Qred_correct. rewrite sumr_psum. rewrite (sumr_psum snd pw). rewrite (sumr_psum (fun a => snd a * snd a) pw). fold W.
  rewrite <- (var_decomp HW). apply Qdiv_comp; [|rewrite Qred_correct; reflexivity].
  apply Qdiv_comp; [|reflexivity].
  apply psum_ext. intros a _. rewrite !Qred_correct. rewrite (sumr_psum snd pw), (sumr_psum (fun a0 => snd a0 * rx f (fst a0)) pw), (sumr_psum (fun a0 => snd a0 * ry f (fst a0)) pw). fold W. reflexivity.
Qed.
End S.

(* the denominator of the weighted std is positive for two or more positively weighted points *)
Lemma sq_le_sum (l : list Q) : (forall w, In w l -> 0 < w) ->
  0 <= psum (fun w => w) l /\ psum (fun w => w * w) l <= psum (fun w => w) l * psum (fun w => w) l.
Proof.
  induction l as [|a l IH]; intros H; simpl; [split; lra|].
  pose proof (H a (or_introl eq_refl)) as Ha.
  destruct IH as [I1 I2]; [intros; apply H; right; assumption|]. split; nra.
Qed.

Theorem weighted_std_denominator_positive (l : list Q) :
  (forall w, In w l -> 0 < w) -> (2 <= length l)%nat ->
  let W := psum (fun w => w) l in
  psum (fun w => w * w) l / (W * W) < 1.
Proof.
  intros H Hn W.
  destruct l as [|a [|b l]]; simpl in Hn; try lia.
  pose proof (H a (or_introl eq_refl)) as Ha. pose proof (H b (or_intror (or_introl eq_refl))) as Hb.
  destruct (sq_le_sum l) as [I1 I2]; [intros; apply H; right; right; assumption|].
  assert (HW: 0 < W) by (unfold W; simpl; lra).
  apply Qlt_shift_div_r; [nra|].
  unfold W. simpl. set (S := psum (fun w => w) l) in *. set (S2 := psum (fun w => w * w) l) in *. nra.
Qed.

(* the same for the (point, weight) lists of the model *)
Corollary std2_weighted_denominator (pw : list (pt4 * Q)) :
  (forall a, In a pw -> 0 < snd a) -> (2 <= length pw)%nat ->
  0 < 1 - psum (fun a => snd a * snd a) pw / (psum snd pw * psum snd pw).
Proof.
  intros H Hn.
  assert (E1: psum (fun a => snd a * snd a) pw == psum (fun w => w * w) (map snd pw)).
  { clear. induction pw as [|a l IH]; simpl; [reflexivity| rewrite IH; reflexivity]. }
  assert (E2: psum snd pw == psum (fun w => w) (map snd pw)).
  { clear. induction pw as [|a l IH]; simpl; [reflexivity| rewrite IH; reflexivity]. }
  rewrite E1, E2.
  pose proof (weighted_std_denominator_positive (map snd pw)) as P. cbv zeta in P.
  assert (psum (fun w => w * w) (map snd pw) / (psum (fun w => w) (map snd pw) * psum (fun w => w) (map snd pw)) < 1).
  { apply P; [|rewrite map_length; exact Hn]. intros w Hw. apply in_map_iff in Hw. destruct Hw as [a [<- Ha]]. apply H; exact Ha. }
  lra.
Qed.

(* mae: the enclosure is ordered, and its lower end never exceeds rmse (Cauchy-Schwarz) *)
Lemma sqrt_lo_le_hi_tight x : 0 <= x -> 0 <= sqrt_lo sqrt_k x /\ sqrt_lo sqrt_k x <= sqrt_hi_tight x.
Proof.
  intros Hx. destruct (sqrt_enclosure sqrt_k x Hx) as [L0 [L1 L2]]. split; [exact L0|].
  unfold sqrt_hi_tight. destruct (Qeq_bool _ _); [lra|].
  destruct (Qlt_le_dec (sqrt_hi sqrt_k x) (sqrt_lo sqrt_k x)) as [C|C]; [|exact C].
  exfalso.
  assert (0 <= sqrt_hi sqrt_k x).
  { unfold sqrt_hi. pose proof (Z.sqrt_nonneg (Qfloor (x * inject_Z (Z.pos sqrt_k * Z.pos sqrt_k)))) as Hs.
    unfold Qle. cbn [Qnum Qden]. rewrite Z.mul_0_l, Z.mul_1_r. lia. }
  nra.
Qed.

Theorem mae_enclosure_ordered weighted f (pw : list (pt4 * Q)) :
  (forall a, In a pw -> 0 <= snd a) ->
  fst (stat2_encl SMae weighted f pw) <= snd (stat2_encl SMae weighted f pw).
Proof.
  intros Hw. unfold stat2_encl; cbn [fst snd]. rewrite !Qred_correct, !sumr_psum.
  set (W := psum snd pw).
  assert (HW: 0 <= W) by (apply psum_nonneg; exact Hw).
  set (L := psum (fun a => snd a * sqrt_lo sqrt_k (r2 f (fst a))) pw).
  set (H := psum (fun a => snd a * sqrt_hi_tight (r2 f (fst a))) pw).
  assert (L0: 0 <= L).
  { apply psum_nonneg. intros a Ha. pose proof (Hw a Ha).
    destruct (sqrt_lo_le_hi_tight (r2 f (fst a)) (r2_nonneg f (fst a))). nra. }
  assert (LH: L <= H).
  { apply psum_le. intros a Ha. pose proof (Hw a Ha).
    destruct (sqrt_lo_le_hi_tight (r2 f (fst a)) (r2_nonneg f (fst a))). nra. }
  assert (A: 0 <= L / W) by (apply Qdiv_nonneg; assumption).
  assert (B: L / W <= H / W).
  { destruct (Qeq_dec W 0) as [E|E].
    - unfold Qdiv. rewrite E. assert (Z: / 0 == 0) by reflexivity. rewrite Z. lra.
    - unfold Qdiv. apply Qmult_le_compat_r; [exact LH|]. apply Qinv_le_0_compat. exact HW. }
  nra.
Qed.

(* weighted Cauchy-Schwarz: (sum w a)^2 <= (sum w) (sum w a^2) *)
Lemma cauchy_schwarz {A} (w g : A -> Q) l : (forall a, In a l -> 0 <= w a) ->
  psum (fun a => w a * g a) l * psum (fun a => w a * g a) l <= psum w l * psum (fun a => w a * (g a * g a)) l.
Proof.
  intros Hw.
  (* 0 <= sum w (g - t)^2 for every t, with t = S1/S0 *)
  set (S0 := psum w l). set (S1 := psum (fun a => w a * g a) l). set (S2 := psum (fun a => w a * (g a * g a)) l).
  assert (P: forall t, 0 <= S2 - 2 * t * S1 + t * t * S0).
  { intros t.
    assert (E: S2 - 2 * t * S1 + t * t * S0 == psum (fun a => w a * ((g a - t) * (g a - t))) l).
    { rewrite (psum_ext (fun a => w a * ((g a - t) * (g a - t)))
                        (fun a => (w a * (g a * g a) + (-2 * t) * (w a * g a)) + (t * t) * w a)).
      2:{ intros; ring. }
      rewrite !psum_add, !psum_scal. unfold S0, S1, S2. ring. }
    rewrite E. apply psum_nonneg. intros a Ha. pose proof (Hw a Ha) as Hwa.
    apply Qmult_le_0_compat; [exact Hwa|]. set (z := g a - t). nra. }
  assert (H0: 0 <= S0) by (apply psum_nonneg; exact Hw).
  destruct (Qeq_dec S0 0) as [E|E].
  - (* S0 = 0: then S1 = 0 (else t large contradicts P) *)
    destruct (Qeq_dec S1 0) as [E1|E1].
    { assert (G1: S1 * S1 == 0) by (rewrite E1; ring). assert (G2: S0 * S2 == 0) by (rewrite E; ring).
      rewrite G1, G2. apply Qle_refl. }
    exfalso. pose proof (P ((S2 + 1) / (2 * S1))) as Q0. rewrite E in Q0.
    assert (2 * ((S2 + 1) / (2 * S1)) * S1 == S2 + 1) by (field; exact E1). lra.
  - pose proof (P (S1 / S0)) as Q0.
    assert (S2 - 2 * (S1 / S0) * S1 + S1 / S0 * (S1 / S0) * S0 == S2 - S1 * S1 / S0) by (field; exact E).
    rewrite H in Q0.
    assert (S1 * S1 / S0 <= S2) by lra.
    assert (S0 * (S1 * S1 / S0) == S1 * S1) by (field; exact E).
    assert (0 < S0) by (destruct (Qle_lt_or_eq _ _ H0) as [L|L]; [exact L| exfalso; apply E; symmetry; exact L]).
    nra.
Qed.

Theorem mae_lower_end_at_most_rmse weighted f (pw : list (pt4 * Q)) :
  (forall a, In a pw -> 0 <= snd a) -> 0 < psum snd pw ->
  fst (stat2_encl SMae weighted f pw) <= fst (stat2_encl SRmse weighted f pw).
Proof.
  intros Hw HW. unfold stat2_encl; cbn [fst snd]. rewrite !Qred_correct, !sumr_psum.
  set (W := psum snd pw) in *.
  set (g := fun a : pt4 * Q => sqrt_lo sqrt_k (r2 f (fst a))).
  pose proof (cauchy_schwarz snd g pw Hw) as CS. fold W in CS.
  set (L := psum (fun a => snd a * g a) pw) in *.
  assert (B: psum (fun a => snd a * (g a * g a)) pw <= psum (fun a => snd a * r2 f (fst a)) pw).
  { apply psum_le. intros a Ha. pose proof (Hw a Ha).
    destruct (sqrt_enclosure sqrt_k (r2 f (fst a)) (r2_nonneg f (fst a))) as [_ [L1 _]]. unfold g. nra. }
  set (S2 := psum (fun a => snd a * r2 f (fst a)) pw) in *.
  assert (E: L / W * (L / W) == L * L / (W * W)) by (field; lra).
  change (psum (fun a => snd a * sqrt_lo sqrt_k (r2 f (fst a))) pw) with L.
  rewrite E. apply Qle_shift_div_r; [nra|].
  assert (S2 / W * (W * W) == S2 * W) by (field; lra). rewrite H. nra.
Qed.

Print Assumptions std2_weighted.
Print Assumptions std2_weighted_denominator.
Print Assumptions mae_lower_end_at_most_rmse.

(* ---- constant weights are NOT "no weights" for std: with all weights equal to c > 0 the weighted estimator is the
        unweighted (population) one times n / (n - 1); rmse is the same ---- *)
Definition unit_w (pw : list (pt4 * Q)) : list (pt4 * Q) := map (fun a => (fst a, 1)) pw.
Definition qlen {A} (l : list A) : Q := psum (fun _ => 1) l.

Lemma psum_const_w c (g : pt4 -> Q) (pw : list (pt4 * Q)) : (forall a, In a pw -> snd a == c) ->
  psum (fun a => snd a * g (fst a)) pw == c * psum (fun a => g (fst a)) pw.
Proof.
  intros H. rewrite <- psum_scal. apply psum_ext. intros a Ha. rewrite (H a Ha). reflexivity.
Qed.
Lemma psum_unit_w (g : pt4 -> Q) (pw : list (pt4 * Q)) :
  psum (fun a => snd a * g (fst a)) (unit_w pw) == psum (fun a => g (fst a)) pw.
Proof. induction pw as [|a l IH]; simpl; [reflexivity| rewrite IH; ring]. Qed.
Lemma psum_snd_const c (pw : list (pt4 * Q)) : (forall a, In a pw -> snd a == c) -> psum snd pw == c * qlen pw.
Proof.
  intros H. unfold qlen. rewrite <- psum_scal. apply psum_ext. intros a Ha. rewrite (H a Ha). ring.
Qed.
Lemma psum_snd_unit (pw : list (pt4 * Q)) : psum snd (unit_w pw) == qlen pw.
Proof. unfold qlen. induction pw as [|a l IH]; simpl; [reflexivity| rewrite IH; reflexivity]. Qed.
Lemma psum_sq_const c (pw : list (pt4 * Q)) : (forall a, In a pw -> snd a == c) ->
  psum (fun a => snd a * snd a) pw == c * c * qlen pw.
Proof.
  intros H. unfold qlen. rewrite <- psum_scal. apply psum_ext. intros a Ha. rewrite (H a Ha). ring.
Qed.
Lemma qlen_pos {A} (l : list A) : (1 <= length l)%nat -> 1 <= qlen l.
Proof.
  unfold qlen. destruct l as [|a l]; simpl; [lia|]. intros _.
  assert (0 <= psum (fun _ : A => 1) l) by (apply psum_nonneg; intros; lra). lra.
Qed.
Lemma qlen_ge2 {A} (l : list A) : (2 <= length l)%nat -> 2 <= qlen l.
Proof.
  unfold qlen. destruct l as [|a [|b l]]; simpl; try lia. intros _.
  assert (0 <= psum (fun _ : A => 1) l) by (apply psum_nonneg; intros; lra). lra.
Qed.
Lemma unit_w_length pw : length (unit_w pw) = length pw.
Proof. apply map_length. Qed.

Theorem rmse2_constant_weights c f pw weighted : 0 < c -> (1 <= length pw)%nat ->
  (forall a, In a pw -> snd a == c) ->
  fst (stat2_encl SRmse weighted f pw) == fst (stat2_encl SRmse false f (unit_w pw)).
Proof.
  intros Hc Hn H.
  destruct (rmse2_value f pw weighted) as [E1 _]. destruct (rmse2_value f (unit_w pw) false) as [E2 _].
  rewrite E1, E2.
  rewrite (psum_const_w c (r2 f) pw H), (psum_unit_w (r2 f) pw), (psum_snd_const c pw H), psum_snd_unit.
  pose proof (qlen_pos pw Hn). field. split; lra.
Qed.

Theorem std2_constant_weights c f pw : 0 < c -> (2 <= length pw)%nat ->
  (forall a, In a pw -> snd a == c) ->
  fst (stat2_encl SStd true f pw) == qlen pw / (qlen pw - 1) * fst (stat2_encl SStd false f (unit_w pw)).
Proof.
  intros Hc Hn H. pose proof (qlen_ge2 pw Hn) as Hq.
  assert (W1: ~ psum snd pw == 0) by (rewrite (psum_snd_const c pw H); nra).
  assert (W2: ~ psum snd (unit_w pw) == 0) by (rewrite psum_snd_unit; lra).
  rewrite (std2_weighted f pw W1 Hn). rewrite (std2_unweighted f (unit_w pw) W2).
  rewrite (psum_const_w c (r2 f) pw H), (psum_const_w c (rx f) pw H), (psum_const_w c (ry f) pw H).
  rewrite (psum_unit_w (r2 f) pw), (psum_unit_w (rx f) pw), (psum_unit_w (ry f) pw).
  rewrite (psum_snd_const c pw H), psum_snd_unit, (psum_sq_const c pw H).
  set (n := qlen pw) in *. set (S2 := psum (fun a => r2 f (fst a)) pw). set (Sx := psum (fun a => rx f (fst a)) pw).
  set (Sy := psum (fun a => ry f (fst a)) pw).
  field. repeat split; try lra; nra.
Qed.

(* ... so for n >= 2 retained sources with constant weights the two estimators differ unless the spread is zero *)
Example std2_constant_weights_witness :
  let f := {| f00 := 1; f01 := 0; f10_ := 0; f11_ := 1; fs0 := 0; fs1 := 0 |} in
  let pts := [({| qx := 3; qy := 4; qu := 0; qv := 0 |}, 2); ({| qx := 1; qy := 1; qu := 1; qv := 1 |}, 2);
              ({| qx := 0; qy := 2; qu := 0; qv := 0 |}, 2)] in
  fst (stat2_encl SStd true f pts) == (3 # 2) * fst (stat2_encl SStd false f (unit_w pts)) /\
  ~ fst (stat2_encl SStd true f pts) == fst (stat2_encl SStd false f (unit_w pts)).
Proof. vm_compute. split; [reflexivity| discriminate]. Qed.
Print Assumptions std2_constant_weights.
