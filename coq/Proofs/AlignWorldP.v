(* C14: facts about the scripted world (Model/AlignWorld.v): what the rows of the reference catalog are *)
From Coq Require Import List Bool Arith ZArith Lia.
From TW Require Import AlignModel AlignWorld AlignGroups AlignLoop AlignThm.
Import ListNotations.

Lemma memZ_In s l : memZ s l = true <-> In s l.
Proof.
  unfold memZ. rewrite existsb_exists. split.
  - intros [x [Hx E]]. apply Z.eqb_eq in E. subst. exact Hx.
  - intros H. exists s. split; [exact H| apply Z.eqb_refl].
Qed.

Lemma sids_of_snoc W rs c : sids_of W (rs ++ [c]) = sids_of W rs ++ block_sids W (sids_of W rs) c.
Proof. unfold sids_of. rewrite fold_left_app. reflexivity. Qed.

Lemma sids_of_app W rs rs' :
  sids_of W (rs ++ rs') = fold_left (fun acc c => acc ++ block_sids W acc c) rs' (sids_of W rs).
Proof. unfold sids_of. apply fold_left_app. Qed.

(* the rows already present are an unchanged prefix of the rows after any further blocks *)
Lemma fold_prefix W : forall rs acc, exists tl, fold_left (fun acc c => acc ++ block_sids W acc c) rs acc = acc ++ tl.
Proof.
  induction rs as [|c rs IH]; intros acc; simpl.
  - exists []. symmetry; apply app_nil_r.
  - destruct (IH (acc ++ block_sids W acc c)) as [tl E]. exists (block_sids W acc c ++ tl).
    rewrite E, app_assoc. reflexivity.
Qed.
Theorem sids_prefix W rs rs' : exists tl, sids_of W (rs ++ rs') = sids_of W rs ++ tl.
Proof. rewrite sids_of_app. apply fold_prefix. Qed.

(* only unmatched rows are appended: a row appended by group g is a row of g whose source is not in the reference
   at that time *)
Theorem appended_rows_unmatched W rs g k s :
  In s (block_sids W (sids_of W rs) {| c_from := Some g; c_rows := k |}) ->
  In s (wrows W g) /\ ~ In s (sids_of W rs).
Proof.
  unfold block_sids; simpl. rewrite filter_In. intros [H1 H2]. split; [exact H1|].
  intro Hin. apply memZ_In in Hin. rewrite Hin in H2. discriminate.
Qed.

Lemma nodup_app_intro {A} : forall l1 l2 : list A,
  NoDup l1 -> NoDup l2 -> (forall x, In x l1 -> In x l2 -> False) -> NoDup (l1 ++ l2).
Proof.
  induction l1 as [|x l1 IH]; intros l2 H1 H2 H3; simpl; [exact H2|].
  inversion H1; subst. constructor.
  - intro Hin. apply in_app_or in Hin. destruct Hin as [Hin|Hin]; [contradiction| apply (H3 x); [left; reflexivity| exact Hin]].
  - apply IH; auto. intros y Hy1 Hy2. apply (H3 y); [right; exact Hy1| exact Hy2].
Qed.

Lemma nodup_app_filter acc rows :
  NoDup acc -> NoDup rows -> NoDup (acc ++ filter (fun s => negb (memZ s acc)) rows).
Proof.
  intros H1 H2. apply nodup_app_intro; [exact H1| apply NoDup_filter; exact H2|].
  intros x Hx Hf. apply filter_In in Hf. destruct Hf as [_ Hf]. apply memZ_In in Hx. rewrite Hx in Hf. discriminate.
Qed.

Lemma fold_nodup W : forall rs acc, NoDup acc ->
  (forall c, In c rs -> exists g, c_from c = Some g /\ NoDup (wrows W g)) ->
  NoDup (fold_left (fun acc c => acc ++ block_sids W acc c) rs acc).
Proof.
  induction rs as [|c rs IH]; intros acc Ha H; simpl; [exact Ha|].
  apply IH.
  - destruct (H c (or_introl eq_refl)) as [g [Eg Hg]]. unfold block_sids. rewrite Eg.
    apply nodup_app_filter; assumption.
  - intros c' Hc'. apply H. right; exact Hc'.
Qed.

Definition wellformed (W : world) : Prop :=
  NoDup (w_ref_rows W) /\ forall g, In g (groups (to_images W)) -> NoDup (wrows W g).

(* each physical source occurs at most once in the returned reference catalog *)
Theorem each_source_once W o : r_exc (run_world W o) = None -> wellformed W -> NoDup (final_sids W o).
Proof.
  intros Hn [Wr Wg]. unfold final_sids, run_world in *.
  set (ims := to_images W) in *. set (orc := world_oracle W) in *.
  destruct (normal_inv ims o orc Hn) as [Hc Hl].
  destruct (align_char ims o orc Hc Hl) as (_ & _ & Hr & (blocks & H1 & _ & _ & _ & H5)).
  rewrite H1. unfold sids_of. simpl fold_left.
  apply fold_nodup.
  - unfold origin, block_sids. destruct (check_args_ref o Hc) as [E|[bb [ids [_ [E|E]]]]]; rewrite E; simpl.
    + apply NoDup_filter. apply Wg. apply (live_in_groups ims). exact (Hr E).
    + exact Wr.
    + exact Wr.
  - intros c Hc'. destruct (in_split _ _ Hc') as [pre [post Ebl]].
    destruct (H5 pre c post Ebl) as [g [E1 [Hgl _]]]. exists g. split; [exact E1|].
    apply Wg. exact (live_in_groups ims g Hgl).
Qed.
