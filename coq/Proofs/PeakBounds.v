(* Bounds theorem for the model of _find_peak: for every solver (coefficient oracle) the result lies inside the
   histogram and inside the returned fit box, the box contains the first maximum, status in the vocabulary. *)
From Coq Require Import QArith Qabs ZArith List Bool String Lia Lqa Psatz.
From TW Require Import GJModel Peak.
Import ListNotations.
Open Scope Z_scope.

Lemma in_zrange a b k : In k (zrange a b) <-> a <= k < b.
Proof.
  unfold zrange. rewrite in_map_iff. split.
  - intros [n [<- Hn]]. apply in_seq in Hn. lia.
  - intros H. exists (Z.to_nat (k - a)). split; [lia|]. apply in_seq. lia.
Qed.

Lemma in_cells ny nx j i : In (j, i) (cells ny nx) <-> (0 <= j < ny /\ 0 <= i < nx).
Proof. unfold cells. rewrite in_prod_iff, !in_zrange. tauto. Qed.

Lemma in_masked ny nx m j i : In (j, i) (masked_cells ny nx m) -> 0 <= j < ny /\ 0 <= i < nx.
Proof. unfold masked_cells. rewrite filter_In, in_cells. tauto. Qed.

(* ---- argmax ---- *)
Lemma fold_amax_spec h l : forall best,
  match fold_left (amax_step h) l best with
  | None => best = None /\ l = []
  | Some c => (Some c = best \/ In c l) /\
              (forall c', In c' l -> val h (fst c') (snd c') <= val h (fst c) (snd c)) /\
              (forall b, best = Some b -> val h (fst b) (snd b) <= val h (fst c) (snd c))
  end.
Proof.
  induction l as [|x l IH]; intros best; simpl.
  - destruct best; [split; [auto|split; [intros ? []| intros b [= ->]; lia]] | auto].
  - specialize (IH (amax_step h best x)).
    destruct (fold_left (amax_step h) l (amax_step h best x)) as [c|].
    + destruct IH as [Hin [Hmax Hb]]. unfold amax_step in Hin, Hb.
      destruct best as [b0|].
      * destruct (val h (fst b0) (snd b0) <? val h (fst x) (snd x)) eqn:E.
        -- apply Z.ltb_lt in E. specialize (Hb x eq_refl). split; [|split].
           ++ destruct Hin as [[= ->]|Hin]; auto.
           ++ intros c' [<-|Hc']; auto.
           ++ intros b [= <-]. lia.
        -- apply Z.ltb_ge in E. specialize (Hb b0 eq_refl). split; [|split].
           ++ destruct Hin as [Hin|Hin]; auto.
           ++ intros c' [<-|Hc']; [lia|auto].
           ++ intros b [= <-]. lia.
      * specialize (Hb x eq_refl). split; [|split].
        -- destruct Hin as [[= ->]|Hin]; auto.
        -- intros c' [<-|Hc']; auto.
        -- intros b [=].
    + destruct IH as [IH _]. unfold amax_step in IH. destruct best; [destruct (_ <? _)|]; discriminate.
Qed.

Lemma argmax_first_in h l c : argmax_first h l = Some c -> In c l.
Proof.
  unfold argmax_first. intros H. pose proof (fold_amax_spec h l None) as S. rewrite H in S.
  destruct S as [[S|S] _]; [discriminate|exact S].
Qed.

Lemma argmax_first_max h l c : argmax_first h l = Some c ->
  forall c', In c' l -> val h (fst c') (snd c') <= val h (fst c) (snd c).
Proof.
  unfold argmax_first. intros H. pose proof (fold_amax_spec h l None) as S. rewrite H in S. apply S.
Qed.

Lemma argmax_first_none h l : argmax_first h l = None -> l = [].
Proof.
  unfold argmax_first. intros H. pose proof (fold_amax_spec h l None) as S. rewrite H in S. apply S.
Qed.

(* ---- box arithmetic ---- *)
Lemma box1_spec n imax b : 0 <= imax < n -> 1 <= b ->
  let x12 := box1 n imax b in
  0 <= fst x12 <= imax /\ imax < snd x12 <= n /\ snd x12 - fst x12 <= b.
Proof.
  intros Hi Hb. unfold box1. cbn [fst snd].
  assert (0 <= b / 2) by (apply Z.div_pos; lia).
  assert (b / 2 < b) by (apply Z.div_lt_upper_bound; lia).
  lia.
Qed.

Lemma expand_spec n imax b x12 : 1 <= b ->
  0 <= fst x12 <= imax -> imax < snd x12 <= n -> snd x12 - fst x12 <= b ->
  let e := expand n b x12 in
  0 <= fst e <= imax /\ imax < snd e <= n /\ snd e - fst e <= b.
Proof.
  intros Hb H1 H2 H3. destruct x12 as [x1 x2]. cbn [fst snd] in *. unfold expand.
  destruct (x2 - x1 <? b) eqn:E; cbn [fst snd]; [|lia].
  destruct (x1 =? 0) eqn:E1; [apply Z.eqb_eq in E1| apply Z.eqb_neq in E1].
  - subst x1. destruct (Z.min n (0 + b) =? n) eqn:E2; cbn [fst snd]; lia.
  - destruct (x2 =? n) eqn:E2; cbn [fst snd]; lia.
Qed.

(* ---- fit points ---- *)
Definition nonneg (h : hist) : Prop := forall j i, 0 <= val h j i.

Lemma nonneg_of_forall h : Forall (Forall (fun v => 0 <= v)) h -> nonneg h.
Proof.
  intros F j i. unfold val.
  destruct (nth_in_or_default (Z.to_nat j) h []) as [Hr|Hr].
  - rewrite Forall_forall in F. specialize (F _ Hr). 
    destruct (nth_in_or_default (Z.to_nat i) (nth (Z.to_nat j) h []) 0) as [Hv|Hv].
    + rewrite Forall_forall in F. apply F. exact Hv.
    + rewrite Hv. lia.
  - rewrite Hr. destruct (Z.to_nat i); simpl; lia.
Qed.

Definition pts_ok (w hh : Z) (pts : list (Z * Z * Z)) : Prop :=
  forall p, In p pts -> 1 <= px p <= w /\ 1 <= py p <= hh /\ 0 <= pd p.

Lemma fitpts_ok h m x1 x2 y1 y2 : nonneg h -> pts_ok (x2 - x1) (y2 - y1) (fitpts h m x1 x2 y1 y2).
Proof.
  intros Hn p Hp. unfold fitpts in Hp. apply in_map_iff in Hp. destruct Hp as [[j i] [<- Hji]].
  apply filter_In in Hji. destruct Hji as [Hji _]. apply in_prod_iff in Hji. rewrite !in_zrange in Hji.
  unfold px, py, pd. cbn [fst snd]. pose proof (Hn j i). lia.
Qed.

(* ---- centre of mass ---- *)
Lemma sumz_bounds (f : Z * Z * Z -> Z) lo hi pts :
  (forall p, In p pts -> lo <= f p <= hi /\ 0 <= pd p) ->
  lo * sumz pd pts <= sumz (fun p => f p * pd p) pts <= hi * sumz pd pts /\ 0 <= sumz pd pts.
Proof.
  induction pts as [|p l IH]; intros H; simpl.
  - lia.
  - destruct IH as [IH1 IH2]; [intros q Hq; apply H; right; exact Hq|].
    destruct (H p (or_introl eq_refl)) as [Hf Hd]. nia.
Qed.

Open Scope Q_scope.

(* lra does not treat [inject_Z v] as an atom: name these terms first *)
Ltac absz :=
  repeat match goal with
  | |- context [inject_Z ?z] => let q := fresh "q" in set (q := inject_Z z) in *; clearbody q
  | H : context [inject_Z ?z] |- _ => let q := fresh "q" in set (q := inject_Z z) in *; clearbody q
  end.

Lemma half_of_eq z : half_of z == (inject_Z z - 1) * (1#2).
Proof. unfold half_of. rewrite Qred_correct. reflexivity. Qed.

Lemma inj_lt a b : (a < b)%Z -> inject_Z a < inject_Z b. Proof. intros; rewrite <- Zlt_Qlt; assumption. Qed.
Lemma inj_le a b : (a <= b)%Z -> inject_Z a <= inject_Z b. Proof. intros; rewrite <- Zle_Qle; assumption. Qed.

Lemma com_coord (x1 w s dt : Z) : (0 < dt)%Z -> (1 * dt <= s <= w * dt)%Z ->
  inject_Z x1 <= inject_Z x1 + inject_Z s / inject_Z dt - 1 <= inject_Z (x1 + w) - 1.
Proof.
  intros Hdt [H1 H2]. apply inj_lt in Hdt. apply inj_le in H1, H2.
  rewrite !inject_Z_mult in *. rewrite inject_Z_plus. change (inject_Z 0) with 0 in Hdt. change (inject_Z 1) with 1 in H1.
  set (S := inject_Z s) in *. set (D := inject_Z dt) in *. set (W := inject_Z w) in *.
  assert (E: S / D * D == S) by (field; lra).
  assert (1 <= S / D). { apply Qle_shift_div_l; lra. }
  assert (S / D <= W). { apply Qle_shift_div_r; lra. }
  lra.
Qed.

Definition in_box_q (x y : Q) (x1 x2 y1 y2 : Z) : Prop :=
  inject_Z x1 <= x <= inject_Z x2 - 1 /\ inject_Z y1 <= y <= inject_Z y2 - 1.

Lemma com_spec pts x1 x2 y1 y2 : (x1 < x2)%Z -> (y1 < y2)%Z -> pts_ok (x2 - x1) (y2 - y1) pts ->
  let r := com pts x1 x2 y1 y2 in
  in_box_q (fst (fst r)) (snd (fst r)) x1 x2 y1 y2 /\ (snd r = ErrNoData \/ snd r = WarnCoM).
Proof.
  intros Hx Hy Hok. unfold com.
  destruct (sumz pd pts =? 0)%Z eqn:E.
  - cbn [fst snd]. split; [|left; reflexivity]. unfold in_box_q. rewrite !half_of_eq, !inject_Z_plus.
    assert (Hx': (x1 + 1 <= x2)%Z) by lia. assert (Hy': (y1 + 1 <= y2)%Z) by lia.
    apply inj_le in Hx', Hy'. rewrite inject_Z_plus in Hx', Hy'. change (inject_Z 1) with 1 in *.
    absz. split; split; lra.
  - apply Z.eqb_neq in E. cbn [fst snd]. split; [|right; reflexivity].
    destruct (sumz_bounds px 1 (x2 - x1) pts) as [Bx Dx]. { intros p Hp. destruct (Hok p Hp) as [? [? ?]]. split; assumption. }
    destruct (sumz_bounds py 1 (y2 - y1) pts) as [By Dy]. { intros p Hp. destruct (Hok p Hp) as [? [? ?]]. split; assumption. }
    unfold in_box_q. rewrite !Qred_correct.
    pose proof (com_coord x1 (x2 - x1) (sumz (fun p => (px p * pd p)%Z) pts) (sumz pd pts)) as Cx.
    pose proof (com_coord y1 (y2 - y1) (sumz (fun p => (py p * pd p)%Z) pts) (sumz pd pts)) as Cy.
    replace (x1 + (x2 - x1))%Z with x2 in Cx by lia. replace (y1 + (y2 - y1))%Z with y2 in Cy by lia.
    split; [apply Cx| apply Cy]; lia.
Qed.

Lemma Qleb'_true a b : Qleb' a b = true -> a <= b.
Proof. unfold Qleb'. apply Qle_bool_imp_le. Qed.

Lemma finish_spec oc pts x1 x2 y1 y2 : (x1 < x2)%Z -> (y1 < y2)%Z -> pts_ok (x2 - x1) (y2 - y1) pts ->
  let r := finish oc pts x1 x2 y1 y2 in
  in_box_q (fst (fst r)) (snd (fst r)) x1 x2 y1 y2 /\ snd r <> WarnEdge.
Proof.
  intros Hx Hy Hok. pose proof (com_spec pts x1 x2 y1 y2 Hx Hy Hok) as C. cbv zeta in C.
  unfold finish. destruct oc as [c|].
  - destruct (no_max c).
    + destruct (com pts x1 x2 y1 y2) as [[x y] st]. cbn [fst snd] in C. destruct C as [C1 C2].
      destruct st; cbn [fst snd]; (split; [exact C1| discriminate]).
    + match goal with |- context [if ?g then _ else _] => destruct g eqn:G end.
      * cbn [fst snd]. apply andb_prop in G. destruct G as [G G4]. apply andb_prop in G. destruct G as [G G3].
        apply andb_prop in G. destruct G as [G1 G2].
        apply Qleb'_true in G1, G2, G3, G4. split; [|discriminate]. split; split; assumption.
      * destruct C as [C1 C2]. split; [exact C1|]. destruct C2 as [-> | ->]; discriminate.
  - destruct C as [C1 C2]. split; [exact C1|]. destruct C2 as [-> | ->]; discriminate.
Qed.

(* ---- the full statement ---- *)
Definition peak_ok (ny nx : Z) (p : peak) : Prop :=
  (0 <= p_x1 p < p_x2 p)%Z /\ (p_x2 p <= nx)%Z /\ (0 <= p_y1 p < p_y2 p)%Z /\ (p_y2 p <= ny)%Z /\
  in_box_q (p_x p) (p_y p) (p_x1 p) (p_x2 p) (p_y1 p) (p_y2 p) /\
  (0 <= p_x p <= inject_Z nx - 1) /\ (0 <= p_y p <= inject_Z ny - 1) /\
  In (status_str (p_st p)) vocabulary.

Lemma vocabulary_complete s : In (status_str s) vocabulary.
Proof. destruct s; simpl; tauto. Qed.

Lemma peak_ok_of_box ny nx p :
  (0 <= p_x1 p < p_x2 p)%Z -> (p_x2 p <= nx)%Z -> (0 <= p_y1 p < p_y2 p)%Z -> (p_y2 p <= ny)%Z ->
  in_box_q (p_x p) (p_y p) (p_x1 p) (p_x2 p) (p_y1 p) (p_y2 p) -> peak_ok ny nx p.
Proof.
  intros Hx Hx2 Hy Hy2 B. unfold peak_ok. repeat (split; [assumption|]).
  destruct B as [[B1 B2] [B3 B4]].
  destruct Hx as [Hx0 Hx1]. destruct Hy as [Hy0 Hy1].
  apply inj_le in Hx0, Hx2, Hy0, Hy2. change (inject_Z 0) with 0 in *.
  absz. split; [lra|]. split; [lra|]. apply vocabulary_complete.
Qed.

Lemma center_ok ny nx : (1 <= nx)%Z -> (1 <= ny)%Z -> peak_ok ny nx (center ny nx).
Proof.
  intros Hx Hy. apply peak_ok_of_box; cbn [center p_x1 p_x2 p_y1 p_y2 p_x p_y]; try lia.
  unfold in_box_q. rewrite !half_of_eq. apply inj_le in Hx, Hy. change (inject_Z 1) with 1 in *. change (inject_Z 0) with 0.
  absz. split; split; lra.
Qed.

(* what stage 1 guarantees *)
Definition stage1_ok (ny nx b : Z) (s : stage1) : Prop :=
  match s with
  | Done p => peak_ok ny nx p
  | NeedFit x1 x2 y1 y2 pts =>
      (0 <= x1 < x2)%Z /\ (x2 <= nx)%Z /\ (0 <= y1 < y2)%Z /\ (y2 <= ny)%Z /\ pts_ok (x2 - x1) (y2 - y1) pts
  end.

Lemma stage1_spec ny nx h m b : (1 <= nx)%Z -> (1 <= ny)%Z -> (1 <= b)%Z -> nonneg h ->
  stage1_ok ny nx b (stage1_of ny nx h m b).
Proof.
  intros Hnx Hny Hb Hn. unfold stage1_of.
  destruct (argmax_first h (masked_cells ny nx m)) as [[jmax imax]|] eqn:A; [|apply center_ok; assumption].
  apply argmax_first_in in A. apply in_masked in A. destruct A as [Hj Hi].
  destruct (val h jmax imax <? 1)%Z; [apply center_ok; assumption|].
  pose proof (box1_spec nx imax b Hi Hb) as BX. pose proof (box1_spec ny jmax b Hj Hb) as BY. cbv zeta in BX, BY.
  set (x12 := box1 nx imax b) in *. set (y12 := box1 ny jmax b) in *.
  match goal with |- context [if ?g then _ else _] => destruct g end.
  - apply peak_ok_of_box; cbn [mkpeak p_x1 p_x2 p_y1 p_y2 p_x p_y fst snd]; try lia.
    unfold in_box_q. destruct BX as [[? ?] [[? ?] ?]]. destruct BY as [[? ?] [[? ?] ?]].
    assert (imax <= snd x12 - 1)%Z by lia. assert (jmax <= snd y12 - 1)%Z by lia.
    repeat match goal with H : (_ <= _)%Z |- _ => apply inj_le in H end.
    rewrite ?inject_Z_plus, ?inject_Z_opp in *. unfold Z.sub in *. rewrite ?inject_Z_plus, ?inject_Z_opp in *.
    change (inject_Z 1) with 1 in *. absz. split; split; lra.
  - destruct BX as [BX1 [BX2 BX3]]. destruct BY as [BY1 [BY2 BY3]].
    pose proof (expand_spec nx imax b x12 Hb BX1 BX2 BX3) as EX. pose proof (expand_spec ny jmax b y12 Hb BY1 BY2 BY3) as EY.
    cbv zeta in EX, EY. set (ex := expand nx b x12) in *. set (ey := expand ny b y12) in *.
    pose proof (fitpts_ok h m (fst ex) (snd ex) (fst ey) (snd ey) Hn) as P.
    match goal with |- context [if ?g then _ else _] => destruct g end.
    + pose proof (com_spec (fitpts h m (fst ex) (snd ex) (fst ey) (snd ey)) (fst ex) (snd ex) (fst ey) (snd ey)) as C.
      cbv zeta in C. destruct C as [C _]; [lia|lia|exact P|].
      apply peak_ok_of_box; cbn [mkpeak p_x1 p_x2 p_y1 p_y2 p_x p_y]; try lia. exact C.
    + cbn [stage1_ok]. split; [lia|]. split; [lia|]. split; [lia|]. split; [lia|]. exact P.
Qed.

Theorem find_peak_bounds solver ny nx h m b : (1 <= nx)%Z -> (1 <= ny)%Z -> (1 <= b)%Z -> nonneg h ->
  peak_ok ny nx (find_peak_with solver ny nx h m b).
Proof.
  intros Hnx Hny Hb Hn. pose proof (stage1_spec ny nx h m b Hnx Hny Hb Hn) as S.
  unfold find_peak_with. destruct (stage1_of ny nx h m b) as [p|x1 x2 y1 y2 pts]; [exact S|].
  cbn [stage1_ok] in S. destruct S as [Hx [Hx2 [Hy [Hy2 P]]]].
  pose proof (finish_spec (solver pts) pts x1 x2 y1 y2) as F. cbv zeta in F. destruct F as [F _]; [lia|lia|exact P|].
  apply peak_ok_of_box; cbn [mkpeak p_x1 p_x2 p_y1 p_y2 p_x p_y]; try lia. exact F.
Qed.

(* the fit box contains the first maximum and is at most b wide *)
Theorem find_peak_near_max solver ny nx h m b jmax imax : (1 <= b)%Z ->
  argmax_first h (masked_cells ny nx m) = Some (jmax, imax) -> (1 <= val h jmax imax)%Z ->
  let p := find_peak_with solver ny nx h m b in
  (p_x1 p <= imax < p_x2 p)%Z /\ (p_x2 p - p_x1 p <= b)%Z /\
  (p_y1 p <= jmax < p_y2 p)%Z /\ (p_y2 p - p_y1 p <= b)%Z.
Proof.
  intros Hb A Hv. pose proof (argmax_first_in _ _ _ A) as I. apply in_masked in I. destruct I as [Hj Hi].
  unfold find_peak_with, stage1_of. rewrite A.
  destruct (val h jmax imax <? 1)%Z eqn:E; [apply Z.ltb_lt in E; lia|].
  pose proof (box1_spec nx imax b Hi Hb) as BX. pose proof (box1_spec ny jmax b Hj Hb) as BY. cbv zeta in BX, BY.
  set (x12 := box1 nx imax b) in *. set (y12 := box1 ny jmax b) in *.
  destruct BX as [BX1 [BX2 BX3]]. destruct BY as [BY1 [BY2 BY3]].
  match goal with |- context [if ?g then _ else _] => destruct g end.
  - cbn [mkpeak p_x1 p_x2 p_y1 p_y2]. lia.
  - pose proof (expand_spec nx imax b x12 Hb BX1 BX2 BX3) as EX. pose proof (expand_spec ny jmax b y12 Hb BY1 BY2 BY3) as EY.
    cbv zeta in EX, EY.
    match goal with |- context [if ?g then _ else _] => destruct g end; cbn [mkpeak p_x1 p_x2 p_y1 p_y2]; lia.
Qed.

(* hence: whatever the coefficients, the returned point is less than b bins from the first maximum *)
Theorem find_peak_within_box_of_max solver ny nx h m b jmax imax : (1 <= nx)%Z -> (1 <= ny)%Z -> (1 <= b)%Z -> nonneg h ->
  argmax_first h (masked_cells ny nx m) = Some (jmax, imax) -> (1 <= val h jmax imax)%Z ->
  let p := find_peak_with solver ny nx h m b in
  Qabs (p_x p - inject_Z imax) <= inject_Z b - 1 /\ Qabs (p_y p - inject_Z jmax) <= inject_Z b - 1.
Proof.
  intros Hnx Hny Hb Hn A Hv. pose proof (find_peak_near_max solver ny nx h m b jmax imax Hb A Hv) as N.
  pose proof (find_peak_bounds solver ny nx h m b Hnx Hny Hb Hn) as B. cbv zeta in N |- *.
  set (p := find_peak_with solver ny nx h m b) in *.
  destruct N as [[N1 N2] [N3 [[N4 N5] N6]]]. destruct B as [_ [_ [_ [_ [[[B1 B2] [B3 B4]] _]]]]].
  assert (N2': (imax + 1 <= p_x2 p)%Z) by lia. assert (N5': (jmax + 1 <= p_y2 p)%Z) by lia.
  assert (N3': (p_x2 p <= p_x1 p + b)%Z) by lia. assert (N6': (p_y2 p <= p_y1 p + b)%Z) by lia.
  apply inj_le in N1, N2', N3', N4, N5', N6'.
  rewrite !inject_Z_plus in *. change (inject_Z 1) with 1 in *.
  absz. split; apply Qabs_case; intros; lra.
Qed.
