(* C09: sources with non-positive weight never influence a fit; harmonic weight combination; weights are
   carried through concatenation of member catalogs *)
From Coq Require Import QArith Qabs List Bool Arith Lia Lqa Psatz.
From TW Require Import GJModel LSQ Rscale Rscale2 Shift Weights LinearFit.
Import ListNotations.
Open Scope Q_scope.

Definition nz (p : pr) : bool := negb (Qeq_bool (pw p) 0).

(* every objective ignores zero-weight pairs, whatever their coordinates *)
Theorem ssr_general_ignores_zero_weight l (t : pr -> Q) c :
  ssr l t c == ssr (filter nz l) t c.
Proof. unfold ssr. apply (sumQ_zero_weight (fun p => sq (t p - (qnth c 0 * pu p + qnth c 1 * pv p + qnth c 2)))). Qed.

Theorem ssr_sim_ignores_zero_weight l t : ssr_sim l t == ssr_sim (filter nz l) t.
Proof. unfold ssr_sim.
  apply (sumQ_zero_weight (fun p => sq (px p - (sa t * pu p + sb_ t * pv p + s1 t))
                                   + sq (py p - (f10 t * pu p + f11 t * pv p + s2 t)))). Qed.

Theorem ssr_shift_ignores_zero_weight l s : ssr_shift s l == ssr_shift s (filter nz l).
Proof. unfold ssr_shift.
  apply (sumQ_zero_weight (fun p => sq (px p - pu p - fst s) + sq (py p - pv p - snd s))). Qed.

(* consequently the optimum of the data WITHOUT the zero-weight pairs is an optimum of the full data *)
Theorem general_fit_unaffected l p q :
  fit_general (filter nz l) = FitOk p q -> (forall z, In z l -> 0 <= pw z) ->
  forall c', ssr l px p <= ssr l px c' /\ ssr l py q <= ssr l py c'.
Proof.
  intros Hf Hw c'.
  assert (Hw': forall z, In z (filter nz l) -> 0 <= pw z).
  { intros z Hz. apply filter_In in Hz. apply Hw. tauto. }
  destruct (fit_general_optimal (filter nz l) p q Hf Hw' c') as [A B].
  rewrite (ssr_general_ignores_zero_weight l px p), (ssr_general_ignores_zero_weight l px c'),
          (ssr_general_ignores_zero_weight l py q), (ssr_general_ignores_zero_weight l py c').
  split; assumption.
Qed.

(* closed-form fits: parameters are literally functions of the moment sums, which do not see the pair *)
Theorem shift_fit_unaffected l :
  fst (fit_shift l) == fst (fit_shift (filter nz l)) /\ snd (fit_shift l) == snd (fit_shift (filter nz l)).
Proof.
  unfold fit_shift; cbn [fst snd].
  assert (W: sumQ pw l == sumQ pw (filter nz l)).
  { rewrite (sumQ_ext pw (fun p => pw p * 1)) by (intros; ring).
    rewrite (sumQ_zero_weight (fun _ => 1)). apply sumQ_ext. intros; ring. }
  rewrite (sumQ_zero_weight (fun p => px p - pu p)), (sumQ_zero_weight (fun p => py p - pv p)), W.
  split; reflexivity.
Qed.

(* weight combination of the model (LinearFit.comb1) *)
Theorem comb1_harmonic a b : 0 < a -> 0 < b -> / comb1 a b == / a + / b.
Proof.
  intros Ha Hb. unfold comb1.
  destruct (Qlt_le_dec 0 a) as [_|H]; [|lra]. destruct (Qlt_le_dec 0 b) as [_|H]; [|lra].
  rewrite Qred_correct. field. repeat split; lra.
Qed.
Theorem comb1_nonpositive a b : a <= 0 \/ b <= 0 -> comb1 a b = 0.
Proof.
  intros H. unfold comb1.
  destruct (Qlt_le_dec 0 a) as [Ha|Ha]; [|reflexivity].
  destruct (Qlt_le_dec 0 b) as [Hb|Hb]; [|reflexivity]. exfalso. destruct H; lra.
Qed.
Theorem comb1_positive a b : 0 < a -> 0 < b -> 0 < comb1 a b.
Proof.
  intros Ha Hb. unfold comb1.
  destruct (Qlt_le_dec 0 a) as [_|H]; [|lra]. destruct (Qlt_le_dec 0 b) as [_|H]; [|lra].
  rewrite Qred_correct. apply Qlt_shift_div_l; [lra|]. nra.
Qed.

(* iter_linear_fit: pairs that are not positively weighted in BOTH catalogs are masked out before the
   fitter sees them: their coordinates cannot matter (Leibniz equality of the whole result) *)
Lemma filt_ext {A} (m : list bool) : forall (p p' : list A),
  length p = length p' ->
  (forall i d, nth i m false = true -> nth i p d = nth i p' d) -> filt m p = filt m p'.
Proof.
  induction m as [|b m IH]; intros p p' Hl H.
  - destruct p, p'; reflexivity.
  - destruct p as [|x p], p' as [|y p']; simpl in Hl; try discriminate.
    + destruct b; reflexivity.
    + injection Hl as Hl.
      assert (T: filt m p = filt m p').
      { apply IH; [exact Hl|]. intros i d Hi. apply (H (S i) d Hi). }
      destruct b; cbn [filt].
      * pose proof (H 0%nat x eq_refl) as E. cbn [nth] in E. rewrite E, T. reflexivity.
      * exact T.
Qed.

Theorem iter_fit_ignores_masked g p p' wxy wuv :
  length p = length p' ->
  (forall i d, nth i (wmask (length p) wxy wuv) false = true -> nth i p d = nth i p' d) ->
  fit_iter0 g p wxy wuv = fit_iter0 g p' wxy wuv.
Proof.
  intros Hl H. unfold fit_iter0. rewrite <- Hl.
  rewrite (filt_ext (wmask (length p) wxy wuv) p p' Hl H). reflexivity.
Qed.

(* a non-positive weight in either catalog clears the mask bit (the source is reported unused) *)
Lemma nth_andl a b i : nth i (andl a b) false = nth i a false && nth i b false.
Proof.
  revert b i. induction a as [|x a IH]; intros [|y b] [|i]; simpl; auto.
  - destruct x; reflexivity.
  - rewrite andb_false_r; reflexivity.
Qed.
Lemma nth_maskw_some n : forall ws i, nth i (maskw n (Some ws)) false = true -> 0 < nth i ws 0.
Proof.
  induction n as [|n IH]; intros ws i H; simpl in H; [destruct i; discriminate|].
  destruct ws as [|x r].
  - destruct i; simpl in H; [discriminate|]. apply IH in H. destruct i; simpl in *; exact H.
  - destruct i; simpl in *.
    + unfold posb in H. destruct (Qlt_le_dec 0 x); [assumption|discriminate].
    + apply IH; exact H.
Qed.
Theorem fitmask_false_for_nonpositive_weight n wxy wuv i :
  (exists ws, (wxy = Some ws \/ wuv = Some ws) /\ nth i ws 0 <= 0) ->
  nth i (wmask n wxy wuv) false = false.
Proof.
  intros [ws [[E|E] Hw]]; subst; unfold wmask; rewrite nth_andl.
  - destruct (nth i (maskw n (Some ws)) false) eqn:M; [|reflexivity].
    apply nth_maskw_some in M. lra.
  - destruct (nth i (maskw n (Some ws)) false) eqn:M; [|apply andb_false_r].
    apply nth_maskw_some in M. lra.
Qed.

(* weights travel with their sources through the concatenation of member catalogs *)
Fixpoint offsets (ls : list (list Q)) (k : nat) : nat :=
  match k, ls with
  | O, _ => O
  | S k', l :: r => (length l + offsets r k')%nat
  | S _, [] => O
  end.
Theorem concat_index (ls : list (list Q)) : forall j i,
  (j < length ls)%nat -> (i < length (nth j ls []))%nat ->
  nth (offsets ls j + i) (concat ls) 0 = nth i (nth j ls []) 0.
Proof.
  induction ls as [|l r IH]; intros j i Hj Hi; [simpl in Hj; lia|].
  destruct j as [|j]; simpl in *.
  - rewrite app_nth1 by exact Hi. reflexivity.
  - rewrite app_nth2 by lia.
    replace (length l + offsets r j + i - length l)%nat with (offsets r j + i)%nat by lia.
    apply IH; lia.
Qed.
Print Assumptions general_fit_unaffected.
Print Assumptions iter_fit_ignores_masked.
Print Assumptions concat_index.
