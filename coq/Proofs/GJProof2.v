From Coq Require Import QArith Qabs List Bool Arith Lia Permutation.
Require Import GJModel GJSum GJProof1.
Import ListNotations.
Open Scope Q_scope.

Section Forward.
Variable n : nat.
Variable a : mat.
Let A (i j : nat) : Q := mnth a i j.

Definition W (b : mat) (sg : list nat) (i l : nat) : Q :=
  vsum (seq 0 n) (fun j => mnth b i j * A (nth j sg O) (nth l sg O)).

Record Inv (k : nat) (s : st) : Prop := {
  i_lens : length (ss s) = n;
  i_lenp : length (sp s) = n;
  i_rngs : forall x, (x < n)%nat -> (nth x (ss s) O < n)%nat;
  i_rngp : forall x, (x < n)%nat -> (nth x (sp s) O < n)%nat;
  i_ps   : forall x, (x < n)%nat -> nth (nth x (ss s) O) (sp s) O = x;
  i_sp   : forall x, (x < n)%nat -> nth (nth x (sp s) O) (ss s) O = x;
  i_perm : Permutation (ss s) (seq 0 n);
  i_row  : forall i l, (i < n)%nat -> (l < n)%nat -> mnth (sm s) i l == W (sb s) (ss s) i l;
  i_tri  : forall i l, (i < n)%nat -> (l < n)%nat -> (l < k)%nat ->
             (i = l -> mnth (sm s) i l == 1) /\ ((l < i)%nat -> mnth (sm s) i l == 0)
}.

(* the closed form used by step_core *)
Definition fop (k : nat) (pv : Q) (m1 x : nat -> nat -> Q) (i j : nat) : Q :=
  if Nat.eqb i k then x k j / pv
  else if Nat.ltb k i then x i j - m1 i k * (x k j / pv)
  else x i j.

Lemma fop_linear k pv m1 (x : nat -> nat -> Q) (g : nat -> Q) i :
  vsum (seq 0 n) (fun j => fop k pv m1 x i j * g j) ==
  fop k pv m1 (fun i' _ => vsum (seq 0 n) (fun j => x i' j * g j)) i O.
Proof.
  unfold fop. destruct (Nat.eqb i k).
  - rewrite (vsum_ext _ _ (fun j => (/ pv) * (x k j * g j))) by (intros; unfold Qdiv; ring).
    rewrite vsum_scal. unfold Qdiv; ring.
  - destruct (Nat.ltb k i).
    + rewrite (vsum_ext _ _ (fun j => x i j * g j - (m1 i k * / pv) * (x k j * g j)))
        by (intros; unfold Qdiv; ring).
      rewrite vsum_sub, vsum_scal. unfold Qdiv; ring.
    + reflexivity.
Qed.

Lemma step_inv k im jm s :
  (k < n)%nat -> (k <= im < n)%nat -> (k <= jm < n)%nat ->
  ~ mnth (sm s) im jm == 0 ->
  Inv k s -> Inv (S k) (step_core n k im jm s).
Proof.
  intros Hk Him Hjm Hpv I.
  destruct I as [Ls Lp Rs Rp PS SP Pm Row Tri].
  set (tr := transp k im). set (tc := transp k jm).
  assert (Htr: forall i, (i < n)%nat -> (tr i < n)%nat) by (intros; apply transp_lt; lia).
  assert (Htc: forall i, (i < n)%nat -> (tc i < n)%nat) by (intros; apply transp_lt; lia).
  set (m1 := fun i j => mnth (sm s) (tr i) (tc j)).
  set (b1 := fun i j => mnth (sb s) (tr i) (tc j)).
  assert (Epv: m1 k k = mnth (sm s) im jm) by (unfold m1, tr, tc; rewrite !transp_l; reflexivity).
  set (pv := m1 k k) in *.
  assert (Hpv': ~ pv == 0) by (rewrite Epv; exact Hpv).
  (* new sigma *)
  set (sg' := map (fun x => nth (tc x) (ss s) O) (seq 0 n)).
  assert (Esg: forall x, (x < n)%nat -> nth x sg' O = nth (tc x) (ss s) O)
    by (intros; unfold sg'; rewrite nth_map_seq by assumption; reflexivity).
  (* entries of the new matrices *)
  assert (Em: forall i j, (i < n)%nat -> (j < n)%nat ->
            mnth (sm (step_core n k im jm s)) i j == fop k pv m1 m1 i j).
  { intros. unfold step_core; cbn [sm]. rewrite mnth_tabm by assumption. rewrite Qred_correct.
    reflexivity. }
  assert (Eb: forall i j, (i < n)%nat -> (j < n)%nat ->
            mnth (sb (step_core n k im jm s)) i j == fop k pv m1 b1 i j).
  { intros. unfold step_core; cbn [sb]. rewrite mnth_tabm by assumption. rewrite Qred_correct.
    reflexivity. }
  (* key reindexing lemma *)
  assert (K: forall i l, (i < n)%nat -> (l < n)%nat ->
     vsum (seq 0 n) (fun j => b1 i j * A (nth j sg' O) (nth l sg' O)) == m1 i l).
  { intros i l Hi Hl. unfold b1, m1.
    set (F := fun j' => mnth (sb s) (tr i) j' * A (nth j' (ss s) O) (nth (tc l) (ss s) O)).
    transitivity (vsum (seq 0 n) (fun j => F (transp k jm j))).
    { apply vsum_ext. intros j Hj. apply in_seq in Hj. unfold F. fold tc.
      rewrite (Esg j) by lia. rewrite (Esg l) by lia. reflexivity. }
    rewrite (vsum_reindex_transp n k jm F) by lia.
    symmetry. apply Row; [apply Htr; lia| apply Htc; lia]. }
  constructor.
  - unfold step_core; cbn [ss]. rewrite map_length, seq_length. reflexivity.
  - unfold step_core; cbn [sp]. rewrite map_length. exact Lp.
  - intros x Hx. unfold step_core; cbn [ss]. fold sg'. rewrite Esg by exact Hx. apply Rs. apply Htc; exact Hx.
  - intros x Hx. unfold step_core; cbn [sp].
    rewrite (nth_indep _ O (transp k jm O)) by (rewrite map_length, Lp; lia).
    rewrite map_nth. apply transp_lt; try lia. apply Rp; exact Hx.
  - intros x Hx. unfold step_core; cbn [ss sp]. fold sg'. rewrite Esg by exact Hx.
    rewrite (nth_indep _ O (transp k jm O)) by (rewrite map_length, Lp; apply Rs; apply Htc; exact Hx).
    rewrite map_nth. rewrite PS by (apply Htc; exact Hx). apply transp_invol.
  - intros x Hx. unfold step_core; cbn [ss sp]. fold sg'.
    rewrite (nth_indep (map (transp k jm) (sp s)) O (transp k jm O)) by (rewrite map_length, Lp; lia).
    rewrite map_nth. fold tc.
    rewrite Esg by (apply Htc; apply Rp; exact Hx). unfold tc. rewrite transp_invol. apply SP; exact Hx.
  - unfold step_core; cbn [ss]. fold sg'. unfold sg'.
    rewrite <- (map_map tc (fun y => nth y (ss s) O)).
    apply Permutation_trans with (map (fun y => nth y (ss s) O) (seq 0 n)).
    + apply Permutation_map. apply transp_perm; lia.
    + rewrite map_nth_seq by exact Ls. exact Pm.
  - (* row invariant *)
    intros i l Hi Hl. rewrite Em by assumption.
    unfold W. unfold step_core at 2; cbn [ss]. fold sg'.
    rewrite (vsum_ext _ _ (fun j => fop k pv m1 b1 i j * A (nth j sg' O) (nth l sg' O))).
    2:{ intros j Hj. apply in_seq in Hj. rewrite Eb by lia. reflexivity. }
    rewrite fop_linear. unfold fop.
    destruct (Nat.eqb i k).
    + rewrite K by lia. reflexivity.
    + destruct (Nat.ltb k i).
      * rewrite !K by lia. reflexivity.
      * rewrite K by lia. reflexivity.
  - (* triangular structure *)
    intros i l Hi Hl Hlk. rewrite Em by assumption. unfold fop.
    assert (Hm1_low: forall i' l', (i' < n)%nat -> (l' < k)%nat -> m1 i' l' = mnth (sm s) (tr i') l').
    { intros i' l' _ Hl'. unfold m1, tc. rewrite transp_fix by lia. reflexivity. }
    assert (Hz: forall i' l', (i' < n)%nat -> (l' < k)%nat -> (k <= i')%nat -> m1 i' l' == 0).
    { intros i' l' Hi' Hl' Hki. rewrite Hm1_low by lia.
      assert (k <= tr i')%nat.
      { unfold tr, transp. destruct (Nat.eqb_spec i' k); [lia|]. destruct (Nat.eqb_spec i' im); lia. }
      apply (Tri (tr i') l'); try lia. apply Htr; lia. }
    destruct (Nat.eq_dec l k) as [->|Hne].
    + (* column k *)
      split.
      * intros ->. rewrite Nat.eqb_refl. unfold pv. field. exact Hpv'.
      * intros Hlt. destruct (Nat.eqb_spec i k); [lia|].
        destruct (Nat.ltb_spec k i); [|lia]. unfold pv. field. exact Hpv'.
    + assert (Hl': (l < k)%nat) by lia.
      split.
      * intros ->. destruct (Nat.eqb_spec l k); [lia|]. destruct (Nat.ltb_spec k l); [lia|].
        rewrite Hm1_low by lia. unfold tr. rewrite transp_fix by lia. apply (Tri l l); try lia.
      * intros Hlt. destruct (Nat.eqb_spec i k).
        { subst i. rewrite (Hz k l) by lia. unfold Qdiv; ring. }
        destruct (Nat.ltb_spec k i).
        { rewrite (Hz i l) by lia. rewrite (Hz k l) by lia. unfold Qdiv; ring. }
        { rewrite Hm1_low by lia. unfold tr. rewrite transp_fix by lia. apply (Tri i l); lia. }
Qed.

End Forward.
