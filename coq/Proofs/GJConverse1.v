(* converse of the completeness theorem, part 1: the pivot search returns a maximum; a failing forward step
   is reached in a state that satisfies the invariants *)
From Coq Require Import QArith Qabs List Bool Arith Lia Lqa Permutation.
Require Import GJModel GJSum GJProof1 GJProof2 GJProof3 GJProof4 GJProof5.
Import ListNotations.
Open Scope Q_scope.

Lemma argmax_is_max n k m : (k < n)%nat ->
  let '(im, jm) := argmax_abs n k m in
  forall i j, (k <= i < n)%nat -> (k <= j < n)%nat -> Qabs (mnth m i j) <= Qabs (mnth m im jm).
Proof.
  intros Hk. unfold argmax_abs.
  set (step := fun (best : nat * nat * Q) (ij : nat * nat) =>
        let v := Qabs (mnth m (fst ij) (snd ij)) in
        if Qlt_le_dec (snd best) v then (ij, v) else best).
  assert (G: forall l init, snd init == Qabs (mnth m (fst (fst init)) (snd (fst init))) ->
     let r := fold_left step l init in
     snd r == Qabs (mnth m (fst (fst r)) (snd (fst r))) /\ snd init <= snd r /\
     forall ij, In ij l -> Qabs (mnth m (fst ij) (snd ij)) <= snd r).
  { induction l as [|x l IH]; intros init Hi; simpl.
    - split; [exact Hi|]. split; [lra|]. intros ij [].
    - set (init' := step init x).
      assert (Hi': snd init' == Qabs (mnth m (fst (fst init')) (snd (fst init')))).
      { unfold init', step. destruct (Qlt_le_dec (snd init) (Qabs (mnth m (fst x) (snd x)))); simpl; [reflexivity| exact Hi]. }
      assert (Hm: snd init <= snd init' /\ Qabs (mnth m (fst x) (snd x)) <= snd init').
      { unfold init', step. destruct (Qlt_le_dec (snd init) (Qabs (mnth m (fst x) (snd x)))); simpl; split; lra. }
      destruct (IH init' Hi') as [A [B C]].
      split; [exact A|]. split; [lra|].
      intros ij [<-|Hin]; [lra| apply C; exact Hin]. }
  specialize (G (list_prod (seq k (n - k)) (seq k (n - k))) ((k, k), Qabs (mnth m k k)) ltac:(simpl; reflexivity)).
  cbv zeta in G. fold step.
  destruct (fold_left step _ _) as [[im jm] bv] eqn:E. cbn [fst snd] in *.
  destruct G as [A [B C]].
  intros i j Hi Hj.
  assert (Hin: In (i, j) (list_prod (seq k (n - k)) (seq k (n - k)))).
  { apply in_prod_iff. split; apply in_seq; lia. }
  specialize (C (i, j) Hin). cbn [fst snd] in C. lra.
Qed.

Lemma Qabs_le_zero x y : Qabs x <= Qabs y -> y == 0 -> x == 0.
Proof.
  intros H Hy. rewrite Hy in H. change (Qabs 0) with 0 in H.
  assert (H0: Qabs x == 0) by (pose proof (Qabs_nonneg x); lra).
  destruct (Qlt_le_dec x 0) as [L|L].
  - rewrite (Qabs_neg x) in H0 by lra. lra.
  - rewrite (Qabs_pos x) in H0 by lra. exact H0.
Qed.

Section Fail.
Variable n : nat.
Variable a : mat.

(* a forward phase that fails does so at some step k' < n from a state satisfying both invariants *)
Lemma fwd_fail ks : forall k s, ks = seq k (n - k) -> (k <= n)%nat ->
  Inv n a k s -> HasLInv n (mnth (sb s)) -> fwd n ks s = None ->
  exists k' s', (k' < n)%nat /\ Inv n a k' s' /\ HasLInv n (mnth (sb s')) /\ fwd_step n k' s' = None.
Proof.
  induction ks as [|k0 ks IH]; intros k s Hks Hk I HL Hf.
  - simpl in Hf. discriminate.
  - destruct (n - k)%nat as [|d] eqn:E; [simpl in Hks; discriminate|].
    simpl in Hks. inversion Hks; subst k0. simpl in Hf.
    destruct (fwd_step n k s) as [s1|] eqn:Es.
    + unfold fwd_step in Es.
      pose proof (argmax_range n k (sm s) ltac:(lia)) as Hr.
      destruct (argmax_abs n k (sm s)) as [im jm].
      destruct (Qeq_bool (mnth (sm s) im jm) 0) eqn:Ez; [discriminate|].
      inversion Es; subst s1.
      assert (Hnz: ~ mnth (sm s) im jm == 0) by (intro Hz; apply Qeq_bool_iff in Hz; congruence).
      apply (IH (S k) (step_core n k im jm s)).
      * replace (n - S k)%nat with d by lia. assumption.
      * lia.
      * apply step_inv; try lia; try tauto.
      * apply step_linv; try lia; try tauto.
      * exact Hf.
    + exists k, s. split; [lia|]. split; [exact I|]. split; [exact HL| exact Es].
Qed.
End Fail.
