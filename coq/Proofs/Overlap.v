(* C15: overlap-driven ordering of imalign._max_overlap_pair / _max_overlap_image (after repair F4) *)
From Coq Require Import QArith List Bool Arith Lia Lqa Permutation Sorting.Sorted.
Import ListNotations.
Open Scope Q_scope.

Definition qnth (r : list Q) (j : nat) : Q := nth j r 0.
Definition mnth (m : list (list Q)) (i j : nat) : Q := qnth (nth i m []) j.

(* first maximum of a non-empty list of (key, value) pairs, np.argmax semantics *)
Fixpoint argmax_aux {K} (best : K) (bv : Q) (l : list (K * Q)) : K * Q :=
  match l with
  | [] => (best, bv)
  | (k, v) :: l' => if Qlt_le_dec bv v then argmax_aux k v l' else argmax_aux best bv l'
  end.
Lemma argmax_aux_max {K} (l : list (K * Q)) : forall best bv,
  let r := argmax_aux best bv l in
  bv <= snd r /\ (forall k v, In (k, v) l -> v <= snd r) /\ (r = (best, bv) \/ In r l).
Proof.
  induction l as [|[k v] l IH]; intros best bv; simpl.
  - split; [apply Qle_refl|]. split; [intros ? ? []| left; reflexivity].
  - destruct (Qlt_le_dec bv v) as [H|H].
    + destruct (IH k v) as (H1 & H2 & H3). split; [lra|]. split.
      * intros k' v' [E|Hin]; [inversion E; subst; exact H1| apply (H2 k' v' Hin)].
      * right. destruct H3 as [->|H3]; [left; reflexivity| right; exact H3].
    + destruct (IH best bv) as (H1 & H2 & H3). split; [exact H1|]. split.
      * intros k' v' [E|Hin]; [inversion E; subst; lra| apply (H2 k' v' Hin)].
      * destruct H3 as [->|H3]; [left; reflexivity| right; right; exact H3].
Qed.

Section Pair.
Variable n : nat.
Variable m : list (list Q).

Definition cells : list ((nat * nat) * Q) :=
  map (fun ij => (ij, mnth m (fst ij) (snd ij))) (list_prod (seq 0 n) (seq 0 n)).
Definition argmax2 : nat * nat := fst (argmax_aux (0%nat, 0%nat) (mnth m 0 0) cells).
Definition rowsum (i : nat) : Q := fold_right (fun j acc => mnth m i j + acc) 0 (seq 0 n).

(* descending insertion sort of indices by overlap with the reference *)
Fixpoint insert_desc (key : nat -> Q) (x : nat) (l : list nat) : list nat :=
  match l with
  | [] => [x]
  | y :: l' => if Qlt_le_dec (key y) (key x) then x :: l else y :: insert_desc key x l'
  end.
Definition sort_desc (key : nat -> Q) (l : list nat) : list nat := fold_right (insert_desc key) [] l.

Record pick := { p_ref : nat; p_sec : nat; p_area : Q; p_rest : list nat }.

Definition max_overlap_pair : pick :=
  let '(i0, j0) := argmax2 in
  let '(i, j) := if Qlt_le_dec (rowsum i0) (rowsum j0) then (j0, i0) else (i0, j0) in
  {| p_ref := i; p_sec := j; p_area := mnth m i j;
     p_rest := sort_desc (fun k => mnth m i k)
                 (filter (fun k => negb (Nat.eqb k i) && negb (Nat.eqb k j)) (seq 0 n)) |}.

(* legacy area (before F4): read after the index adjustment j := j-1 when i < j *)
Definition legacy_area : Q :=
  let p := max_overlap_pair in
  let j' := if Nat.ltb (p_ref p) (p_sec p) then (p_sec p - 1)%nat else p_sec p in
  mnth m (p_ref p) j'.

Lemma argmax2_spec : (0 < n)%nat ->
  let '(i, j) := argmax2 in (i < n)%nat /\ (j < n)%nat /\
  forall a b, (a < n)%nat -> (b < n)%nat -> mnth m a b <= mnth m i j.
Proof.
  intros Hn. unfold argmax2.
  destruct (argmax_aux_max cells (0%nat, 0%nat) (mnth m 0 0)) as (H1 & H2 & H3).
  destruct (argmax_aux (0%nat, 0%nat) (mnth m 0 0) cells) as [[i j] v] eqn:E. simpl in *.
  assert (Hv: v == mnth m i j /\ (i < n)%nat /\ (j < n)%nat).
  { destruct H3 as [H3|H3].
    - inversion H3; subst. split; [reflexivity| lia].
    - unfold cells in H3. apply in_map_iff in H3. destruct H3 as [[a b] [E' Hin]]. inversion E'; subst.
      apply in_prod_iff in Hin. destruct Hin as [Ha Hb]. apply in_seq in Ha. apply in_seq in Hb.
      split; [reflexivity| simpl; lia]. }
  destruct Hv as (Hv & Hi & Hj). split; [exact Hi|]. split; [exact Hj|].
  intros a b Ha Hb. rewrite <- Hv. apply (H2 (a, b)).
  unfold cells. apply in_map_iff. exists (a, b). split; [reflexivity|].
  apply in_prod_iff. split; apply in_seq; lia.
Qed.

Lemma insert_perm key x l : Permutation (insert_desc key x l) (x :: l).
Proof. induction l as [|y l IH]; simpl; [apply Permutation_refl|].
  destruct (Qlt_le_dec _ _); [apply Permutation_refl|].
  apply Permutation_trans with (y :: x :: l); [apply perm_skip; exact IH| apply perm_swap]. Qed.
Lemma sort_perm key l : Permutation (sort_desc key l) l.
Proof. induction l as [|x l IH]; simpl; [apply Permutation_refl|].
  apply Permutation_trans with (x :: sort_desc key l); [apply insert_perm| apply perm_skip; exact IH]. Qed.
Definition desc_by (key : nat -> Q) (a b : nat) : Prop := key b <= key a.
Lemma insert_sorted key x l : Sorted (desc_by key) l -> Sorted (desc_by key) (insert_desc key x l).
Proof.
  induction 1 as [|y l Hs IH Hh]; simpl; [repeat constructor|].
  destruct (Qlt_le_dec (key y) (key x)) as [H|H].
  - constructor; [constructor; assumption|]. constructor. unfold desc_by. lra.
  - constructor; [exact IH|].
    destruct l as [|z l']; simpl.
    + constructor. exact H.
    + destruct (Qlt_le_dec (key z) (key x)); constructor; [exact H| inversion Hh; assumption].
Qed.
Lemma sort_sorted key l : Sorted (desc_by key) (sort_desc key l).
Proof. induction l as [|x l IH]; simpl; [constructor| apply insert_sorted; exact IH]. Qed.

Theorem pair_spec : (0 < n)%nat ->
  let p := max_overlap_pair in
  (p_ref p < n)%nat /\ (p_sec p < n)%nat /\
  (* symmetric matrices: the returned pair attains the maximum overlap *)
  ((forall a b, (a < n)%nat -> (b < n)%nat -> mnth m a b == mnth m b a) ->
     forall a b, (a < n)%nat -> (b < n)%nat -> mnth m a b <= mnth m (p_ref p) (p_sec p)) /\
  (* the reference has the larger total overlap *)
  rowsum (p_sec p) <= rowsum (p_ref p) /\
  (* the reported area is the area of exactly that pair *)
  p_area p == mnth m (p_ref p) (p_sec p) /\
  (* the remainder is sorted by non-increasing overlap with the reference ... *)
  Sorted (desc_by (fun k => mnth m (p_ref p) k)) (p_rest p) /\
  (* ... and consists of exactly the other indices *)
  (forall k, In k (p_rest p) <-> (k < n)%nat /\ k <> p_ref p /\ k <> p_sec p).
Proof.
  intros Hn. pose proof (argmax2_spec Hn) as HA. unfold max_overlap_pair.
  destruct argmax2 as [i0 j0]. destruct HA as (Hi & Hj & Hmax).
  destruct (Qlt_le_dec (rowsum i0) (rowsum j0)) as [Hs|Hs]; cbn [p_ref p_sec p_area p_rest].
  - split; [exact Hj|]. split; [exact Hi|]. split.
    { intros Sym a b Ha Hb. rewrite (Sym j0 i0 Hj Hi). apply Hmax; assumption. }
    split; [lra|]. split; [reflexivity|]. split; [apply sort_sorted|].
    intros k. rewrite (Permutation_in_iff k (sort_perm _ _)) || idtac.
    split.
    + intros Hk. apply (Permutation_in _ (sort_perm _ _)) in Hk. apply filter_In in Hk. destruct Hk as [Hk Hb].
      apply in_seq in Hk. apply andb_true_iff in Hb. destruct Hb as [B1 B2].
      apply negb_true_iff in B1, B2. apply Nat.eqb_neq in B1, B2. lia.
    + intros (Hk & N1 & N2). apply (Permutation_in _ (Permutation_sym (sort_perm _ _))).
      apply filter_In. split; [apply in_seq; lia|].
      apply andb_true_iff. split; apply negb_true_iff, Nat.eqb_neq; assumption.
  - split; [exact Hi|]. split; [exact Hj|]. split.
    { intros Sym a b Ha Hb. apply Hmax; assumption. }
    split; [exact Hs|]. split; [reflexivity|]. split; [apply sort_sorted|].
    intros k. split.
    + intros Hk. apply (Permutation_in _ (sort_perm _ _)) in Hk. apply filter_In in Hk. destruct Hk as [Hk Hb].
      apply in_seq in Hk. apply andb_true_iff in Hb. destruct Hb as [B1 B2].
      apply negb_true_iff in B1, B2. apply Nat.eqb_neq in B1, B2. lia.
    + intros (Hk & N1 & N2). apply (Permutation_in _ (Permutation_sym (sort_perm _ _))).
      apply filter_In. split; [apply in_seq; lia|].
      apply andb_true_iff. split; apply negb_true_iff, Nat.eqb_neq; assumption.
Qed.
End Pair.
Print Assumptions pair_spec.

(* the legacy area is wrong on the 4-rectangle example of DESIGN section 5 (order A, B, C, D) *)
Example C15_refuted_before_fix :
  let m := [[0; 50; 10; 0]; [50; 0; 60; 0]; [10; 60; 0; 0]; [0; 0; 0; 0]] in
  let p := max_overlap_pair 4 m in
  (p_ref p, p_sec p) = (1%nat, 2%nat) /\ p_area p == 60 /\ ~ legacy_area 4 m == mnth m (p_ref p) (p_sec p).
Proof. vm_compute. split; [reflexivity|]. split; [reflexivity|]. intro H; discriminate H. Qed.
