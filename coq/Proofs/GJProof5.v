From Coq Require Import QArith Qabs List Bool Arith Lia Permutation.
Require Import GJModel GJSum GJProof1 GJProof2 GJProof3 GJProof4.
Import ListNotations.
Open Scope Q_scope.

Section Right2.
Variable n : nat.

Lemma step_linv k im jm s :
  (k < n)%nat -> (k <= im < n)%nat -> (k <= jm < n)%nat -> ~ mnth (sm s) im jm == 0 ->
  HasLInv n (mnth (sb s)) -> HasLInv n (mnth (sb (step_core n k im jm s))).
Proof.
  intros Hk Him Hjm Hpv HL.
  set (m1 := fun i j => mnth (sm s) (transp k im i) (transp k jm j)).
  set (b1 := fun i j => mnth (sb s) (transp k im i) (transp k jm j)).
  assert (Epv: m1 k k = mnth (sm s) im jm) by (unfold m1; rewrite !transp_l; reflexivity).
  apply (linv_mul n b1 _ (Eg k (m1 k k) (fun i => m1 i k)) (Fg k (m1 k k) (fun i => m1 i k))).
  - intros i j Hi Hj. unfold step_core; cbn [sb]. rewrite mnth_tabm by assumption. rewrite Qred_correct.
    rewrite Eg_apply by assumption. reflexivity.
  - apply FgEg; [exact Hk| rewrite Epv; exact Hpv].
  - unfold b1. apply linv_conj; try lia. exact HL.
Qed.

Lemma fwd_linv ks : forall k s s', ks = seq k (n - k) -> (k <= n)%nat ->
  HasLInv n (mnth (sb s)) -> fwd n ks s = Some s' -> HasLInv n (mnth (sb s')).
Proof.
  induction ks as [|k0 ks IH]; intros k s s' Hks Hk HL Hf.
  - simpl in Hf. inversion Hf; subst; exact HL.
  - destruct (n - k)%nat as [|d] eqn:E; [simpl in Hks; discriminate|].
    simpl in Hks. inversion Hks; subst k0. simpl in Hf. unfold fwd_step in Hf.
    pose proof (argmax_range n k (sm s) ltac:(lia)) as Hr.
    destruct (argmax_abs n k (sm s)) as [im jm].
    destruct (Qeq_bool (mnth (sm s) im jm) 0) eqn:Ez; [discriminate|].
    apply (IH (S k) (step_core n k im jm s) s').
    + replace (n - S k)%nat with d by lia. assumption.
    + lia.
    + apply step_linv; try lia; try tauto. intro Hz. apply Qeq_bool_iff in Hz. congruence.
    + exact Hf.
Qed.

Definition Eb (u : mat) (t : nat) (i r : nat) : Q :=
  delta i r - (if Nat.ltb i t then mnth u i t * delta t r else 0).
Definition Fb (u : mat) (t : nat) (i r : nat) : Q :=
  delta i r + (if Nat.ltb i t then mnth u i t * delta t r else 0).

Lemma back_step_linv u b t : (t < n)%nat ->
  HasLInv n (mnth b) -> HasLInv n (mnth (back_step n u b t)).
Proof.
  intros Ht HL.
  apply (linv_mul n (mnth b) _ (Eb u t) (Fb u t)); [| | exact HL].
  - intros i j Hi Hj. unfold back_step. rewrite mnth_tabm by assumption.
    unfold MM, Eb.
    rewrite (vsum_ext _ _ (fun r => mnth b r j * delta r i
                 - (if Nat.ltb i t then mnth u i t else 0) * (mnth b r j * delta r t))).
    2:{ intros r _. rewrite (delta_sym i r), (delta_sym t r). destruct (Nat.ltb i t); ring. }
    rewrite vsum_sub, vsum_scal.
    rewrite (vsum_delta n (fun r => mnth b r j) i Hi), (vsum_delta n (fun r => mnth b r j) t Ht).
    destruct (Nat.ltb i t); [rewrite Qred_correct|]; ring.
  - intros i l Hi Hl. unfold MM, Fb.
    rewrite (vsum_ext _ _ (fun r => Eb u t r l * delta r i
                 + (if Nat.ltb i t then mnth u i t else 0) * (Eb u t r l * delta r t))).
    2:{ intros r _. rewrite (delta_sym i r), (delta_sym t r). destruct (Nat.ltb i t); ring. }
    rewrite vsum_add, vsum_scal.
    rewrite (vsum_delta n (fun r => Eb u t r l) i Hi), (vsum_delta n (fun r => Eb u t r l) t Ht).
    unfold Eb. rewrite Nat.ltb_irrefl.
    destruct (Nat.ltb i t); ring.
Qed.

Lemma back_linv u cs : forall b, (forall t, In t cs -> (t < n)%nat) ->
  HasLInv n (mnth b) -> HasLInv n (mnth (fold_left (back_step n u) cs b)).
Proof.
  induction cs as [|c cs IH]; intros b Hcs HL; simpl; [exact HL|].
  apply IH; [intros; apply Hcs; right; assumption|].
  apply back_step_linv; [apply Hcs; left; reflexivity| exact HL].
Qed.

Variable a : mat.

Theorem inv_gj_right_inverse x :
  square n a -> inv_gj a = Ok x ->
  forall i l, (i < n)%nat -> (l < n)%nat ->
    vsum (seq 0 n) (fun j => mnth a i j * mnth x j l) == delta i l.
Proof.
  intros [Hlen Hrows] Hinv i l Hi Hl.
  unfold inv_gj in Hinv. rewrite Hlen in Hinv.
  destruct (negb _); [discriminate|].
  destruct (fwd n (seq 0 n) _) as [s|] eqn:Hf; [|discriminate].
  inversion Hinv; subst x; clear Hinv.
  set (s0 := {| sm := a; sb := ident n; sp := seq 0 n; ss := seq 0 n |}) in *.
  assert (I: Inv n a n s).
  { apply (fwd_inv n a (seq 0 n) 0%nat s0 s); [rewrite Nat.sub_0_r; reflexivity| lia| apply inv_init| exact Hf]. }
  assert (L0: HasLInv n (mnth (sb s0))).
  { exists delta. intros i' l' Hi' Hl'. rewrite MM_delta_l by assumption. unfold s0; cbn [sb].
    rewrite mnth_ident by assumption. reflexivity. }
  assert (L1: HasLInv n (mnth (sb s))).
  { apply (fwd_linv (seq 0 n) 0%nat s0 s); [rewrite Nat.sub_0_r; reflexivity| lia| exact L0| exact Hf]. }
  destruct I as [Ls Lp Rs Rp PS SP Pm Row Tri].
  assert (HU: UTri n (sm s)) by (intros i' l' Hi' Hl'; apply Tri; lia).
  set (b' := back n (sm s) (sb s)).
  assert (L2: HasLInv n (mnth b')).
  { unfold b', back. apply back_linv; [|exact L1].
    intros t Ht. apply in_rev in Ht. apply in_seq in Ht. lia. }
  (* B' * A'' = I, as in the left-inverse theorem *)
  set (A2 := fun i' l' => mnth a (nth i' (ss s) O) (nth l' (ss s) O)).
  assert (HI: IsI n (MM n (mnth b') A2)).
  { assert (HB1: BackInv n a (ss s) (sm s) 1 b').
    { unfold b', back.
      assert (Hn: S (n - 1) = n) by lia.
      apply (back_inv n a (ss s) (sm s) HU (rev (seq 1 (n - 1))) (n - 1)%nat).
      - reflexivity.
      - lia.
      - rewrite Hn. intros i' l' Hi' Hl'. unfold Wb. rewrite <- Row by lia.
        destruct (Nat.ltb_spec l' n); [reflexivity| lia]. }
    intros i' l' Hi' Hl'. change (Wb n a (ss s) b' i' l' == delta i' l').
    rewrite (HB1 i' l') by assumption.
    destruct (Nat.ltb_spec l' 1); [|reflexivity].
    assert (l' = 0)%nat by lia. subst l'. unfold delta.
    destruct (Nat.eqb_spec i' 0%nat).
    - apply (HU i' 0%nat); lia.
    - apply (HU i' 0%nat); lia. }
  (* C * B' = I and B' * A2 = I  ==>  A2 = C  ==>  A2 * B' = I *)
  destruct L2 as [C HC].
  assert (HA2: forall i' l', (i' < n)%nat -> (l' < n)%nat -> A2 i' l' == C i' l').
  { intros i' l' Hi' Hl'.
    rewrite <- (MM_delta_l n A2 i' l' Hi').
    rewrite (MM_ext n delta (MM n C (mnth b')) A2 A2 i' l');
      [| intros j Hj; symmetry; apply HC; assumption | intros; reflexivity].
    rewrite MM_assoc.
    rewrite (MM_ext n C C (MM n (mnth b') A2) delta i' l');
      [apply MM_delta_r; assumption | intros; reflexivity | intros j Hj; apply HI; assumption]. }
  assert (HR: IsI n (MM n A2 (mnth b'))).
  { intros i' l' Hi' Hl'.
    rewrite (MM_ext n A2 C (mnth b') (mnth b') i' l');
      [apply HC; assumption | intros; apply HA2; assumption | intros; reflexivity]. }
  (* un-conjugate *)
  set (p := fun y => nth y (sp s) O).
  rewrite (vsum_ext _ _ (fun j => mnth a i j * mnth b' (p j) (p l))).
  2:{ intros j Hj. apply in_seq in Hj. rewrite mnth_tabm by lia. reflexivity. }
  rewrite <- (vsum_perm _ _ _ Pm).
  rewrite <- (map_nth_seq (ss s) n Ls) at 1. rewrite vsum_map.
  transitivity (MM n A2 (mnth b') (p i) (p l)).
  - unfold MM, A2. apply vsum_ext. intros j Hj. apply in_seq in Hj.
    unfold p. rewrite (PS j) by lia. rewrite (SP i) by lia. reflexivity.
  - transitivity (delta (p i) (p l)); [apply HR; apply Rp; assumption|].
    unfold delta.
    destruct (Nat.eqb_spec (p i) (p l)) as [E|E]; destruct (Nat.eqb_spec i l) as [E'|E']; try reflexivity.
    + exfalso. apply E'. rewrite <- (SP i Hi), <- (SP l Hl). unfold p in E. rewrite E. reflexivity.
    + exfalso. apply E. subst; reflexivity.
Qed.

End Right2.
Print Assumptions inv_gj_right_inverse.
