(* C15: proofs about Model/OverlapModel.v *)
From Coq Require Import QArith List Bool Arith Lia Lqa Permutation Sorting.Sorted.
From TW Require Import OverlapModel.
Import ListNotations.
Open Scope Q_scope.

(* ================= argmax ================= *)
Lemma argmax_aux_max {K} (l : list (K * Q)) : forall best bv,
  let r := argmax_aux best bv l in
  bv <= snd r /\ (forall k v, In (k, v) l -> v <= snd r) /\ (r = (best, bv) \/ In r l).
Proof.
  induction l as [|[k v] l IH]; intros best bv; simpl.
  - split; [apply Qle_refl|]. split; [intros ? ? []| left; reflexivity].
  - destruct (Qlt_le_dec bv v) as [H|H].
    + destruct (IH k v) as (H1 & H2 & H3). split; [lra|]. split.
      * intros k' v' [E|Hin]; [inversion E; subst; exact H1| apply (H2 k' v' Hin)].
      * right. destruct H3 as [->|H3]; [left; reflexivity| right; exact H3].
    + destruct (IH best bv) as (H1 & H2 & H3). split; [exact H1|]. split.
      * intros k' v' [E|Hin]; [inversion E; subst; lra| apply (H2 k' v' Hin)].
      * destruct H3 as [->|H3]; [left; reflexivity| right; right; exact H3].
Qed.

(* first maximum: nothing strictly larger than the initial value => the initial key is kept *)
Lemma argmax_aux_init {K} (l : list (K * Q)) : forall best bv,
  (forall k v, In (k, v) l -> v <= bv) -> argmax_aux best bv l = (best, bv).
Proof.
  induction l as [|[k v] l IH]; intros best bv H; simpl; [reflexivity|].
  destruct (Qlt_le_dec bv v) as [Hlt|Hle].
  - exfalso. assert (v <= bv) by (apply (H k v); left; reflexivity). lra.
  - apply IH. intros k' v' Hin. apply (H k' v'). right. exact Hin.
Qed.

(* ================= remove_nth ================= *)
Lemma remove_nth_map {A B} (f : A -> B) : forall l k, remove_nth k (map f l) = map f (remove_nth k l).
Proof. induction l as [|a l IH]; intros [|k]; simpl; try reflexivity. rewrite IH. reflexivity. Qed.

Lemma remove_nth_perm {A} (d : A) : forall l k, (k < length l)%nat -> Permutation (nth k l d :: remove_nth k l) l.
Proof.
  induction l as [|a l IH]; intros [|k] H; simpl in *; try lia.
  - apply Permutation_refl.
  - apply Permutation_trans with (a :: nth k l d :: remove_nth k l); [apply perm_swap|].
    apply perm_skip. apply IH. lia.
Qed.

Lemma remove_nth_length {A} : forall (l : list A) k, (k < length l)%nat -> length (remove_nth k l) = (length l - 1)%nat.
Proof.
  induction l as [|a l IH]; intros [|k] H; simpl in *; try lia.
  rewrite IH by lia. lia.
Qed.

Lemma nth_remove_nth {A} (d : A) : forall l i k,
  nth k (remove_nth i l) d = if Nat.ltb k i then nth k l d else nth (S k) l d.
Proof.
  induction l as [|a l IH]; intros i k.
  - destruct i; destruct k; cbn; try reflexivity;
      match goal with |- context[if ?c then _ else _] => destruct c end; reflexivity.
  - destruct i as [|i].
    + simpl. reflexivity.
    + destruct k as [|k]; [reflexivity|].
      cbn [remove_nth nth]. rewrite IH.
      change (Nat.ltb (S k) (S i)) with (Nat.ltb k i). destruct (Nat.ltb k i); reflexivity.
Qed.

Lemma filter_all {A} (f : A -> bool) : forall l, (forall x, In x l -> f x = true) -> filter f l = l.
Proof.
  induction l as [|a l IH]; intros H; simpl; [reflexivity|].
  rewrite (H a (or_introl eq_refl)). f_equal. apply IH. intros x Hx. apply H. right. exact Hx.
Qed.

Lemma remove_nth_seq_filter : forall n a idx, (idx < n)%nat ->
  remove_nth idx (seq a n) = filter (fun k => negb (Nat.eqb k (a + idx))) (seq a n).
Proof.
  induction n as [|n IH]; intros a idx H; [lia|].
  destruct idx as [|idx]; cbn [seq remove_nth filter].
  - rewrite Nat.add_0_r, Nat.eqb_refl. cbn [negb].
    symmetry. apply filter_all. intros k Hk. apply in_seq in Hk.
    apply negb_true_iff, Nat.eqb_neq. lia.
  - assert (E: Nat.eqb a (a + S idx) = false) by (apply Nat.eqb_neq; lia). rewrite E. cbn [negb].
    f_equal. rewrite IH by lia. replace (S a + idx)%nat with (a + S idx)%nat by lia. reflexivity.
Qed.

Lemma combine_map_self {A B} (f : A -> B) : forall l, combine l (map f l) = map (fun k => (k, f k)) l.
Proof. induction l as [|a l IH]; simpl; [reflexivity| rewrite IH; reflexivity]. Qed.

(* ================= sorting ================= *)
Definition asc_pair {A} (a b : A * Q) : Prop := snd a <= snd b.

Lemma insert_asc_perm {A} (x : A * Q) : forall l, Permutation (insert_asc x l) (x :: l).
Proof.
  induction l as [|y l IH]; simpl; [apply Permutation_refl|].
  destruct (Qlt_le_dec (snd y) (snd x)); [|apply Permutation_refl].
  apply Permutation_trans with (y :: x :: l); [apply perm_skip; exact IH| apply perm_swap].
Qed.
Lemma sort_asc_perm {A} : forall l : list (A * Q), Permutation (sort_asc l) l.
Proof.
  induction l as [|x l IH]; simpl; [apply Permutation_refl|].
  apply Permutation_trans with (x :: sort_asc l); [apply insert_asc_perm| apply perm_skip; exact IH].
Qed.
Lemma insert_asc_sorted {A} (x : A * Q) : forall l, Sorted asc_pair l -> Sorted asc_pair (insert_asc x l).
Proof.
  induction 1 as [|y l Hs IH Hh]; simpl; [repeat constructor|].
  destruct (Qlt_le_dec (snd y) (snd x)) as [H|H].
  - constructor; [exact IH|].
    destruct l as [|z l']; simpl.
    + constructor. unfold asc_pair. lra.
    + destruct (Qlt_le_dec (snd z) (snd x)); constructor; [inversion Hh; assumption| unfold asc_pair; lra].
  - constructor; [constructor; assumption|]. constructor. exact H.
Qed.
Lemma sort_asc_sorted {A} : forall l : list (A * Q), Sorted asc_pair (sort_asc l).
Proof. induction l as [|x l IH]; simpl; [constructor| apply insert_asc_sorted; exact IH]. Qed.

Lemma asc_pair_trans {A} : Relations_1.Transitive (@asc_pair A).
Proof. intros a b c H1 H2. unfold asc_pair in *. lra. Qed.

Lemma SS_snoc {A} (R : A -> A -> Prop) : forall l x,
  StronglySorted R l -> Forall (fun y => R y x) l -> StronglySorted R (l ++ [x]).
Proof.
  induction l as [|a l IH]; intros x Hs Hf; simpl.
  - constructor; constructor.
  - inversion Hs; subst. inversion Hf; subst. constructor.
    + apply IH; assumption.
    + apply Forall_app. split; [assumption| constructor; [assumption| constructor]].
Qed.
Lemma SS_rev {A} (R : A -> A -> Prop) : forall l,
  StronglySorted R l -> StronglySorted (fun a b => R b a) (rev l).
Proof.
  induction 1 as [|a l Hs IH Hf]; simpl; [constructor|].
  apply SS_snoc; [exact IH|]. apply Forall_rev. exact Hf.
Qed.
Lemma SS_map_fst {A} (f : A -> Q) : forall l : list (A * Q),
  StronglySorted (fun a b => snd b <= snd a) l -> (forall p, In p l -> snd p = f (fst p)) ->
  StronglySorted (fun a b => f b <= f a) (map fst l).
Proof.
  induction 1 as [|a l Hs IH Hf]; intros Hk; simpl; [constructor|].
  constructor.
  - apply IH. intros p Hp. apply Hk. right. exact Hp.
  - apply Forall_forall. intros y Hy. apply in_map_iff in Hy. destruct Hy as [p [<- Hp]].
    rewrite Forall_forall in Hf. specialize (Hf p Hp). simpl in Hf.
    rewrite <- (Hk p (or_intror Hp)), <- (Hk a (or_introl eq_refl)). exact Hf.
Qed.
Lemma SS_impl_in {A} (R R' : A -> A -> Prop) : forall l,
  (forall a b, In a l -> In b l -> R a b -> R' a b) -> StronglySorted R l -> StronglySorted R' l.
Proof.
  induction l as [|x l IH]; intros H Hs; [constructor|].
  inversion Hs; subst. constructor.
  - apply IH; [|assumption]. intros a b Ha Hb. apply H; right; assumption.
  - apply Forall_forall. intros y Hy. rewrite Forall_forall in H3. apply H; [left; reflexivity| right; exact Hy| apply H3; exact Hy].
Qed.

(* the re-ordered work list: a permutation of the popped list, by non-increasing key *)
Lemma sorted_rest_spec (f : nat -> Q) (l2 : list nat) :
  let rest := map fst (rev (sort_asc (combine l2 (map f l2)))) in
  Permutation rest l2 /\ StronglySorted (fun a b => f b <= f a) rest.
Proof.
  cbv zeta. rewrite combine_map_self. set (c := map (fun k => (k, f k)) l2). split.
  - apply Permutation_trans with (map fst c).
    + apply Permutation_map. apply Permutation_trans with (sort_asc c);
        [apply Permutation_sym, Permutation_rev| apply sort_asc_perm].
    + unfold c. rewrite map_map. simpl. rewrite map_id. apply Permutation_refl.
  - apply SS_map_fst.
    + apply (SS_rev (@asc_pair nat)). apply Sorted_StronglySorted; [apply asc_pair_trans| apply sort_asc_sorted].
    + intros p Hp. apply in_rev in Hp. apply (Permutation_in _ (sort_asc_perm c)) in Hp.
      unfold c in Hp. apply in_map_iff in Hp. destruct Hp as [k [<- _]]. reflexivity.
Qed.

(* ================= sums ================= *)
Lemma fold_sum_ext (f g : nat -> Q) : forall l, (forall j, In j l -> f j == g j) ->
  fold_right (fun j acc => f j + acc) 0 l == fold_right (fun j acc => g j + acc) 0 l.
Proof.
  induction l as [|a l IH]; intros H; simpl; [reflexivity|].
  rewrite IH by (intros j Hj; apply H; right; exact Hj). rewrite (H a (or_introl eq_refl)). reflexivity.
Qed.
Lemma fold_sum_zero (f : nat -> Q) : forall l, (forall j, In j l -> f j == 0) ->
  fold_right (fun j acc => f j + acc) 0 l == 0.
Proof.
  induction l as [|a l IH]; intros H; simpl; [reflexivity|].
  rewrite IH by (intros j Hj; apply H; right; exact Hj). rewrite (H a (or_introl eq_refl)). reflexivity.
Qed.

(* ================= _max_overlap_pair ================= *)
Section PairProofs.
Variable n : nat.
Variable m : nat -> nat -> Q.
Hypothesis Hsym : forall a b, m a b == m b a.
Hypothesis Hdiag : forall a, m a a == 0.
Hypothesis Hnn : forall a b, 0 <= m a b.

Lemma colsum_rowsum k : colsum n m k == rowsum n m k.
Proof. unfold colsum, rowsum. apply fold_sum_ext. intros j _. apply Hsym. Qed.

Lemma argmax2_spec : (0 < n)%nat ->
  (fst (argmax2 n m) < n)%nat /\ (snd (argmax2 n m) < n)%nat /\
  forall a b, (a < n)%nat -> (b < n)%nat -> m a b <= m (fst (argmax2 n m)) (snd (argmax2 n m)).
Proof.
  intros Hn. unfold argmax2.
  destruct (argmax_aux_max (cells n m) (0%nat, 0%nat) (m 0%nat 0%nat)) as (H1 & H2 & H3).
  destruct (argmax_aux (0%nat, 0%nat) (m 0%nat 0%nat) (cells n m)) as [[i j] v] eqn:E. simpl in *.
  assert (Hv: v == m i j /\ (i < n)%nat /\ (j < n)%nat).
  { destruct H3 as [H3|H3].
    - inversion H3; subst. split; [reflexivity| lia].
    - unfold cells in H3. apply in_map_iff in H3. destruct H3 as [[a b] [E' Hin]]. inversion E'; subst.
      apply in_prod_iff in Hin. destruct Hin as [Ha Hb]. apply in_seq in Ha. apply in_seq in Hb.
      split; [reflexivity| simpl; lia]. }
  destruct Hv as (Hv & Hi & Hj). split; [exact Hi|]. split; [exact Hj|].
  intros a b Ha Hb. rewrite <- Hv. apply (H2 (a, b)).
  unfold cells. apply in_map_iff. exists (a, b). split; [reflexivity|].
  apply in_prod_iff. split; apply in_seq; lia.
Qed.

Lemma argmax2_flat : (forall a b, (a < n)%nat -> (b < n)%nat -> m a b <= m 0%nat 0%nat) -> argmax2 n m = (0%nat, 0%nat).
Proof.
  intros H. unfold argmax2. rewrite argmax_aux_init; [reflexivity|].
  intros [a b] v Hin. unfold cells in Hin. apply in_map_iff in Hin. destruct Hin as [[a' b'] [E Hin]].
  inversion E; subst. apply in_prod_iff in Hin. destruct Hin as [Ha Hb]. apply in_seq in Ha. apply in_seq in Hb.
  simpl. apply H; lia.
Qed.

(* the selected (reference, second) positions after the swap *)
Lemma select_spec : (0 < n)%nat ->
  let i := fst (select n m) in let j := snd (select n m) in
  (i < n)%nat /\ (j < n)%nat /\
  (forall a b, (a < n)%nat -> (b < n)%nat -> m a b <= m i j) /\
  rowsum n m j <= rowsum n m i /\
  (i <> j \/ (i = 0%nat /\ j = 0%nat /\ forall a b, (a < n)%nat -> (b < n)%nat -> m a b == 0)).
Proof.
  intros Hn. cbv zeta. destruct (argmax2_spec Hn) as (Hi & Hj & Hmax).
  assert (Hflat: fst (argmax2 n m) = snd (argmax2 n m) ->
                 argmax2 n m = (0%nat, 0%nat) /\ forall a b, (a < n)%nat -> (b < n)%nat -> m a b == 0).
  { intros E. assert (Hz: forall a b, (a < n)%nat -> (b < n)%nat -> m a b == 0).
    { intros a b Ha Hb. pose proof (Hmax a b Ha Hb) as H. rewrite E, Hdiag in H. pose proof (Hnn a b). lra. }
    split; [|exact Hz]. apply argmax2_flat. intros a b Ha Hb. rewrite (Hz a b Ha Hb), Hdiag. lra. }
  unfold select. pose proof (colsum_rowsum (snd (argmax2 n m))) as Hc.
  destruct (Qlt_le_dec (rowsum n m (fst (argmax2 n m))) (colsum n m (snd (argmax2 n m)))) as [Hs|Hs];
    cbn [fst snd].
  - split; [exact Hj|]. split; [exact Hi|]. split.
    { intros a b Ha Hb. rewrite (Hsym (snd (argmax2 n m)) (fst (argmax2 n m))). apply Hmax; assumption. }
    split; [lra|].
    destruct (Nat.eq_dec (fst (argmax2 n m)) (snd (argmax2 n m))) as [E|NE]; [|left; lia].
    right. destruct (Hflat E) as [E0 Hz]. rewrite E0. simpl. split; [reflexivity|]. split; [reflexivity| exact Hz].
  - split; [exact Hi|]. split; [exact Hj|]. split; [exact Hmax|]. split; [lra|].
    destruct (Nat.eq_dec (fst (argmax2 n m)) (snd (argmax2 n m))) as [E|NE]; [|left; lia].
    right. destruct (Hflat E) as [E0 Hz]. rewrite E0. simpl. split; [reflexivity|]. split; [reflexivity| exact Hz].
Qed.

Lemma rowsum_zero k : (forall a b, (a < n)%nat -> (b < n)%nat -> m a b == 0) -> (k < n)%nat -> rowsum n m k == 0.
Proof. intros Hz Hk. unfold rowsum. apply fold_sum_zero. intros j Hj. apply in_seq in Hj. apply Hz; lia. Qed.

Theorem pair_opt_spec : (2 <= n)%nat ->
  exists r s v rest,
    pair_opt n m = {| p_ref := Some r; p_sec := Some s; p_area := Some v; p_rest := rest |} /\
    (r < n)%nat /\ (s < n)%nat /\ r <> s /\
    (forall a b, (a < n)%nat -> (b < n)%nat -> m a b <= m r s) /\
    rowsum n m s <= rowsum n m r /\
    v == m r s /\
    Permutation (r :: s :: rest) (seq 0 n) /\
    StronglySorted (fun a b => m r b <= m r a) rest.
Proof.
  intros Hn. assert (Hn0: (0 < n)%nat) by lia.
  destruct (select_spec Hn0) as (Hi & Hj & Hmax & Hsum & Hcase). cbv zeta in *.
  unfold pair_opt. set (i := fst (select n m)) in *. set (j := snd (select n m)) in *.
  unfold pair_from.
  set (j' := if Nat.ltb i j then (j - 1)%nat else j).
  set (l2 := remove_nth j' (remove_nth i (seq 0 n))).
  assert (Hrow: remove_nth j' (remove_nth i (map (m i) (seq 0 n))) = map (m i) l2).
  { unfold l2. rewrite !remove_nth_map. reflexivity. }
  rewrite Hrow.
  assert (Him1: nth i (seq 0 n) 0%nat = i) by (rewrite seq_nth by lia; lia).
  rewrite Him1.
  assert (Hj': (j' < n - 1)%nat).
  { unfold j'. destruct (Nat.ltb i j) eqn:E; [apply Nat.ltb_lt in E; lia|].
    apply Nat.ltb_ge in E. destruct Hcase as [NE|(E0 & _)]; lia. }
  assert (Hl1: length (remove_nth i (seq 0 n)) = (n - 1)%nat).
  { rewrite remove_nth_length; rewrite seq_length; lia. }
  destruct (sorted_rest_spec (m i) l2) as [Hperm Hsorted]. cbv zeta in Hperm, Hsorted.
  set (rest := map fst (rev (sort_asc (combine l2 (map (m i) l2))))) in *.
  set (s := nth j' (remove_nth i (seq 0 n)) 0%nat).
  assert (HP: Permutation (i :: s :: rest) (seq 0 n)).
  { apply Permutation_trans with (i :: s :: l2).
    - apply perm_skip, perm_skip. exact Hperm.
    - apply Permutation_trans with (i :: remove_nth i (seq 0 n)).
      + apply perm_skip. unfold s, l2. apply remove_nth_perm. rewrite Hl1. exact Hj'.
      + rewrite <- Him1 at 1. apply remove_nth_perm. rewrite seq_length. exact Hi. }
  assert (Hs: (i <> j /\ s = j) \/ (i = 0%nat /\ j = 0%nat /\ s = 1%nat)).
  { unfold s. rewrite nth_remove_nth. destruct Hcase as [NE|(E0 & E1 & _)].
    - left. split; [exact NE|]. unfold j'. destruct (Nat.ltb i j) eqn:E.
      + apply Nat.ltb_lt in E. assert (E2: Nat.ltb (j - 1) i = false) by (apply Nat.ltb_ge; lia).
        rewrite E2. rewrite seq_nth by lia. lia.
      + apply Nat.ltb_ge in E. assert (E2: Nat.ltb j i = true) by (apply Nat.ltb_lt; lia).
        rewrite E2. rewrite seq_nth by lia. lia.
    - right. split; [exact E0|]. split; [exact E1|]. unfold j'. rewrite E0, E1. simpl.
      rewrite seq_nth by lia. reflexivity. }
  exists i, s, (m i j), rest. split; [reflexivity|]. split; [exact Hi|].
  destruct Hs as [(NE & ->)|(E0 & E1 & Es)].
  - split; [exact Hj|]. split; [exact NE|]. split; [exact Hmax|]. split; [exact Hsum|].
    split; [reflexivity|]. split; [exact HP| exact Hsorted].
  - destruct Hcase as [NE|(_ & _ & Hz)]; [lia|].
    assert (H1n: (1 < n)%nat) by lia.
    split; [lia|]. split; [lia|]. split.
    { intros a b Ha Hb. rewrite (Hz a b Ha Hb). rewrite Es. apply Hnn. }
    split.
    { rewrite Es. rewrite (rowsum_zero 1%nat Hz H1n), (rowsum_zero i Hz Hi). lra. }
    split.
    { rewrite Es. rewrite (Hz i j Hi Hj), (Hz i 1%nat Hi H1n). reflexivity. }
    split; [exact HP| exact Hsorted].
Qed.

(* optimised order is only used for three or more images *)
Lemma max_overlap_pair_opt : (3 <= n)%nat -> max_overlap_pair n m false = pair_opt n m.
Proof.
  intros H. unfold max_overlap_pair. destruct n as [|[|[|k]]]; try lia. reflexivity.
Qed.
End PairProofs.

(* user order (or exactly two images): the first two images in list order, the rest untouched *)
Lemma max_overlap_pair_user : forall n m enforce, (2 <= n)%nat -> (n = 2%nat \/ enforce = true) ->
  max_overlap_pair n m enforce =
    {| p_ref := Some 0%nat; p_sec := Some 1%nat; p_area := Some (m 0%nat 1%nat); p_rest := seq 2 (n - 2) |}.
Proof.
  intros n m enforce Hn H. unfold max_overlap_pair. destruct n as [|[|k]]; try lia.
  destruct H as [E | ->].
  - inversion E; subst. reflexivity.
  - rewrite orb_true_r. reflexivity.
Qed.

Lemma max_overlap_pair_short : forall m enforce,
  max_overlap_pair 0 m enforce = {| p_ref := None; p_sec := None; p_area := None; p_rest := [] |} /\
  max_overlap_pair 1 m enforce = {| p_ref := Some 0%nat; p_sec := None; p_area := None; p_rest := [0%nat] |}.
Proof. intros. split; reflexivity. Qed.

(* ---- in terms of the footprint overlap function (overlap_matrix applied to it) ---- *)
Definition total_overlap (n : nat) (ov : nat -> nat -> Q) (k : nat) : Q :=
  fold_right (fun j acc => (if Nat.eqb j k then 0 else ov k j) + acc) 0 (seq 0 n).

Section OV.
Variable ov : nat -> nat -> Q.
Hypothesis ov_nonneg : forall a b, 0 <= ov a b.
Hypothesis ov_sym : forall a b, ov a b == ov b a.

Lemma omat_sym a b : omat ov a b == omat ov b a.
Proof.
  unfold omat. destruct (Nat.eqb a b) eqn:E.
  - apply Nat.eqb_eq in E. subst. rewrite Nat.eqb_refl. reflexivity.
  - apply Nat.eqb_neq in E. assert (E': Nat.eqb b a = false) by (apply Nat.eqb_neq; lia). rewrite E'.
    destruct (Nat.ltb a b) eqn:L.
    + apply Nat.ltb_lt in L. assert (L': Nat.ltb b a = false) by (apply Nat.ltb_ge; lia). rewrite L'. reflexivity.
    + apply Nat.ltb_ge in L. assert (L': Nat.ltb b a = true) by (apply Nat.ltb_lt; lia). rewrite L'. reflexivity.
Qed.
Lemma omat_diag a : omat ov a a == 0.
Proof. unfold omat. rewrite Nat.eqb_refl. reflexivity. Qed.
Lemma omat_nonneg a b : 0 <= omat ov a b.
Proof. unfold omat. destruct (Nat.eqb a b); [lra|]. destruct (Nat.ltb a b); apply ov_nonneg. Qed.
Lemma omat_off a b : a <> b -> omat ov a b == ov a b.
Proof.
  intros NE. unfold omat. assert (E: Nat.eqb a b = false) by (apply Nat.eqb_neq; exact NE). rewrite E.
  destruct (Nat.ltb a b); [reflexivity| apply ov_sym].
Qed.
Lemma rowsum_total n k : rowsum n (omat ov) k == total_overlap n ov k.
Proof.
  unfold rowsum, total_overlap. apply fold_sum_ext. intros j _.
  destruct (Nat.eqb j k) eqn:E.
  - apply Nat.eqb_eq in E. subst. apply omat_diag.
  - apply Nat.eqb_neq in E. apply omat_off. lia.
Qed.

Theorem pair_optimised_spec : forall n, (3 <= n)%nat ->
  exists r s v rest,
    max_overlap_pair n (omat ov) false = {| p_ref := Some r; p_sec := Some s; p_area := Some v; p_rest := rest |} /\
    (r < n)%nat /\ (s < n)%nat /\ r <> s /\
    (forall a b, (a < n)%nat -> (b < n)%nat -> a <> b -> ov a b <= ov r s) /\
    total_overlap n ov s <= total_overlap n ov r /\
    v == ov r s /\
    Permutation (r :: s :: rest) (seq 0 n) /\
    StronglySorted (fun a b => ov r b <= ov r a) rest.
Proof.
  intros n Hn.
  destruct (@pair_opt_spec n (omat ov) omat_sym omat_diag omat_nonneg) as (r & s & v & rest & E & Hr & Hs & NE & Hmax & Hsum & Hv & HP & HS); [lia|].
  exists r, s, v, rest. rewrite max_overlap_pair_opt by exact Hn.
  split; [exact E|]. split; [exact Hr|]. split; [exact Hs|]. split; [exact NE|]. split.
  { intros a b Ha Hb Hab. rewrite <- (omat_off _ _ Hab), <- (omat_off _ _ NE). apply Hmax; assumption. }
  split. { rewrite <- !rowsum_total. exact Hsum. }
  split. { rewrite Hv. apply (omat_off _ _ NE). }
  split; [exact HP|].
  assert (Hnd: NoDup (r :: s :: rest)).
  { apply (Permutation_NoDup (Permutation_sym HP)). apply seq_NoDup. }
  assert (Hnr: forall k, In k rest -> r <> k).
  { intros k Hk ->. inversion Hnd as [|? ? Hnot _]; subst. apply Hnot. right. exact Hk. }
  apply (SS_impl_in (fun a b => omat ov r b <= omat ov r a)); [|exact HS].
  intros a b Ha Hb H. rewrite <- (omat_off _ _ (Hnr a Ha)), <- (omat_off _ _ (Hnr b Hb)). exact H.
Qed.
End OV.

(* ================= _max_overlap_image ================= *)
Theorem image_optimised_spec : forall v, v <> [] ->
  exists idx,
    max_overlap_image false v =
      {| i_img := Some idx; i_area := Some (nth idx v 0); i_rest := remove_nth idx (seq 0 (length v)) |} /\
    (idx < length v)%nat /\
    (forall k, (k < length v)%nat -> nth k v 0 <= nth idx v 0) /\
    Permutation (idx :: remove_nth idx (seq 0 (length v))) (seq 0 (length v)) /\
    remove_nth idx (seq 0 (length v)) = filter (fun k => negb (Nat.eqb k idx)) (seq 0 (length v)).
Proof.
  intros v Hv. destruct v as [|v0 v']; [contradiction|]. set (v := v0 :: v') in *.
  exists (argmax1 v). split; [reflexivity|].
  unfold argmax1.
  destruct (argmax_aux_max (vcells v) 0%nat (nth 0 v 0)) as (H1 & H2 & H3).
  destruct (argmax_aux 0%nat (nth 0 v 0) (vcells v)) as [idx x] eqn:E. cbn [fst snd] in H1, H2, H3 |- *.
  assert (Hx: x = nth idx v 0 /\ (idx < length v)%nat).
  { destruct H3 as [H3|H3].
    - inversion H3; subst. split; [reflexivity| unfold v; simpl; lia].
    - unfold vcells in H3. apply in_map_iff in H3. destruct H3 as [k [E' Hin]]. inversion E'; subst.
      apply in_seq in Hin. split; [reflexivity| lia]. }
  destruct Hx as [-> Hidx]. split; [exact Hidx|]. split.
  { intros k Hk. apply (H2 k). unfold vcells. apply in_map_iff. exists k. split; [reflexivity|]. apply in_seq. lia. }
  split.
  { pose proof (@remove_nth_perm nat 0%nat (seq 0 (length v)) idx) as P. rewrite seq_length in P.
    specialize (P Hidx). rewrite seq_nth in P by exact Hidx. exact P. }
  rewrite (remove_nth_seq_filter (length v) 0 idx Hidx). reflexivity.
Qed.

Lemma max_overlap_image_user : forall v0 v',
  max_overlap_image true (v0 :: v') = {| i_img := Some 0%nat; i_area := Some v0; i_rest := seq 1 (length v') |}.
Proof. reflexivity. Qed.
Lemma max_overlap_image_empty : forall enforce,
  max_overlap_image enforce [] = {| i_img := None; i_area := None; i_rest := [] |}.
Proof. reflexivity. Qed.

(* user order in terms of the footprint overlap function *)
Lemma pair_user_spec : forall ov n enforce, (2 <= n)%nat -> (n = 2%nat \/ enforce = true) ->
  max_overlap_pair n (omat ov) enforce =
    {| p_ref := Some 0%nat; p_sec := Some 1%nat; p_area := Some (ov 0%nat 1%nat); p_rest := seq 2 (n - 2) |}.
Proof. intros ov n enforce Hn H. rewrite (max_overlap_pair_user n (omat ov) enforce Hn H). reflexivity. Qed.
