From Coq Require Import QArith Qabs List Bool Arith Lia Permutation.
Require Import GJModel GJSum GJProof1 GJProof2.
Import ListNotations.
Open Scope Q_scope.

Section Main.
Variable n : nat.
Variable a : mat.
Let A (i j : nat) : Q := mnth a i j.

Lemma mnth_ident i j : (i < n)%nat -> (j < n)%nat -> mnth (ident n) i j = delta i j.
Proof. intros. unfold ident. rewrite mnth_tabm by assumption. reflexivity. Qed.

Lemma delta_sym i j : delta i j = delta j i.
Proof. unfold delta. rewrite Nat.eqb_sym. reflexivity. Qed.

Lemma inv_init : Inv n a 0 {| sm := a; sb := ident n; sp := seq 0 n; ss := seq 0 n |}.
Proof.
  constructor; cbn [sm sb sp ss].
  - apply seq_length.
  - apply seq_length.
  - intros x Hx. rewrite seq_nth by exact Hx. simpl; exact Hx.
  - intros x Hx. rewrite seq_nth by exact Hx. simpl; exact Hx.
  - intros x Hx. rewrite !seq_nth by (try rewrite seq_nth; simpl; assumption). reflexivity.
  - intros x Hx. rewrite !seq_nth by (try rewrite seq_nth; simpl; assumption). reflexivity.
  - apply Permutation_refl.
  - intros i l Hi Hl. unfold W.
    rewrite (vsum_ext _ _ (fun j => mnth a j l * delta j i)).
    + rewrite (vsum_delta n (fun j => mnth a j l) i Hi). reflexivity.
    + intros j Hj. apply in_seq in Hj. rewrite mnth_ident by lia.
      rewrite !seq_nth by lia. simpl. rewrite delta_sym. ring.
  - intros; lia.
Qed.

Lemma fwd_inv ks : forall k s s', ks = seq k (n - k) -> (k <= n)%nat ->
  Inv n a k s -> fwd n ks s = Some s' -> Inv n a n s'.
Proof.
  induction ks as [|k0 ks IH]; intros k s s' Hks Hk I Hf.
  - simpl in Hf. inversion Hf; subst s'.
    assert (k = n) by (destruct (n - k)%nat eqn:E; [lia| simpl in Hks; discriminate]). subst; exact I.
  - destruct (n - k)%nat as [|d] eqn:E; [simpl in Hks; discriminate|].
    simpl in Hks. inversion Hks; subst k0. simpl in Hf.
    unfold fwd_step in Hf.
    pose proof (argmax_range n k (sm s) ltac:(lia)) as Hr.
    destruct (argmax_abs n k (sm s)) as [im jm].
    destruct (Qeq_bool (mnth (sm s) im jm) 0) eqn:Ez; [discriminate|].
    apply (IH (S k) (step_core n k im jm s) s').
    + replace (n - S k)%nat with d by lia. exact H1.
    + lia.
    + apply step_inv; try lia; try tauto.
      intro Hz. apply Qeq_bool_iff in Hz. congruence.
    + exact Hf.
Qed.

(* ---------- backward phase ---------- *)
Definition Wb (sg : list nat) (b : mat) (i l : nat) : Q := W n a b sg i l.

Definition BackInv (sg : list nat) (u : mat) (t : nat) (b : mat) : Prop :=
  forall i l, (i < n)%nat -> (l < n)%nat ->
    Wb sg b i l == if Nat.ltb l t then mnth u i l else delta i l.

Definition UTri (u : mat) : Prop :=
  forall i l, (i < n)%nat -> (l < n)%nat ->
    (i = l -> mnth u i l == 1) /\ ((l < i)%nat -> mnth u i l == 0).

Lemma back_step_inv sg u b c : UTri u -> (c < n)%nat ->
  BackInv sg u (S c) b -> BackInv sg u c (back_step n u b c).
Proof.
  intros HU Hc HB i l Hi Hl.
  unfold Wb, W.
  assert (Wc: forall l', (l' < n)%nat -> Wb sg b c l' == delta c l').
  { intros l' Hl'. rewrite (HB c l') by assumption.
    destruct (Nat.ltb_spec l' (S c)); [|reflexivity].
    unfold delta. destruct (Nat.eqb_spec c l').
    - apply (HU c l'); lia.
    - apply (HU c l'); lia. }
  rewrite (vsum_ext _ _ (fun j =>
     (if Nat.ltb i c then mnth b i j - mnth u i c * mnth b c j else mnth b i j)
       * A (nth j sg O) (nth l sg O))).
  2:{ intros j Hj. apply in_seq in Hj. unfold back_step. rewrite mnth_tabm by lia.
      destruct (Nat.ltb i c); [rewrite Qred_correct|]; reflexivity. }
  destruct (Nat.ltb_spec i c) as [Hic|Hic].
  - rewrite (vsum_ext _ _ (fun j => mnth b i j * A (nth j sg O) (nth l sg O)
                               - mnth u i c * (mnth b c j * A (nth j sg O) (nth l sg O))))
      by (intros; ring).
    rewrite vsum_sub, vsum_scal.
    change (Wb sg b i l - mnth u i c * Wb sg b c l ==
            (if (l <? c)%nat then mnth u i l else delta i l)).
    rewrite (HB i l) by assumption. rewrite (Wc l) by assumption.
    assert (Hd: c <> l -> delta c l = 0) by (intros; unfold delta; destruct (Nat.eqb_spec c l); [lia|reflexivity]).
    destruct (Nat.ltb_spec l (S c)); destruct (Nat.ltb_spec l c); try lia.
    + rewrite Hd by lia. ring.
    + assert (l = c) by lia. subst l. unfold delta. rewrite Nat.eqb_refl.
      destruct (Nat.eqb_spec i c); [lia| ring].
    + rewrite Hd by lia. ring.
  - change (Wb sg b i l == (if (l <? c)%nat then mnth u i l else delta i l)).
    rewrite (HB i l) by assumption.
    destruct (Nat.ltb_spec l (S c)); destruct (Nat.ltb_spec l c); try lia; try reflexivity.
    assert (l = c) by lia. subst l. unfold delta.
    destruct (Nat.eqb_spec i c).
    + apply (HU i c); lia.
    + apply (HU i c); lia.
Qed.

Lemma back_inv sg u : UTri u -> forall cs t b,
  cs = rev (seq 1 t) -> (S t <= n)%nat \/ (t = 0)%nat ->
  BackInv sg u (S t) b -> BackInv sg u 1 (fold_left (back_step n u) cs b).
Proof.
  intros HU cs. induction cs as [|c cs IH]; intros t b Hcs Ht HB.
  - simpl. destruct t as [|t]; [exact HB|].
    rewrite seq_S, rev_app_distr in Hcs. simpl in Hcs. discriminate.
  - destruct t as [|t]; [simpl in Hcs; discriminate|].
    rewrite seq_S, rev_app_distr in Hcs. simpl in Hcs. inversion Hcs; subst c cs.
    simpl. apply (IH t).
    + reflexivity.
    + lia.
    + apply back_step_inv; [exact HU| lia| exact HB].
Qed.

(* ---------- final theorem: left inverse ---------- *)
Definition square (m : mat) : Prop := length m = n /\ forall r, In r m -> length r = n.

Theorem inv_gj_left_inverse x :
  square a -> inv_gj a = Ok x ->
  forall i l, (i < n)%nat -> (l < n)%nat ->
    vsum (seq 0 n) (fun j => mnth x i j * mnth a j l) == delta i l.
Proof.
  intros [Hlen Hrows] Hinv i l Hi Hl.
  unfold inv_gj in Hinv. rewrite Hlen in Hinv.
  destruct (negb _); [discriminate|].
  destruct (fwd n (seq 0 n) _) as [s|] eqn:Hf; [|discriminate].
  inversion Hinv; subst x; clear Hinv.
  assert (I: Inv n a n s).
  { apply (fwd_inv (seq 0 n) 0%nat {| sm := a; sb := ident n; sp := seq 0 n; ss := seq 0 n |} s); [rewrite Nat.sub_0_r; reflexivity| lia| apply inv_init| exact Hf]. }
  destruct I as [Ls Lp Rs Rp PS SP Pm Row Tri].
  assert (HU: UTri (sm s)) by (intros i' l' Hi' Hl'; apply Tri; lia).
  set (b' := back n (sm s) (sb s)).
  assert (HB1: BackInv (ss s) (sm s) 1 b').
  { unfold b', back.
    assert (Hn: S (n - 1) = n) by lia.
    apply (back_inv (ss s) (sm s) HU (rev (seq 1 (n - 1))) (n - 1)%nat).
    - reflexivity.
    - lia.
    - rewrite Hn.
      intros i' l' Hi' Hl'. unfold Wb. rewrite <- Row by lia.
      destruct (Nat.ltb_spec l' n); [reflexivity| lia]. }
  assert (HI: forall i' l', (i' < n)%nat -> (l' < n)%nat -> Wb (ss s) b' i' l' == delta i' l').
  { intros i' l' Hi' Hl'. rewrite (HB1 i' l') by assumption.
    destruct (Nat.ltb_spec l' 1); [|reflexivity].
    assert (l' = 0)%nat by lia. subst l'. unfold delta.
    destruct (Nat.eqb_spec i' 0%nat).
    - apply (HU i' 0%nat); lia.
    - apply (HU i' 0%nat); lia. }
  (* reindex the sum by sigma *)
  set (p := fun y => nth y (sp s) O). set (sg := fun y => nth y (ss s) O).
  rewrite (vsum_ext _ _ (fun j => mnth b' (p i) (p j) * mnth a j l)).
  2:{ intros j Hj. apply in_seq in Hj. rewrite mnth_tabm by lia. reflexivity. }
  rewrite <- (vsum_perm _ _ _ Pm).
  rewrite <- (map_nth_seq (ss s) n Ls) at 1. rewrite vsum_map.
  transitivity (Wb (ss s) b' (p i) (p l)).
  - unfold Wb, W. apply vsum_ext. intros j Hj. apply in_seq in Hj.
    unfold p. rewrite (PS j) by lia. rewrite (SP l) by lia. reflexivity.
  - rewrite HI by (apply Rp; assumption). unfold delta.
    destruct (Nat.eqb_spec (p i) (p l)) as [E|E]; destruct (Nat.eqb_spec i l) as [E'|E']; try reflexivity.
    + exfalso. apply E'. rewrite <- (SP i Hi), <- (SP l Hl). unfold p in E. rewrite E. reflexivity.
    + exfalso. apply E. subst; reflexivity.
Qed.

End Main.

Print Assumptions inv_gj_left_inverse.
