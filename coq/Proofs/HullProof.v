From Coq Require Import QArith Lqa Psatz List Sorting.Sorted Lia.
Require Import HullModel HullGeo.
Import ListNotations.
Open Scope Q_scope.

Fixpoint conv (S : list pt) : Prop :=
  match S with
  | c :: ((b :: a :: _) as r) => 0 < cr a b c /\ conv r
  | _ => True
  end.
Fixpoint above (q : pt) (S : list pt) : Prop :=
  match S with
  | b :: ((a :: _) as r) => 0 <= cr a b q /\ above q r
  | _ => True
  end.
Definition desc (S : list pt) : Prop := StronglySorted (fun x y => lt y x) S.
Definition exitc (p : pt) (S : list pt) : Prop :=
  match S with b :: a :: _ => 0 < cr a b p | _ => True end.
Definition d0 : pt := (0, 0).

Lemma conv_tail x S : conv (x :: S) -> conv S.
Proof. destruct S as [|b [|a r]]; simpl; tauto. Qed.
Lemma above_tail q x S : above q (x :: S) -> above q S.
Proof. destruct S as [|a r]; simpl; tauto. Qed.
Lemma desc_tail x S : desc (x :: S) -> desc S.
Proof. intros H. inversion H; assumption. Qed.
Lemma desc_hd x y S : desc (x :: y :: S) -> lt y x.
Proof. intros H. inversion H as [|? ? _ F]. inversion F; assumption. Qed.

Section Push.
Variable P : list pt.
Variable p : pt.
Hypothesis Pp : forall q, In q P -> lt q p.

Definition J (t : pt) : Prop := forall q, In q P -> lt t q -> 0 <= cr t p q.

Lemma popw_ok : forall S, S <> [] -> desc S -> conv S -> (forall x, In x S -> In x P) ->
  (forall q, In q P -> above q S) -> J (hd d0 S) ->
  let S' := popw S p in
  S' <> [] /\ (forall x, In x S' -> In x S) /\ desc S' /\ conv S' /\
  (forall q, In q P -> above q S') /\ J (hd d0 S') /\ last S' d0 = last S d0 /\ exitc p S'.
Proof.
  induction S as [|b S IH]; intros Hne Hd Hc Hs Ha HJ; [contradiction|].
  destruct S as [|a r].
  - simpl. repeat split; auto.
  - cbn [popw]. destruct (Qle_bool (cr a b p) 0) eqn:E.
    + apply Qle_bool_iff in E.
      assert (Hab: lt a b) by (apply (desc_hd b a r Hd)).
      assert (Hbp: lt b p) by (apply Pp, Hs; left; reflexivity).
      assert (HJa: J (hd d0 (a :: r))).
      { simpl. intros q Hq Haq.
        destruct (tricho q b) as [Hqb|[Hqb|Hqb]].
        - pose proof (Ha q Hq) as Hab'. simpl in Hab'. destruct Hab' as [Hcr _].
          apply (G4 a q b p); auto.
        - rewrite (cr_eqp_r a p q b Hqb). apply G5; exact E.
        - apply (G3 a b q p Hab Hqb (Pp q Hq)).
          + apply HJ; assumption.
          + apply G5; exact E. }
      specialize (IH ltac:(discriminate) (desc_tail _ _ Hd) (conv_tail _ _ Hc)
                     (fun x Hx => Hs x (or_intror Hx))
                     (fun q Hq => above_tail q b _ (Ha q Hq)) HJa).
      cbv zeta in IH. destruct IH as (H1 & H2 & H3 & H4 & H5 & H6 & H7 & H8).
      repeat split; auto; try (intros x Hx; right; apply H2; exact Hx); try (rewrite H7; reflexivity).
    + assert (E': 0 < cr a b p).
      { destruct (Qlt_le_dec 0 (cr a b p)) as [G|G]; [exact G|].
        apply Qle_bool_iff in G. congruence. }
      repeat split; auto; try discriminate.
      all: match goal with Hq : In ?q P |- _ => pose proof (Ha q Hq) as Hz; simpl in Hz; tauto end.
Qed.

Lemma above_new : forall S, desc S -> conv S -> (forall x, In x S -> lt x p) -> exitc p S -> above p S.
Proof.
  induction S as [|b S IH]; intros Hd Hc Hl He; [exact I|].
  destruct S as [|a r]; [exact I|].
  simpl in He. split; [apply Qlt_le_weak; exact He|].
  apply IH.
  - apply (desc_tail _ _ Hd).
  - apply (conv_tail _ _ Hc).
  - intros x Hx. apply Hl. right; exact Hx.
  - destruct r as [|z r']; [exact I|]. simpl.
    simpl in Hc. destruct Hc as [Hzab _].
    assert (Hza: lt z a) by (apply (desc_hd a z r'), (desc_tail _ _ Hd)).
    assert (Hab: lt a b) by (apply (desc_hd b a _ Hd)).
    assert (Hbp: lt b p) by (apply Hl; left; reflexivity).
    apply (G1 z a b p); assumption.
Qed.

Record Good (Q0 S : list pt) : Prop := {
  g_ne : S <> [];
  g_sub : forall x, In x S -> In x Q0;
  g_desc : desc S;
  g_conv : conv S;
  g_above : forall q, In q Q0 -> above q S;
  g_top : forall q, In q Q0 -> le q (hd d0 S);
  g_bot : forall q, In q Q0 -> le (last S d0) q
}.

Lemma last_in (S : list pt) : S <> [] -> In (last S d0) S.
Proof. induction S as [|x S IH]; intros H; [contradiction|].
  destruct S as [|y S']; [left; reflexivity|]. right. apply IH. discriminate. Qed.

Lemma push_good S : Good P S -> Good (p :: P) (push S p).
Proof.
  intros [Hne Hs Hd Hc Ha Ht Hb].
  assert (HJ: J (hd d0 S)).
  { intros q Hq Hlt. exfalso. apply (le_not_lt q (hd d0 S)); [apply Ht; exact Hq| exact Hlt]. }
  pose proof (popw_ok S Hne Hd Hc Hs Ha HJ) as K. cbv zeta in K.
  destruct K as (H1 & H2 & H3 & H4 & H5 & H6 & H7 & H8).
  unfold push. set (S' := popw S p) in *.
  assert (HS'p: forall x, In x S' -> lt x p) by (intros x Hx; apply Pp, Hs, H2, Hx).
  constructor.
  - discriminate.
  - intros x [<-|Hx]; [left; reflexivity| right; apply Hs, H2, Hx].
  - constructor; [exact H3|]. apply Forall_forall. exact HS'p.
  - destruct S' as [|b' [|a r]] eqn:ES; simpl; auto.
  - intros q [<-|Hq].
    + (* the new point against all edges *)
      destruct S' as [|b' r] eqn:ES; [contradiction|].
      split; [rewrite G7; apply Qle_refl|].
      apply above_new; auto.
    + destruct S' as [|b' r] eqn:ES; [contradiction|].
      split; [| apply H5; exact Hq].
      destruct (tricho q b') as [Hqb|[Hqb|Hqb]].
      * destruct r as [|a r'].
        { exfalso. simpl in H7. apply (le_not_lt b' q); [rewrite H7; apply Hb; exact Hq| exact Hqb]. }
        pose proof (H5 q Hq) as Hab. simpl in Hab. destruct Hab as [Hcr _]. simpl in H8.
        apply (G2 a b' p q); auto.
        -- apply (desc_hd b' a r' H3).
        -- apply HS'p. left; reflexivity.
      * rewrite (G6 b' p q Hqb). apply Qle_refl.
      * simpl in H6. apply H6; assumption.
  - intros q [<-|Hq]; simpl; [apply le_refl| apply lt_le, Pp, Hq].
  - intros q Hq.
    assert (EL: last (p :: S') d0 = last S d0).
    { destruct S' as [|b' r] eqn:ES; [contradiction|]. rewrite <- H7. reflexivity. }
    rewrite EL. destruct Hq as [<-|Hq]; [| apply Hb; exact Hq].
    apply lt_le, Pp, Hs, last_in, Hne.
Qed.

End Push.

Lemma good_single p0 : Good [p0] (push [] p0).
Proof.
  unfold push; simpl. constructor; simpl; auto.
  - discriminate.
  - constructor; [constructor| constructor].
  - intros q [<-|[]]. apply le_refl.
  - intros q [<-|[]]. apply le_refl.
Qed.

Lemma chain_good : forall l P S, Good P S ->
  (forall q x, In q P -> In x l -> lt q x) -> StronglySorted lt l ->
  exists P', (forall q, In q P' <-> In q P \/ In q l) /\ Good P' (fold_left push l S).
Proof.
  induction l as [|x l IH]; intros P S HG HP Hl.
  - exists P. split; [intros; simpl; tauto| exact HG].
  - simpl. inversion Hl as [|? ? Hl' Hx]; subst.
    destruct (IH (x :: P) (push S x)) as [P' [HP' HG']].
    + apply push_good; [intros q Hq; apply HP; [exact Hq| left; reflexivity]| exact HG].
    + intros q y [<-|Hq] Hy.
      * rewrite Forall_forall in Hx. apply Hx; exact Hy.
      * apply HP; [exact Hq| right; exact Hy].
    + exact Hl'.
    + exists P'. split; [| exact HG'].
      intros q. rewrite HP'. simpl. tauto.
Qed.

(* every input point is on or to the left of every directed edge of the lower chain *)
Theorem lower_chain_contains pts : StronglySorted lt pts ->
  forall q, In q pts -> above q (chain pts).
Proof.
  intros Hs q Hq. destruct pts as [|p0 l]; [contradiction|].
  unfold chain. simpl. inversion Hs as [|? ? Hl Hp0]; subst.
  destruct (chain_good l [p0] (push [] p0) (good_single p0)) as [P' [HP' HG]].
  - intros q' x [<-|[]] Hx. rewrite Forall_forall in Hp0. apply Hp0; exact Hx.
  - exact Hl.
  - apply (g_above _ _ HG). apply HP'. simpl in Hq. simpl. tauto.
Qed.

Print Assumptions lower_chain_contains.
