(* C19: ownership IR, concrete semantics, checker, soundness *)
From Coq Require Import List Bool Arith Lia.
Import ListNotations.

Definition var := nat.
Definition loc := nat.
Inductive rhs := Fresh | Alias (ys : list var) | MayAlias (ys : list var).
Inductive stmt := Assign (x : var) (r : rhs) | Write (x : var).
Definition prog := list stmt.

(* ---------- concrete semantics ---------- *)
Record state := { env : var -> option loc; next : loc; written : list loc }.
Definition upd (e : var -> option loc) (x : var) (l : loc) : var -> option loc :=
  fun y => if Nat.eqb y x then Some l else e y.

(* one execution step of statement s; nondeterminism is a relation *)
Inductive step : stmt -> state -> state -> Prop :=
| s_fresh x r s : (r = Fresh \/ exists ys, r = MayAlias ys) ->
    step (Assign x r) s {| env := upd (env s) x (next s); next := S (next s); written := written s |}
| s_alias x r ys y l s : (r = Alias ys \/ r = MayAlias ys) -> In y ys -> env s y = Some l ->
    step (Assign x r) s {| env := upd (env s) x l; next := next s; written := written s |}
| s_write x l s : env s x = Some l ->
    step (Write x) s {| env := env s; next := next s; written := l :: written s |}
| s_write_undef x s : env s x = None -> step (Write x) s s.

(* a run executes statements of the program in ANY order and multiplicity (covers all control flow) *)
Inductive run (p : prog) : state -> state -> Prop :=
| r_nil s : run p s s
| r_cons st s s' s'' : In st p -> step st s s' -> run p s' s'' -> run p s s''.

(* ---------- checker ---------- *)
Definition mem (x : var) (T : list var) : bool := existsb (Nat.eqb x) T.
Definition srcs (r : rhs) : list var := match r with Fresh => [] | Alias ys | MayAlias ys => ys end.
Definition closed_stmt (T : list var) (s : stmt) : bool :=
  match s with
  | Assign x r => if existsb (fun y => mem y T) (srcs r) then mem x T else true
  | Write _ => true
  end.
Definition safe_stmt (T : list var) (s : stmt) : bool :=
  match s with Write x => negb (mem x T) | _ => true end.
Definition one_round (p : prog) (T : list var) : list var :=
  fold_left (fun T s => match s with
     | Assign x r => if existsb (fun y => mem y T) (srcs r) && negb (mem x T) then x :: T else T
     | Write _ => T end) p T.
Fixpoint iterate (k : nat) (p : prog) (T : list var) : list var :=
  match k with O => T | S k' => iterate k' p (one_round p T) end.
Definition check (params : list var) (p : prog) : bool :=
  let T := iterate (length p) p params in
  forallb (fun x => mem x T) params && forallb (closed_stmt T) p && forallb (safe_stmt T) p.

(* ---------- soundness ---------- *)
Section Sound.
Variable params : list var.
Variable owned : loc -> Prop.            (* caller-owned locations *)
Variable p : prog.
Variable T : list var.
Hypothesis Hpar : forallb (fun x => mem x T) params = true.
Hypothesis Hclosed : forallb (closed_stmt T) p = true.
Hypothesis Hsafe : forallb (safe_stmt T) p = true.

Definition Inv (s : state) : Prop :=
  (forall x l, env s x = Some l -> owned l -> mem x T = true) /\
  (forall l, owned l -> (l < next s)%nat) /\
  (forall l, In l (written s) -> ~ owned l).

Lemma step_inv st s s' : In st p -> step st s s' -> Inv s -> Inv s'.
Proof.
  intros Hin Hst [I1 [I2 I3]].
  rewrite forallb_forall in Hclosed, Hsafe.
  pose proof (Hclosed st Hin) as Hc. pose proof (Hsafe st Hin) as Hs.
  inversion Hst; subst; simpl in *.
  - (* fresh allocation *)
    repeat split; simpl.
    + intros y l Hy Ho. unfold upd in Hy. destruct (Nat.eqb_spec y x).
      * inversion Hy; subst. apply I2 in Ho. lia.
      * apply (I1 y l Hy Ho).
    + intros l Ho. apply I2 in Ho. lia.
    + exact I3.
  - (* alias *)
    repeat split; simpl; [| exact I2 | exact I3].
    intros z l' Hz Ho. unfold upd in Hz. destruct (Nat.eqb_spec z x) as [->|Hne].
    + inversion Hz; subst l'.
      assert (My: mem y T = true) by (apply (I1 y l); assumption).
      assert (E: existsb (fun y0 => mem y0 T) (srcs r) = true).
      { apply existsb_exists. exists y. split; [| exact My]. destruct H as [->| ->]; exact H0. }
      rewrite E in Hc. exact Hc.
    + apply (I1 z l' Hz Ho).
  - (* write *)
    repeat split; simpl; [exact I1 | exact I2 |].
    intros l' [<-|Hl'] Ho; [| apply (I3 l' Hl' Ho)].
    pose proof (I1 x l H Ho) as Mx. rewrite Mx in Hs. discriminate.
  - repeat split; assumption.
Qed.

Theorem run_safe s s' : run p s s' -> Inv s -> forall l, In l (written s') -> ~ owned l.
Proof.
  induction 1 as [s| st s s1 s2 Hin Hst _ IH]; intros I.
  - apply I.
  - apply IH. eapply step_inv; eassumption.
Qed.
End Sound.

(* initial states: parameters bound to caller-owned locations, nothing written yet *)
Theorem check_sound params p (owned : loc -> Prop) s0 s' :
  check params p = true ->
  (forall x l, env s0 x = Some l -> owned l -> In x params) ->
  (forall l, owned l -> (l < next s0)%nat) -> written s0 = [] ->
  run p s0 s' -> forall l, In l (written s') -> ~ owned l.
Proof.
  unfold check. intros Hc Henv Hnext Hw Hrun.
  apply andb_true_iff in Hc. destruct Hc as [Hc Hs]. apply andb_true_iff in Hc. destruct Hc as [Hp Hcl].
  apply (run_safe owned p _ Hcl Hs s0 s' Hrun).
  repeat split.
  - intros x l Hx Ho. rewrite forallb_forall in Hp. apply Hp. apply (Henv x l Hx Ho).
  - exact Hnext.
  - rewrite Hw. intros l [].
Qed.
Print Assumptions check_sound.

(* iter_linear_fit-like fragment: xy1 = np.array(xy0); mask = wmask(fresh); xy1[mask] -= c  -> safe;
   with np.asarray (MayAlias) -> rejected *)
Example ok_prog : check [0] [Assign 1 Fresh; Assign 2 Fresh; Assign 3 (Alias [2]); Write 1; Write 3] = true.
Proof. reflexivity. Qed.
Example bad_prog : check [0] [Assign 1 (MayAlias [0]); Write 1] = false.
Proof. reflexivity. Qed.
