(* fit_shifts of tweakwcs.linearfit: weighted mean displacement is the least-squares optimum *)
From Coq Require Import QArith List Lia Lra Lqa Psatz.
Require Import LSQ.
Import ListNotations.
Open Scope Q_scope.

Definition fit_shift (l : list pr) : Q * Q :=
  let sw := sumQ pw l in
  (sumQ (fun p => pw p * (px p - pu p)) l / sw, sumQ (fun p => pw p * (py p - pv p)) l / sw).

Definition ssr_shift (s : Q * Q) (l : list pr) : Q :=
  sumQ (fun p => pw p * ((sq (px p - pu p - fst s)) + (sq (py p - pv p - snd s)))) l.

Theorem fit_shift_optimal l s' :
  (forall p, In p l -> 0 <= pw p) -> 0 < sumQ pw l ->
  ssr_shift (fit_shift l) l <= ssr_shift s' l.
Proof.
  intros Hw Hsw. unfold ssr_shift, fit_shift. cbn [fst snd].
  set (sw := sumQ pw l) in *.
  set (mx := sumQ (fun p => pw p * (px p - pu p)) l / sw).
  set (my := sumQ (fun p => pw p * (py p - pv p)) l / sw).
  destruct s' as [sx sy]. cbn [fst snd].
  (* decomposition: ssr s' = ssr m + sw*((sq (mx-sx))+(sq (my-sy))) + cross terms which vanish *)
  assert (E: sumQ (fun p => pw p * ((sq (px p - pu p - sx)) + (sq (py p - pv p - sy)))) l ==
             sumQ (fun p => pw p * ((sq (px p - pu p - mx)) + (sq (py p - pv p - my)))) l
             + sw * ((sq (mx - sx)) + (sq (my - sy)))).
  { assert (Hx : sumQ (fun p => pw p * (px p - pu p)) l == mx * sw) by (unfold mx; field; intro Hz; rewrite Hz in Hsw; apply (Qlt_irrefl 0 Hsw)).
    assert (Hy : sumQ (fun p => pw p * (py p - pv p)) l == my * sw) by (unfold my; field; intro Hz; rewrite Hz in Hsw; apply (Qlt_irrefl 0 Hsw)).
    rewrite (sumQ_ext _ (fun p => (pw p * ((sq (px p - pu p - mx)) + (sq (py p - pv p - my))))
                + ((2*(mx - sx)) * (pw p * (px p - pu p)) + ((2*(my - sy)) * (pw p * (py p - pv p))
                + (((sq (mx-sx)) + (sq (my-sy)) - 2*(mx-sx)*mx - 2*(my-sy)*my) * pw p))))) by (intros; unfold sq; ring).
    rewrite !sumQ_add, !sumQ_scal. fold sw. rewrite Hx, Hy. unfold sq; ring. }
  rewrite E. assert (0 <= sw * ((sq (mx - sx)) + (sq (my - sy)))) by (apply Qmult_le_0_compat; [lra| pose proof (sq_nonneg (mx-sx)); pose proof (sq_nonneg (my-sy)); lra]). lra.
Qed.
Print Assumptions fit_shift_optimal.

