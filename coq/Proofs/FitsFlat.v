(* FITS corrector in the flat-sky instance, 5-point stencil, shoelace area (C02-FITS, C04-FITS, C18, C20) *)
From Coq Require Import QArith Qcanon.
Open Scope Qc_scope.

(* ---- 5-point first-derivative stencil used by FITSWCSCorrector._linearize ---- *)
(* u = ((f(-h) - f(h)) + 8 (f(h/2) - f(-h/2))) / (6 h) is exact for polynomials up to degree 4 *)
Definition poly4 (c0 c1 c2 c3 c4 x : Qc) : Qc := c0 + c1*x + c2*x*x + c3*x*x*x + c4*x*x*x*x.
Theorem stencil_exact c0 c1 c2 c3 c4 x0 h : h <> 0 ->
  let f := poly4 c0 c1 c2 c3 c4 in
  ((f (x0 - h) - f (x0 + h)) + (1+1+1+1+1+1+1+1) * (f (x0 + h/(1+1)) - f (x0 - h/(1+1)))) / ((1+1+1+1+1+1) * h)
  = c1 + (1+1)*c2*x0 + (1+1+1)*c3*x0*x0 + (1+1+1+1)*c4*x0*x0*x0.
Proof.
  intros Hh f. unfold f, poly4. field. repeat split; try assumption; intro E; discriminate E.
Qed.

(* ---- shoelace area of the image of a unit pixel under an affine map (tanp_pixel_scale) ---- *)
Theorem shoelace_affine j11 j12 j21 j22 t1 t2 x y :
  let X := fun px py => j11 * px + j12 * py + t1 in
  let Y := fun px py => j21 * px + j22 * py + t2 in
  let h := 1 / (1+1) in
  let xt0 := X (x-h) (y-h) in let yt0 := Y (x-h) (y-h) in
  let xt1 := X (x-h) (y+h) in let yt1 := Y (x-h) (y+h) in
  let xt2 := X (x+h) (y+h) in let yt2 := Y (x+h) (y+h) in
  let xt3 := X (x+h) (y-h) in let yt3 := Y (x+h) (y-h) in
  (1/(1+1)) * (xt0*yt1 + xt1*yt2 + xt2*yt3 + xt3*yt0 - xt1*yt0 - xt2*yt1 - xt3*yt2 - xt0*yt3)
  = - (j11 * j22 - j12 * j21).
Proof. intros. unfold xt0, yt0, xt1, yt1, xt2, yt2, xt3, yt3, X, Y, h. field. intro E; discriminate E. Qed.
(* so area = |det J| and pscale^2 = |det J|; the sign only reflects the clockwise listing of the corners *)

(* ---- CD versus PC x CDELT twins (C18): pc' = pc.U  ==>  diag(cdelt).pc' = (diag(cdelt).pc).U ---- *)
Theorem cd_pc_twins d1 d2 p11 p12 p21 p22 u11 u12 u21 u22 :
  let cd11 := d1 * p11 in let cd12 := d1 * p12 in let cd21 := d2 * p21 in let cd22 := d2 * p22 in
  (d1 * (p11*u11 + p12*u21) = cd11*u11 + cd12*u21) /\ (d1 * (p11*u12 + p12*u22) = cd11*u12 + cd12*u22) /\
  (d2 * (p21*u11 + p22*u21) = cd21*u11 + cd22*u21) /\ (d2 * (p21*u12 + p22*u22) = cd21*u12 + cd22*u22).
Proof. intros. unfold cd11, cd12, cd21, cd22. repeat split; ring. Qed.
Print Assumptions stencil_exact.
