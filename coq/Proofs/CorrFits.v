(* FITS corrector model: exactness of set_correction at the reference pixel for every projection family, exactness
   everywhere and composition law in the flat instance, 5-point stencil, record-update facts (C18), _tp2tp on affine
   maps, shoelace area of an affine image (C20) *)
From Coq Require Import QArith Qcanon List Bool Arith Lia.
From Coq Require Qcabs.
From TW Require Import CorrModel CorrAlgebra.
Import ListNotations.
Open Scope Qc_scope.

(* ---------------------------------------------------------------- stencil *)
Definition poly4 (a0 a1 a2 a3 a4 x : Qc) : Qc := a0 + a1*x + a2*x*x + a3*x*x*x + a4*x*x*x*x.
Lemma c8_neq0 : c8 <> 0.  Proof. intro E; discriminate E. Qed.
(* ((f(x0-h) - f(x0+h)) + 8 (f(x0+h/2) - f(x0-h/2))) / (6h) = f'(x0) for every polynomial of degree <= 4 *)
Lemma stencil1_exact a0 a1 a2 a3 a4 x0 h : h <> 0 ->
  let f := poly4 a0 a1 a2 a3 a4 in
  stencil1 (f (x0 - h)) (f (x0 - h * half)) (f (x0 + h * half)) (f (x0 + h)) h
  = a1 + c2*a2*x0 + (c2+1)*a3*x0*x0 + c4*a4*x0*x0*x0.
Proof.
  intros Hh f. unfold f, poly4, stencil1, half, c8, c6, c4, c2. field.
  repeat split; try assumption; intro E; discriminate E.
Qed.
(* a stencil with a wrong coefficient is not exact even on linear functions (non-vacuity of the coefficient 8) *)
Lemma stencil1_linear b0 b1 x0 h : h <> 0 ->
  stencil1 (b0 + b1 * (x0 - h)) (b0 + b1 * (x0 - h * half)) (b0 + b1 * (x0 + h * half)) (b0 + b1 * (x0 + h)) h = b1.
Proof.
  intros Hh. unfold stencil1, half, c8, c6, c4, c2. field. repeat split; try assumption; intro E; discriminate E.
Qed.

(* ---------------------------------------------------------------- _tp2tp on an affine plane-to-plane map *)
Lemma tp2tp_affine G s : s <> 0 -> tp2tp (app G) s = G.
Proof.
  intro Hs. daff G. unfold tp2tp, tp2tp_probe, tp2tp_from_pts. cbn [map]. unf. unfold half, c2. ext; field;
  repeat split; try assumption; intro E; discriminate E.
Qed.

(* ---------------------------------------------------------------- shoelace of an affine image (C20) *)
Lemma qcabs_opp x : Qcabs.Qcabs (- x) = Qcabs.Qcabs x.
Proof. apply Qcabs.Qcabs_opp. Qed.
Lemma pscale_sq_affine (J : mat) (b : pt) x y :
  pscale_sq (fun p : pt => padd (mapp J p) b) (fun c => c) x y = Qcabs.Qcabs (mdet J).
Proof.
  unfold pscale_sq, pixel_corners, shoelace. cbn [map]. dmat J. dpt b. unf.
  match goal with |- half * Qcabs.Qcabs ?e = _ => replace e with (- (c2 * (a * d - b0 * c))) end.
  - rewrite qcabs_opp, Qcabs.Qcabs_Qcmult.
    assert (E : Qcabs.Qcabs c2 = c2) by (apply Qc_is_canon; reflexivity). rewrite E.
    unfold half. field. apply c2_neq0.
  - unfold half, c2. field. intro E; discriminate E.
Qed.

(* ---------------------------------------------------------------- C18: record update *)
Section FitsFacts.
Variable proj : pt -> pt -> pt.
Variable proji : pt -> pt -> pt.
Variables dist disti : pt -> pt.

Local Notation fset := (fset proj proji).
Local Notation t2w := (f_t2w proj).
Local Notation w2t := (f_w2t proji).
Local Notation d2w := (f_d2w proj dist).

(* set_correction changes only CRVAL and the linear matrix *)
Lemma fset_preserves w M s ref :
  let w' := fset w M s ref in
  f_crpix w' = f_crpix w /\ f_cdelt w' = f_cdelt w /\ f_haspc w' = f_haspc w /\ f_naxis w' = f_naxis w /\
  f_ctype w' = f_ctype w /\ f_sip w' = f_sip w /\ f_aux w' = f_aux w.
Proof. unfold fset. cbn. repeat split. Qed.
Lemma frun_preserves h : forall w,
  let w' := frun proj proji w h in
  f_crpix w' = f_crpix w /\ f_cdelt w' = f_cdelt w /\ f_haspc w' = f_haspc w /\ f_naxis w' = f_naxis w /\
  f_ctype w' = f_ctype w /\ f_sip w' = f_sip w /\ f_aux w' = f_aux w.
Proof.
  induction h as [|[M s] r IH]; intro w; [cbn; repeat split|].
  unfold frun. cbn [fold_left fst snd]. fold (frun proj proji (fset w M s None) r).
  destruct (IH (fset w M s None)) as (H1 & H2 & H3 & H4 & H5 & H6 & H7).
  destruct (fset_preserves w M s None) as (G1 & G2 & G3 & G4 & G5 & G6 & G7).
  cbv zeta in *. rewrite H1, H2, H3, H4, H5, H6, H7. repeat split; assumption.
Qed.
(* the new matrix is the old one times U, in either representation; CRVAL is what the reference plane says *)
Lemma fset_lin w M s ref : exists U, f_lin (fset w M s ref) = mmul (f_lin w) U /\ f_cd (fset w M s ref) = mmul (f_cd w) U.
Proof.
  unfold fset. eexists. split; [cbn; reflexivity|].
  unfold f_cd. cbn [with_lin with_crval f_haspc f_cdelt f_lin].
  destruct (f_haspc w); [|reflexivity].
  destruct (f_cdelt w) as [d1 d2]. destruct (f_lin w) as [p11 p12 p21 p22].
  match goal with |- dmul _ (mmul _ ?U) = _ => destruct U as [u11 u12 u21 u22] end.
  unf. ext; ring.
Qed.
(* diag(cdelt).(pc.U) = (diag(cdelt).pc).U *)
Lemma dmul_mmul d p U : dmul d (mmul p U) = mmul (dmul d p) U.
Proof. dpt d. dmat p. dmat U. unf. ext; ring. Qed.

(* ---- exact at the reference pixel, for every projection family with P_c(0) = c *)
Hypothesis proj0 : forall c, proj c (0, 0) = c.
Lemma mapp_zero m : mapp m (0, 0) = (0, 0).
Proof. dmat m. unf. ext; ring. Qed.
Lemma psub_self v : psub v v = (0, 0).
Proof. dpt v. unf. ext; ring. Qed.
Lemma t2w_c0 w : t2w w (f_c0 w) = f_crval w.
Proof. unfold f_t2w. rewrite psub_self, mapp_zero. apply proj0. Qed.
Lemma neg_minv_shift M s v : mdet M <> 0 -> mapp M (psub v (pneg (mapp (minv M) s))) = padd (mapp M v) s.
Proof. intro H. dmat M. dpt s. dpt v. unf. ext; field; exact H. Qed.

Theorem fits_C02_refpix w M s (ref : plane) : mdet M <> 0 ->
  (forall v, p_w2t ref (p_t2w ref v) = v) -> dist (f_c0 w) = f_c0 w ->
  let w' := fset w M s (Some ref) in
  p_w2t ref (d2w w' (f_c0 w)) = padd (mapp M (p_w2t ref (d2w w (f_c0 w)))) s.
Proof.
  intros Hm Hr Hd w'. unfold f_d2w. rewrite Hd.
  assert (E : f_c0 w' = f_c0 w) by reflexivity. rewrite <- E at 1. rewrite !t2w_c0.
  unfold w', fset. cbn [with_lin with_crval f_crval]. rewrite Hr, t2w_c0. apply neg_minv_shift. exact Hm.
Qed.
End FitsFacts.

(* ---------------------------------------------------------------- flat instance: exact everywhere *)
Lemma qc_max1_neq0 x : qc_max 1 x <> 0.
Proof.
  unfold qc_max, qc_leb. destruct (Qle_bool _ _) eqn:E; [|apply one_neq0].
  intro H. subst x. discriminate E.
Qed.
Lemma hstep_neq0 c n : hstep c n <> 0.
Proof. apply qc_max1_neq0. Qed.

(* the stencil applied to an affine map returns its matrix exactly *)
Lemma stencil_U_affine (L : mat) (h0 : pt) x0 y0 hx hy : hx <> 0 -> hy <> 0 ->
  stencil_U (map (fun q => padd (mapp L q) h0) (stencil_pts x0 y0 hx hy)) hx hy = L.
Proof.
  intros Hx Hy. dmat L. dpt h0. unfold stencil_U, stencil_pts. cbn [map nth]. unf.
  ext.
  - rewrite <- (stencil1_linear (b * y0 + x) a x0 hx Hx) at 5. f_equal; ring.
  - rewrite <- (stencil1_linear (a * x0 + x) b y0 hy Hy) at 5. f_equal; ring.
  - rewrite <- (stencil1_linear (d * y0 + y) c x0 hx Hx) at 5. f_equal; ring.
  - rewrite <- (stencil1_linear (c * x0 + y) d y0 hy Hy) at 5. f_equal; ring.
Qed.

Local Notation flset := (fset flat_proj flat_proji).
Local Notation flt2w := (f_t2w flat_proj).
Local Notation flw2t := (f_w2t flat_proji).
Local Notation fld2w := (f_d2w flat_proj).

(* flat conversions are affine maps *)
Definition flat_aff (w : fwcs) : aff := {| amat := f_cd w; ash := psub (f_crval w) (mapp (f_cd w) (f_c0 w)) |}.
Lemma flt2w_aff w v : flt2w w v = app (flat_aff w) v.
Proof.
  unfold f_t2w, flat_proj, flat_aff. destruct (f_cd w) as [a b c d]. destruct (f_crval w) as [r1 r2].
  destruct (f_c0 w) as [p1 p2]. dpt v. unf. ext; ring.
Qed.
Lemma flw2t_aff w s : mdet (f_cd w) <> 0 -> flw2t w s = app (inva (flat_aff w)) s.
Proof.
  intro H. unfold f_w2t, flat_proji, flat_aff. destruct (f_cd w) as [a b c d]. destruct (f_crval w) as [r1 r2].
  destruct (f_c0 w) as [p1 p2]. dpt s. unf. ext; field; exact H.
Qed.
Lemma flat_aff_with_crval w c : f_cd (with_crval w c) = f_cd w /\ f_c0 (with_crval w c) = f_c0 w.
Proof. split; reflexivity. Qed.

(* composition of affine maps as data *)
Definition acomp (B A : aff) : aff := combine_fwd (amat B) (ash B) A.
Lemma app_acomp B A v : app (acomp B A) v = app B (app A v).
Proof. unfold acomp. rewrite app_combine. destruct B; reflexivity. Qed.

(* the map linearised by _linearize, in the flat instance, is affine with matrix  CD^-1 . R . M . R^-1 . CD *)
Definition lin_matrix (cd R M : mat) : mat := mmul (minv cd) (mmul R (mmul M (mmul (minv R) cd))).

(* algebra of the linearised map: it is affine whatever matrices stand for the two inverses (no division needed) *)
Lemma aff_form1 m a b v : padd a (mapp m (psub v b)) = app (mk m (psub a (mapp m b))) v.
Proof. dmat m. dpt a. dpt b. dpt v. unfold mk. unf. ext; ring. Qed.
Lemma aff_form2 m b v : mapp m (psub v b) = app (mk m (pneg (mapp m b))) v.
Proof. dmat m. dpt b. dpt v. unfold mk. unf. ext; ring. Qed.
Lemma app_split G q : app G q = padd (mapp (amat G) q) (app G (0, 0)).
Proof. daff G. dpt q. unf. ext; ring. Qed.
Lemma lin_map_affine_gen (cd ci R Ri M : mat) (c0 r0 crv rcrv cnew sh q : pt) :
  let g := fun q : pt =>
    padd c0 (mapp ci (psub (padd rcrv (mapp R (psub (mapp M (psub (padd r0 (mapp Ri
      (psub (padd crv (mapp cd (psub q c0))) rcrv))) sh)) r0))) cnew)) in
  g q = padd (mapp (mmul ci (mmul R (mmul M (mmul Ri cd)))) q) (g (0, 0)).
Proof.
  intro g.
  set (G := acomp (mk ci (psub c0 (mapp ci cnew))) (acomp (mk R (psub rcrv (mapp R r0)))
            (acomp (mk M (pneg (mapp M sh))) (acomp (mk Ri (psub r0 (mapp Ri rcrv))) (mk cd (psub crv (mapp cd c0))))))).
  assert (E : forall p, g p = app G p).
  { intro p. unfold g, G. rewrite !app_acomp. rewrite <- !aff_form1, <- aff_form2. reflexivity. }
  rewrite !E. rewrite app_split. reflexivity.
Qed.
Lemma lin_map_affine (cd R M : mat) (c0 r0 crv rcrv cnew sh q : pt) :
  let g := fun q : pt =>
    padd c0 (mapp (minv cd) (psub (padd rcrv (mapp R (psub (mapp M (psub (padd r0 (mapp (minv R)
      (psub (padd crv (mapp cd (psub q c0))) rcrv))) sh)) r0))) cnew)) in
  g q = padd (mapp (lin_matrix cd R M) q) (g (0, 0)).
Proof. exact (lin_map_affine_gen cd (minv cd) R (minv R) M c0 r0 crv rcrv cnew sh q). Qed.

Lemma linearize_flat (w : fwcs) (r : fwcs) (c : pt) M sh hx hy :
  mdet (f_cd w) <> 0 -> mdet (f_cd r) <> 0 -> hx <> 0 -> hy <> 0 ->
  linearize flat_proj flat_proji w (with_crval w c) (f_plane flat_proj flat_proji r) M sh hx hy
  = lin_matrix (f_cd w) (f_cd r) M.
Proof.
  intros Hw Hr Hx Hy. unfold linearize, linearize_pts.
  rewrite (map_ext _ (fun q => padd (mapp (lin_matrix (f_cd w) (f_cd r) M) q)
     (f_w2t flat_proji (with_crval w c) (p_t2w (f_plane flat_proj flat_proji r)
        (mapp M (psub (p_w2t (f_plane flat_proj flat_proji r) (f_t2w flat_proj w (0, 0))) sh)))))).
  - apply stencil_U_affine; assumption.
  - intro q. cbn [f_plane p_w2t p_t2w]. unfold f_w2t, f_t2w, flat_proj, flat_proji. cbn [with_crval f_crval].
    change (f_cd (with_crval w c)) with (f_cd w). change (f_c0 (with_crval w c)) with (f_c0 w).
    apply (lin_map_affine (f_cd w) (f_cd r) M (f_c0 w) (f_c0 r) (f_crval w) (f_crval r) c sh q).
Qed.

Lemma f_cd_with_lin w U : f_cd (with_lin w (mmul (f_lin w) U)) = mmul (f_cd w) U.
Proof.
  unfold f_cd. cbn [with_lin f_haspc f_cdelt f_lin]. destruct (f_haspc w); [apply dmul_mmul| reflexivity].
Qed.
Lemma mdet_lin_matrix cd R M : mdet cd <> 0 -> mdet R <> 0 -> mdet (lin_matrix cd R M) = mdet M.
Proof.
  intros H1 H2. unfold lin_matrix. rewrite !mdet_mmul, !mdet_minv by assumption. field. split; assumption.
Qed.

(* what set_correction computes in the flat instance, for a flat reference plane r (r = w when ref_tpwcs is None) *)
Lemma flset_facts w M s (r : fwcs) : mdet (f_cd w) <> 0 -> mdet (f_cd r) <> 0 -> mdet M <> 0 ->
  let w' := flset w M s (Some (f_plane flat_proj flat_proji r)) in
  f_cd w' = mmul (f_cd w) (lin_matrix (f_cd w) (f_cd r) M) /\
  f_crval w' = flt2w r (padd (mapp M (flw2t r (f_crval w))) s) /\ f_c0 w' = f_c0 w.
Proof.
  intros Hw Hr Hm w'. unfold w', fset. cbn [f_plane p_w2t p_t2w].
  rewrite f_cd_with_lin. change (f_cd (with_crval w ?c)) with (f_cd w).
  rewrite linearize_flat by (try assumption; apply hstep_neq0).
  split; [reflexivity|]. split; [|reflexivity].
  cbn [with_lin with_crval f_crval]. f_equal.
  assert (E : flt2w w (f_c0 w) = f_crval w).
  { unfold f_t2w, flat_proj. rewrite psub_self, mapp_zero. destruct (f_crval w) as [a b]. unf. ext; ring. }
  rewrite E. apply neg_minv_shift. exact Hm.
Qed.

(* C02 for FITS in the flat instance: exact at every position, in the reference plane *)
Lemma flat_C02_algebra_gen (X R Ri M cd : mat) (c0 r0 crv rcrv s v : pt) : X = mmul R (mmul M (mmul Ri cd)) ->
  padd (padd rcrv (mapp R (psub (padd (mapp M (padd r0 (mapp Ri (psub crv rcrv)))) s) r0))) (mapp X (psub v c0))
  = padd rcrv (mapp R (psub (padd (mapp M (padd r0 (mapp Ri (psub (padd crv (mapp cd (psub v c0))) rcrv)))) s) r0)).
Proof.
  intros ->. dmat cd. dmat R. dmat Ri. dmat M. dpt c0. dpt r0. dpt crv. dpt rcrv. dpt s. dpt v.
  unfold mmul, mapp, padd, psub. cbn [fst snd m11 m12 m21 m22]. ext; ring.
Qed.
Lemma flat_C02_algebra (cd R M : mat) (c0 r0 crv rcrv s v : pt) : mdet cd <> 0 -> mdet R <> 0 ->
  padd (padd rcrv (mapp R (psub (padd (mapp M (padd r0 (mapp (minv R) (psub crv rcrv)))) s) r0)))
       (mapp (mmul cd (lin_matrix cd R M)) (psub v c0))
  = padd rcrv (mapp R (psub (padd (mapp M (padd r0 (mapp (minv R) (psub (padd crv (mapp cd (psub v c0))) rcrv)))) s) r0)).
Proof.
  intros H1 H2. apply flat_C02_algebra_gen. unfold lin_matrix.
  rewrite mmul_assoc, mmul_minv_r by exact H1. apply mmul_id_l.
Qed.

Theorem fits_flat_C02 w M s (r : fwcs) : mdet (f_cd w) <> 0 -> mdet (f_cd r) <> 0 -> mdet M <> 0 ->
  let w' := flset w M s (Some (f_plane flat_proj flat_proji r)) in
  forall v, flt2w w' v = flt2w r (padd (mapp M (flw2t r (flt2w w v))) s).
Proof.
  intros Hw Hr Hm w' v. destruct (flset_facts w M s r Hw Hr Hm) as (E1 & E2 & E3). fold w' in E1, E2, E3.
  unfold f_t2w at 1. rewrite E1, E2, E3. unfold f_t2w, f_w2t, flat_proj, flat_proji.
  apply (flat_C02_algebra (f_cd w) (f_cd r) M (f_c0 w) (f_c0 r) (f_crval w) (f_crval r) s v Hw Hr).
Qed.
Lemma flw2t_t2w w v : mdet (f_cd w) <> 0 -> flw2t w (flt2w w v) = v.
Proof. intro H. rewrite flw2t_aff by exact H. rewrite flt2w_aff. apply inva_l. exact H. Qed.
Lemma flt2w_w2t w s : mdet (f_cd w) <> 0 -> flt2w w (flw2t w s) = s.
Proof. intro H. rewrite flw2t_aff by exact H. rewrite flt2w_aff. apply inva_r. exact H. Qed.

Theorem fits_flat_C02_det w M s (r : fwcs) (dist : pt -> pt) : mdet (f_cd w) <> 0 -> mdet (f_cd r) <> 0 -> mdet M <> 0 ->
  let w' := flset w M s (Some (f_plane flat_proj flat_proji r)) in
  forall p, flw2t r (fld2w dist w' p) = padd (mapp M (flw2t r (fld2w dist w p))) s.
Proof.
  intros Hw Hr Hm w' p. unfold f_d2w. unfold w'. rewrite (fits_flat_C02 w M s r Hw Hr Hm). apply flw2t_t2w. exact Hr.
Qed.

(* own plane (ref_tpwcs = None): the new plane-to-sky map is the old one after (M, s) *)
Lemma flset_none w M s : flset w M s None = flset w M s (Some (f_plane flat_proj flat_proji w)).
Proof. reflexivity. Qed.
Theorem fits_flat_own w M s : mdet (f_cd w) <> 0 -> mdet M <> 0 ->
  (forall v, flt2w (flset w M s None) v = flt2w w (padd (mapp M v) s)) /\ mdet (f_cd (flset w M s None)) <> 0.
Proof.
  intros Hw Hm. rewrite flset_none. split.
  - intro v. rewrite (fits_flat_C02 w M s w Hw Hw Hm). rewrite flw2t_t2w by exact Hw. reflexivity.
  - destruct (flset_facts w M s w Hw Hw Hm) as (E1 & _). rewrite E1, mdet_mmul, mdet_lin_matrix by assumption.
    intro E. apply Qcmult_integral in E. destruct E; contradiction.
Qed.

(* C04 for FITS: in the corrector's own plane (fixed on the detector) two corrections compose as (M1.M2, M1.s2 + s1) *)
Theorem fits_flat_C04_compose w M1 s1 M2 s2 : mdet (f_cd w) <> 0 -> mdet M1 <> 0 -> mdet M2 <> 0 ->
  forall v, flt2w (flset (flset w M1 s1 None) M2 s2 None) v = flt2w (flset w (mmul M1 M2) (padd (mapp M1 s2) s1) None) v.
Proof.
  intros Hw H1 H2 v. destruct (fits_flat_own w M1 s1 Hw H1) as [E1 D1].
  destruct (fits_flat_own _ M2 s2 D1 H2) as [E2 _].
  assert (H12 : mdet (mmul M1 M2) <> 0) by (rewrite mdet_mmul; intro E; apply Qcmult_integral in E; destruct E; contradiction).
  destruct (fits_flat_own w _ (padd (mapp M1 s2) s1) Hw H12) as [E12 _].
  rewrite E2, E1, E12. f_equal. dmat M1. dmat M2. dpt s1. dpt s2. dpt v. unf. ext; ring.
Qed.
Theorem fits_flat_C04_identity w : mdet (f_cd w) <> 0 -> forall v, flt2w (flset w mid (0, 0) None) v = flt2w w v.
Proof.
  intros Hw v. destruct (fits_flat_own w mid (0, 0) Hw) as [E _]; [rewrite mdet_mid; apply one_neq0|].
  rewrite E. f_equal. rewrite mapp_mid. dpt v. unf. ext; ring.
Qed.
(* own plane on the detector: (M, s) is undone by (M^-1, -M^-1 s) *)
Theorem fits_flat_C04_inverse w M s : mdet (f_cd w) <> 0 -> mdet M <> 0 ->
  forall v, flt2w (flset (flset w M s None) (minv M) (pneg (mapp (minv M) s)) None) v = flt2w w v.
Proof.
  intros Hw Hm v. destruct (fits_flat_own w M s Hw Hm) as [E1 D1].
  assert (Hi : mdet (minv M) <> 0).
  { rewrite mdet_minv by exact Hm. intro E. assert (X1 : mdet M * / mdet M = 1) by (field; exact Hm).
    rewrite E, Qcmult_0_r in X1. discriminate X1. }
  destruct (fits_flat_own _ (minv M) (pneg (mapp (minv M) s)) D1 Hi) as [E2 _].
  rewrite E2, E1. f_equal. dmat M. dpt s. dpt v. unf. ext; field; exact Hm.
Qed.


(* the group laws of the FITS corrector in its own plane, flat instance *)
Theorem fits_flat_C04_group w : mdet (f_cd w) <> 0 ->
  (forall v, flt2w (flset w mid (0, 0) None) v = flt2w w v) /\
  (forall M s, mdet M <> 0 ->
     forall v, flt2w (flset (flset w M s None) (minv M) (pneg (mapp (minv M) s)) None) v = flt2w w v) /\
  (forall M1 s1 M2 s2, mdet M1 <> 0 -> mdet M2 <> 0 ->
     forall v, flt2w (flset (flset w M1 s1 None) M2 s2 None) v = flt2w (flset w (mmul M1 M2) (padd (mapp M1 s2) s1) None) v).
Proof.
  intro Hw. split; [apply fits_flat_C04_identity; exact Hw|]. split.
  - intros M s Hm. apply fits_flat_C04_inverse; assumption.
  - intros M1 s1 M2 s2 H1 H2. apply fits_flat_C04_compose; assumption.
Qed.

(* histories: after any list of regular corrections the linear part stays regular and the own-plane map is the
   composition taken in the FITS order *)
Fixpoint fits_total (h : list (mat * pt)) : aff :=
  match h with [] => idaff | (M, s) :: r => acomp (mk M s) (fits_total r) end.
Theorem fits_flat_history h : forall w, mdet (f_cd w) <> 0 -> Forall (fun ms => mdet (fst ms) <> 0) h ->
  (forall v, flt2w (frun flat_proj flat_proji w h) v = flt2w w (app (fits_total h) v)) /\
  mdet (f_cd (frun flat_proj flat_proji w h)) <> 0.
Proof.
  induction h as [|[M s] r IH]; intros w Hw Hh.
  - split; [intro v; simpl; rewrite app_idaff; reflexivity| exact Hw].
  - apply Forall_cons_iff in Hh. destruct Hh as [Hm Hr]. cbn [fst] in Hm.
    destruct (fits_flat_own w M s Hw Hm) as [E1 D1].
    unfold frun. cbn [fold_left fst snd]. fold (frun flat_proj flat_proji (flset w M s None) r).
    destruct (IH _ D1 Hr) as [E2 D2]. split; [|exact D2].
    intro v. rewrite E2, E1. cbn [fits_total]. rewrite app_acomp. reflexivity.
Qed.

(* ---------------------------------------------------------------- C18: CD and PC+CDELT twins, every projection *)
Section Twins.
Variable proj : pt -> pt -> pt.
Variable proji : pt -> pt -> pt.
Theorem fits_twins a b M s : f_cd a = f_cd b -> f_crval a = f_crval b -> f_crpix a = f_crpix b -> f_naxis a = f_naxis b ->
  f_cd (fset proj proji a M s None) = f_cd (fset proj proji b M s None) /\
  f_crval (fset proj proji a M s None) = f_crval (fset proj proji b M s None) /\
  forall v, f_t2w proj (fset proj proji a M s None) v = f_t2w proj (fset proj proji b M s None) v.
Proof.
  intros E1 E2 E3 E4.
  assert (E5 : f_c0 a = f_c0 b) by (unfold f_c0; rewrite E3; reflexivity).
  assert (A : f_cd (fset proj proji a M s None) = f_cd (fset proj proji b M s None) /\
              f_crval (fset proj proji a M s None) = f_crval (fset proj proji b M s None)).
  { unfold fset. rewrite !f_cd_with_lin. cbn [with_lin with_crval f_crval].
    change (f_cd (with_crval a ?c)) with (f_cd a). change (f_cd (with_crval b ?c)) with (f_cd b).
    unfold linearize, linearize_pts. cbn [f_plane p_w2t p_t2w]. unfold f_w2t, f_t2w.
    cbn [with_crval f_crval]. change (f_cd (with_crval a ?c)) with (f_cd a). change (f_cd (with_crval b ?c)) with (f_cd b).
    change (f_c0 (with_crval a ?c)) with (f_c0 a). change (f_c0 (with_crval b ?c)) with (f_c0 b).
    rewrite E1, E2, E3, E4, E5. split; reflexivity. }
  destruct A as [A1 A2]. split; [exact A1|]. split; [exact A2|].
  intro v. unfold f_t2w. rewrite A1, A2.
  change (f_c0 (fset proj proji a M s None)) with (f_c0 a). change (f_c0 (fset proj proji b M s None)) with (f_c0 b).
  rewrite E5. reflexivity.
Qed.
End Twins.

(* ---------------------------------------------------------------- C03 for the FITS corrector *)
Section FitsC03.
Variable proj : pt -> pt -> pt.
Variable proji : pt -> pt -> pt.
Variables dist disti : pt -> pt.
Hypothesis proji_proj : forall c v, proji c (proj c v) = v.
Hypothesis proj_proji : forall c s, proj c (proji c s) = s.
Hypothesis disti_dist : forall p, disti (dist p) = p.
Hypothesis dist_disti : forall v, dist (disti v) = v.

Lemma padd_psub a b : padd a (psub b a) = b.
Proof. dpt a. dpt b. unf. ext; ring. Qed.
Lemma psub_padd a b : psub (padd a b) a = b.
Proof. dpt a. dpt b. unf. ext; ring. Qed.

(* every state with a regular linear matrix: the six conversions are mutual inverses and commute *)
Theorem fits_C03_any_state w : mdet (f_cd w) <> 0 ->
  (forall p, f_w2d proji disti w (f_d2w proj dist w p) = p) /\ (forall s, f_d2w proj dist w (f_w2d proji disti w s) = s) /\
  (forall p, f_t2d disti w (f_d2t dist w p) = p) /\ (forall v, f_d2t dist w (f_t2d disti w v) = v) /\
  (forall s, f_t2w proj w (f_w2t proji w s) = s) /\ (forall v, f_w2t proji w (f_t2w proj w v) = v) /\
  (forall p, f_t2w proj w (f_d2t dist w p) = f_d2w proj dist w p) /\
  (forall p, f_w2t proji w (f_d2w proj dist w p) = f_d2t dist w p).
Proof.
  intro H.
  assert (A : forall v, f_w2t proji w (f_t2w proj w v) = v).
  { intro v. unfold f_w2t, f_t2w. rewrite proji_proj, minv_l by exact H. apply padd_psub. }
  assert (B : forall s, f_t2w proj w (f_w2t proji w s) = s).
  { intro s. unfold f_w2t, f_t2w. rewrite psub_padd, minv_r by exact H. apply proj_proji. }
  unfold f_w2d, f_d2w, f_t2d, f_d2t. repeat split; intros; rewrite ?A, ?B, ?disti_dist, ?dist_disti, ?A, ?B; reflexivity.
Qed.
End FitsC03.

(* flat instance: the invariant "linear matrix regular" holds after every history, so C03 holds in every reachable state *)
Theorem fits_flat_C03_every_history h w (dist disti : pt -> pt) :
  mdet (f_cd w) <> 0 -> Forall (fun ms => mdet (fst ms) <> 0) h ->
  (forall p, disti (dist p) = p) -> (forall v, dist (disti v) = v) ->
  let w' := frun flat_proj flat_proji w h in
  (forall p, f_w2d flat_proji disti w' (f_d2w flat_proj dist w' p) = p) /\
  (forall s, f_d2w flat_proj dist w' (f_w2d flat_proji disti w' s) = s) /\
  (forall p, f_t2d disti w' (f_d2t dist w' p) = p) /\ (forall v, f_d2t dist w' (f_t2d disti w' v) = v) /\
  (forall s, f_t2w flat_proj w' (f_w2t flat_proji w' s) = s) /\ (forall v, f_w2t flat_proji w' (f_t2w flat_proj w' v) = v) /\
  (forall p, f_t2w flat_proj w' (f_d2t dist w' p) = f_d2w flat_proj dist w' p) /\
  (forall p, f_w2t flat_proji w' (f_d2w flat_proj dist w' p) = f_d2t dist w' p).
Proof.
  intros Hw Hh H1 H2 w'. destruct (fits_flat_history h w Hw Hh) as [_ D].
  apply fits_C03_any_state; try assumption.
  - intros c v. unfold flat_proj, flat_proji. apply psub_padd.
  - intros c s. unfold flat_proj, flat_proji. apply padd_psub.
Qed.

(* ---------------------------------------------------------------- C20, FITS: corrections do not touch det -> tanp *)
Lemma fits_C20_unchanged (proj proji : pt -> pt -> pt) (dist : pt -> pt) w M s ref x y :
  pscale_sq (f_d2t dist (fset proj proji w M s ref)) (fun c => c) x y = pscale_sq (f_d2t dist w) (fun c => c) x y.
Proof. reflexivity. Qed.
(* undistorted FITS WCS: the tangent plane is the pixel grid, scale 1 *)
Lemma fits_C20_undistorted w x y : pscale_sq (f_d2t (fun p => p) w) (fun c => c) x y = 1.
Proof.
  assert (E := pscale_sq_affine mid (0, 0) x y). rewrite mdet_mid in E.
  assert (E1 : Qcabs.Qcabs 1 = 1) by (apply Qc_is_canon; reflexivity). rewrite E1 in E. rewrite <- E.
  unfold pscale_sq, pixel_corners, f_d2t. cbn [map]. rewrite !mapp_mid. unfold padd. cbn [fst snd].
  rewrite !Qcplus_0_r. reflexivity.
Qed.
(* the scale composes with a further affine map of the plane: area scales by |det M| for any four corner images *)
Lemma shoelace_scales M s q0 q1 q2 q3 :
  shoelace (padd (mapp M q0) s) (padd (mapp M q1) s) (padd (mapp M q2) s) (padd (mapp M q3) s)
  = Qcabs.Qcabs (mdet M) * shoelace q0 q1 q2 q3.
Proof.
  unfold shoelace. rewrite Qcmult_assoc, (Qcmult_comm (Qcabs.Qcabs (mdet M)) half), <- Qcmult_assoc. f_equal.
  rewrite <- Qcabs.Qcabs_Qcmult. f_equal.
  dmat M. dpt s. dpt q0. dpt q1. dpt q2. dpt q3. unf. ring.
Qed.
