(* C02/C03/C04: algebra of tangent-plane corrections of a JWST gWCS (after repair F7), over Qc *)
From Coq Require Import QArith Qcanon List.
Import ListNotations.
Open Scope Qc_scope.

Definition pt := (Qc * Qc)%type.
Record aff := { a11 : Qc; a12 : Qc; a21 : Qc; a22 : Qc; b1 : Qc; b2 : Qc }.
Definition app (A : aff) (v : pt) : pt :=
  (a11 A * fst v + a12 A * snd v + b1 A, a21 A * fst v + a22 A * snd v + b2 A).
(* _tpcorr_combine_affines: m = M.m0, t = M.t0 + s *)
Definition comp (B A : aff) : aff :=
  {| a11 := a11 B * a11 A + a12 B * a21 A; a12 := a11 B * a12 A + a12 B * a22 A;
     a21 := a21 B * a11 A + a22 B * a21 A; a22 := a21 B * a12 A + a22 B * a22 A;
     b1 := a11 B * b1 A + a12 B * b2 A + b1 B; b2 := a21 B * b1 A + a22 B * b2 A + b2 B |}.
Definition idaff : aff := {| a11 := 1; a12 := 0; a21 := 0; a22 := 1; b1 := 0; b2 := 0 |}.
Definition det (A : aff) : Qc := a11 A * a22 A - a12 A * a21 A.
(* invm = inv(m); translation = -invm.t *)
Definition inva (A : aff) : aff :=
  let d := det A in
  {| a11 := a22 A / d; a12 := - a12 A / d; a21 := - a21 A / d; a22 := a11 A / d;
     b1 := - (a22 A / d * b1 A + - a12 A / d * b2 A); b2 := - (- a21 A / d * b1 A + a11 A / d * b2 A) |}.

Lemma app_comp B A v : app (comp B A) v = app B (app A v).
Proof. unfold app, comp; cbn [a11 a12 a21 a22 b1 b2 fst snd]. f_equal; ring. Qed.
Lemma app_id v : app idaff v = v.
Proof. destruct v. unfold app, idaff; cbn [a11 a12 a21 a22 b1 b2 fst snd]. f_equal; ring. Qed.
Lemma det_comp B A : det (comp B A) = det B * det A.
Proof. unfold det, comp; cbn [a11 a12 a21 a22 b1 b2]. ring. Qed.
Lemma inva_l A v : det A <> 0 -> app (inva A) (app A v) = v.
Proof. intros H. destruct v as [x y]. unfold app, inva, det in *; cbn [a11 a12 a21 a22 b1 b2 fst snd]. f_equal; field; exact H. Qed.
Lemma inva_r A v : det A <> 0 -> app A (app (inva A) v) = v.
Proof. intros H. destruct v as [x y]. unfold app, inva, det in *; cbn [a11 a12 a21 a22 b1 b2 fst snd]. f_equal; field; exact H. Qed.
Lemma comp_assoc C B A v : app (comp C (comp B A)) v = app (comp (comp C B) A) v.
Proof. rewrite !app_comp. reflexivity. Qed.

Section GWCS.
Variables Det V Sky : Type.
Variable D : Det -> V.            (* detector -> v2v3 (distortion etc.) *)
Variable T : V -> pt.             (* v2v3 -> tangent plane (unit conversion, rotation, gnomonic) *)
Variable Ti : pt -> V.
Variable S : V -> Sky.            (* v2v3corr -> world *)
Variable Si : Sky -> V.
Hypothesis T_Ti : forall t, T (Ti t) = t.
Hypothesis Ti_T : forall v, Ti (T v) = v.
Hypothesis S_Si : forall w, S (Si w) = w.
Hypothesis Si_S : forall v, Si (S v) = v.

(* corrector state = accumulated affine; conversions after repair F7 *)
Definition d2w (A : aff) (p : Det) : Sky := S (Ti (app A (T (D p)))).
Definition d2t (A : aff) (p : Det) : pt := app A (T (D p)).
Definition w2t (A : aff) (w : Sky) : pt := T (Si w).
Definition t2w (A : aff) (t : pt) : Sky := S (Ti t).
Definition set_correction (A : aff) (M : aff) : aff := comp M A.
Definition history (hs : list aff) : aff := fold_left set_correction hs idaff.

(* C02 (gWCS, own plane), in every state *)
Theorem C02_gwcs A M p : w2t A (d2w (set_correction A M) p) = app M (d2t A p).
Proof. unfold w2t, d2w, d2t, set_correction. rewrite Si_S, T_Ti, app_comp. reflexivity. Qed.

(* C03: coherence of the conversions, in every state *)
Theorem C03_triangle A p : t2w A (d2t A p) = d2w A p.
Proof. reflexivity. Qed.
Theorem C03_w2t_t2w A t : w2t A (t2w A t) = t.
Proof. unfold w2t, t2w. rewrite Si_S, T_Ti. reflexivity. Qed.
Theorem C03_t2w_w2t A w : t2w A (w2t A w) = w.
Proof. unfold w2t, t2w. rewrite Ti_T, S_Si. reflexivity. Qed.

(* C04: identity, inverse and composition laws; invertibility is preserved along histories *)
Theorem C04_identity A p : d2w (set_correction A idaff) p = d2w A p.
Proof. unfold d2w, set_correction. rewrite app_comp, app_id. reflexivity. Qed.
Theorem C04_inverse A M p : det M <> 0 ->
  d2w (set_correction (set_correction A M) (inva M)) p = d2w A p.
Proof. intros H. unfold d2w, set_correction. rewrite !app_comp, inva_l by exact H. reflexivity. Qed.
Theorem C04_compose A M1 M2 p :
  d2w (set_correction (set_correction A M1) M2) p = d2w (set_correction A (comp M2 M1)) p.
Proof. unfold d2w, set_correction. rewrite !app_comp. reflexivity. Qed.
Lemma history_det hs : forall A, det A <> 0 -> (forall M, In M hs -> det M <> 0) ->
  det (fold_left set_correction hs A) <> 0.
Proof.
  induction hs as [|M hs IH]; intros A HA Hs; simpl; [exact HA|].
  apply IH.
  - unfold set_correction. rewrite det_comp. intro E.
    apply Qcmult_integral in E. destruct E; [apply (Hs M); [left; reflexivity| assumption]| contradiction].
  - intros; apply Hs; right; assumption.
Qed.

(* legacy conversions (before F7): tangent plane taken from the corrected frame, affine applied again *)
Definition d2t_legacy (A : aff) (p : Det) : pt := app A (T (Ti (app A (T (D p))))).
Definition w2t_legacy (A : aff) (w : Sky) : pt := app A (T (Si w)).
End GWCS.

(* the legacy identity fails as soon as A and M do not commute *)
Example C02_refuted_before_fix : exists (A M : aff) (v : pt),
  w2t_legacy pt pt (fun t => t) (fun w => w) A
     (d2w pt pt pt (fun p => p) (fun v => v) (fun t => t) (fun v => v) (set_correction A M) v)
  <> app M (d2t_legacy pt pt (fun p => p) (fun v => v) (fun t => t) A v).
Proof.
  exists {| a11 := 1; a12 := 1; a21 := 0; a22 := 1; b1 := 0; b2 := 0 |},
         {| a11 := 1; a12 := 0; a21 := 1; a22 := 1; b1 := 0; b2 := 0 |}, (1, 0).
  vm_compute. intro H. inversion H.
Qed.
Print Assumptions C02_gwcs.
Print Assumptions C04_inverse.
