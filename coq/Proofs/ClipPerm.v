(* C08: the sigma-clipping loop commutes with a relabelling of the point pairs *)
From Coq Require Import List Bool Arith Lia Permutation.
From TW Require Import Clip.
Import ListNotations.

Definition perm_mask (pi : list nat) (m : mask) : mask := map (fun j => nth j m false) pi.

Lemma meqb_true_iff a : forall b, meqb a b = true <-> a = b.
Proof.
  induction a as [|x a IH]; intros [|y b]; simpl; split; intros H; try discriminate; try reflexivity.
  - apply andb_true_iff in H. destruct H as [H1 H2]. apply eqb_prop in H1. apply IH in H2. subst. reflexivity.
  - injection H as -> ->. rewrite eqb_reflx. simpl. apply IH. reflexivity.
Qed.

Lemma map_nth_seq_id (m : mask) : map (fun j => nth j m false) (seq 0 (length m)) = m.
Proof.
  induction m as [|x m IH]; simpl; [reflexivity|]. f_equal.
  rewrite <- seq_shift, map_map. exact IH.
Qed.

Section Perm.
Variable n : nat.
Variable pi : list nat.
Hypothesis Hpi : Permutation pi (seq 0 n).

Lemma pi_length : length pi = n.
Proof. rewrite (Permutation_length Hpi). apply seq_length. Qed.
Lemma pi_lt j : In j pi -> j < n.
Proof. intros H. apply (Permutation_in j Hpi) in H. apply in_seq in H. lia. Qed.
Lemma pi_onto j : j < n -> In j pi.
Proof. intros H. apply (Permutation_in j (Permutation_sym Hpi)). apply in_seq. lia. Qed.

Lemma perm_mask_length m : length (perm_mask pi m) = n.
Proof. unfold perm_mask. rewrite map_length. apply pi_length. Qed.

Lemma count_perm m : length m = n -> count (perm_mask pi m) = count m.
Proof.
  intros Hm. unfold count, perm_mask.
  assert (P: Permutation (map (fun j => nth j m false) pi) m).
  { pose proof (Permutation_map (fun j => nth j m false) Hpi) as P0.
    rewrite <- Hm in P0. rewrite map_nth_seq_id in P0. exact P0. }
  apply Permutation_length. 
  clear -P. induction P as [| x l l' _ IH | x y l | l l' l'' _ IH1 _ IH2]; simpl.
  - constructor.
  - destruct x; [apply perm_skip|]; exact IH.
  - destruct x, y; apply Permutation_refl.
  - eapply Permutation_trans; eassumption.
Qed.

Lemma mand_perm a b : perm_mask pi (mand a b) = mand (perm_mask pi a) (perm_mask pi b).
Proof.
  unfold perm_mask. generalize pi as l. induction l as [|j l IH]; simpl; [reflexivity|].
  rewrite nth_mand. unfold mand in *. simpl. f_equal. exact IH.
Qed.

Lemma perm_mask_inj a b : length a = n -> length b = n -> perm_mask pi a = perm_mask pi b -> a = b.
Proof.
  intros Ha Hb H.
  apply (nth_ext a b false false); [lia|]. intros j Hj. rewrite Ha in Hj.
  pose proof (pi_onto j Hj) as Hin. apply In_nth with (d := 0) in Hin. destruct Hin as [k [Hk Ek]].
  assert (E: nth k (perm_mask pi a) false = nth k (perm_mask pi b) false) by (rewrite H; reflexivity).
  unfold perm_mask in E.
  rewrite (nth_indep _ false (nth 0 a false)) in E by (rewrite map_length; exact Hk).
  rewrite (nth_indep (map _ pi) false (nth 0 b false)) in E by (rewrite map_length; exact Hk).
  rewrite (map_nth (fun j => nth j a false) pi 0 k) in E.
  rewrite (map_nth (fun j => nth j b false) pi 0 k) in E.
  rewrite Ek in E. exact E.
Qed.

Lemma meqb_perm a b : length a = n -> length b = n -> meqb (perm_mask pi a) (perm_mask pi b) = meqb a b.
Proof.
  intros Ha Hb. destruct (meqb a b) eqn:E.
  - apply meqb_true_iff in E. subst. apply meqb_true_iff. reflexivity.
  - destruct (meqb (perm_mask pi a) (perm_mask pi b)) eqn:E'; [|reflexivity].
    apply meqb_true_iff in E'. apply (perm_mask_inj a b Ha Hb) in E'. subst.
    assert (meqb b b = true) by (apply meqb_true_iff; reflexivity). congruence.
Qed.

Variable fitres : Type.
Variables fit fit' : mask -> fitres.
Variables below below' : fitres -> nat -> bool.
Variable minobj : nat.
(* the relabelled problem: position k holds the pair that was at position (nth k pi) *)
Hypothesis Hfit : forall m, length m = n -> fit' (perm_mask pi m) = fit m.
Hypothesis Hbelow : forall r k, k < n -> below' r k = below r (nth k pi 0).

Lemma belowmask_perm r : belowmask n fitres below' r = perm_mask pi (belowmask n fitres below r).
Proof.
  unfold belowmask, perm_mask.
  apply (nth_ext _ _ false false).
  - rewrite !map_length, seq_length. symmetry. apply pi_length.
  - intros k Hk. rewrite map_length, seq_length in Hk.
    rewrite (nth_indep _ false (below' r 0)) by (rewrite map_length, seq_length; exact Hk).
    rewrite map_nth, seq_nth by exact Hk. simpl.
    rewrite (nth_indep (map _ pi) false (nth 0 (map (below r) (seq 0 n)) false))
      by (rewrite map_length, pi_length; exact Hk).
    rewrite (map_nth (fun j => nth j (map (below r) (seq 0 n)) false) pi 0 k).
    assert (Hj: nth k pi 0 < n) by (apply pi_lt, nth_In; rewrite pi_length; exact Hk).
    rewrite (nth_indep _ false (below r 0)) by (rewrite map_length, seq_length; exact Hj).
    rewrite map_nth, seq_nth by exact Hj. simpl. apply Hbelow. exact Hk.
Qed.

Definition pstate (s : cstate fitres) : cstate fitres :=
  {| cm := perm_mask pi (cm fitres s); cf := cf fitres s; ceff := ceff fitres s |}.

Lemma mand_length' a b : length a = n -> length b = n -> length (mand a b) = n.
Proof. intros Ha Hb. unfold mand. rewrite map_length, combine_length. lia. Qed.

Lemma step_perm wmask accum s : length wmask = n -> length (cm fitres s) = n ->
  clip_step n fitres fit' below' minobj (perm_mask pi wmask) accum (pstate s)
  = option_map pstate (clip_step n fitres fit below minobj wmask accum s).
Proof.
  intros Hw Hm. unfold clip_step. cbn [pstate cm cf ceff].
  rewrite belowmask_perm.
  set (tested := if accum then cm fitres s else wmask).
  assert (Ht: (if accum then perm_mask pi (cm fitres s) else perm_mask pi wmask) = perm_mask pi tested)
    by (unfold tested; destruct accum; reflexivity).
  rewrite Ht. rewrite <- mand_perm.
  set (new := mand tested (belowmask n fitres below (cf fitres s))).
  assert (Hn: length new = n).
  { unfold new. apply mand_length'.
    - unfold tested; destruct accum; assumption.
    - unfold belowmask. rewrite map_length, seq_length. reflexivity. }
  rewrite (count_perm new Hn), (meqb_perm new (cm fitres s) Hn Hm).
  destruct ((count new <? minobj) || meqb new (cm fitres s)); cbn [option_map]; [reflexivity|].
  unfold pstate; cbn [cm cf ceff]. rewrite (Hfit new Hn). reflexivity.
Qed.

Lemma step_length wmask accum s s' : length wmask = n -> length (cm fitres s) = n ->
  clip_step n fitres fit below minobj wmask accum s = Some s' -> length (cm fitres s') = n.
Proof.
  intros Hw Hm H. unfold clip_step in H. destruct (_ || _); [discriminate|]. injection H as <-. cbn [cm].
  apply mand_length'.
  - destruct accum; assumption.
  - unfold belowmask. rewrite map_length, seq_length. reflexivity.
Qed.

(* the whole loop commutes with the relabelling: the retained set of the relabelled problem is the
   relabelled retained set, the fit and eff_nclip are the same *)
Theorem loop_perm wmask accum fuel : forall s, length wmask = n -> length (cm fitres s) = n ->
  clip_loop n fitres fit' below' minobj (perm_mask pi wmask) accum fuel (pstate s)
  = pstate (clip_loop n fitres fit below minobj wmask accum fuel s).
Proof.
  induction fuel as [|f IH]; intros s Hw Hm; simpl; [reflexivity|].
  rewrite (step_perm wmask accum s Hw Hm).
  destruct (clip_step n fitres fit below minobj wmask accum s) as [s'|] eqn:E; cbn [option_map]; [|reflexivity].
  apply IH; [exact Hw|]. exact (step_length wmask accum s s' Hw Hm E).
Qed.

Theorem iter_fit_perm wmask accum nclip : length wmask = n ->
  iter_fit n fitres fit' below' minobj (perm_mask pi wmask) accum nclip
  = pstate (iter_fit n fitres fit below minobj wmask accum nclip).
Proof.
  intros Hw. unfold iter_fit. rewrite (count_perm wmask Hw).
  rewrite <- (Hfit wmask Hw).
  change {| cm := perm_mask pi wmask; cf := fit' (perm_mask pi wmask); ceff := 0 |}
    with (pstate {| cm := wmask; cf := fit' (perm_mask pi wmask); ceff := 0 |}).
  rewrite (Hfit wmask Hw).
  apply loop_perm; [exact Hw| exact Hw].
Qed.
End Perm.
Print Assumptions iter_fit_perm.
