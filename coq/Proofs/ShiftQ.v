From Coq Require Import QArith List Lia Lra Lqa Psatz.
Import ListNotations.
Open Scope Q_scope.

(* a point pair with weight *)
Record pt := { px : Q; py : Q; pu : Q; pv : Q; pw : Q }.

Definition sq (x:Q) := x*x.
Lemma sq_nonneg x : 0 <= sq x. Proof. unfold sq. nra. Qed.
Definition sumQ (f : pt -> Q) (l : list pt) : Q := fold_right (fun p a => f p + a) 0 l.

Lemma sumQ_add f g l : sumQ (fun p => f p + g p) l == sumQ f l + sumQ g l.
Proof. induction l as [|p l IH]; simpl; [ring| rewrite IH; ring]. Qed.
Lemma sumQ_scal c f l : sumQ (fun p => c * f p) l == c * sumQ f l.
Proof. induction l as [|p l IH]; simpl; [ring| rewrite IH; ring]. Qed.
Lemma sumQ_ext f g l : (forall p, In p l -> f p == g p) -> sumQ f l == sumQ g l.
Proof. induction l as [|p l IH]; simpl; intros H; [reflexivity|].
  rewrite (H p) by auto. rewrite IH; [reflexivity| intros; apply H; auto]. Qed.
Lemma sumQ_nonneg f l : (forall p, In p l -> 0 <= f p) -> 0 <= sumQ f l.
Proof. induction l as [|p l IH]; simpl; intros H; [lra|].
  assert (0 <= f p) by (apply H; auto). assert (0 <= sumQ f l) by (apply IH; intros; apply H; auto). lra. Qed.

Definition fit_shift (l : list pt) : Q * Q :=
  let sw := sumQ pw l in
  (sumQ (fun p => pw p * (px p - pu p)) l / sw, sumQ (fun p => pw p * (py p - pv p)) l / sw).

Definition ssr (s : Q * Q) (l : list pt) : Q :=
  sumQ (fun p => pw p * ((sq (px p - pu p - fst s)) + (sq (py p - pv p - snd s)))) l.

Theorem fit_shift_optimal l s' :
  (forall p, In p l -> 0 <= pw p) -> 0 < sumQ pw l ->
  ssr (fit_shift l) l <= ssr s' l.
Proof.
  intros Hw Hsw. unfold ssr, fit_shift. cbn [fst snd].
  set (sw := sumQ pw l) in *.
  set (mx := sumQ (fun p => pw p * (px p - pu p)) l / sw).
  set (my := sumQ (fun p => pw p * (py p - pv p)) l / sw).
  destruct s' as [sx sy]. cbn [fst snd].
  (* decomposition: ssr s' = ssr m + sw*((sq (mx-sx))+(sq (my-sy))) + cross terms which vanish *)
  assert (E: sumQ (fun p => pw p * ((sq (px p - pu p - sx)) + (sq (py p - pv p - sy)))) l ==
             sumQ (fun p => pw p * ((sq (px p - pu p - mx)) + (sq (py p - pv p - my)))) l
             + sw * ((sq (mx - sx)) + (sq (my - sy)))).
  { assert (Hx : sumQ (fun p => pw p * (px p - pu p)) l == mx * sw) by (unfold mx; field; intro Hz; rewrite Hz in Hsw; apply (Qlt_irrefl 0 Hsw)).
    assert (Hy : sumQ (fun p => pw p * (py p - pv p)) l == my * sw) by (unfold my; field; intro Hz; rewrite Hz in Hsw; apply (Qlt_irrefl 0 Hsw)).
    rewrite (sumQ_ext _ (fun p => (pw p * ((sq (px p - pu p - mx)) + (sq (py p - pv p - my))))
                + ((2*(mx - sx)) * (pw p * (px p - pu p)) + ((2*(my - sy)) * (pw p * (py p - pv p))
                + (((sq (mx-sx)) + (sq (my-sy)) - 2*(mx-sx)*mx - 2*(my-sy)*my) * pw p))))) by (intros; unfold sq; ring).
    rewrite !sumQ_add, !sumQ_scal. fold sw. rewrite Hx, Hy. unfold sq; ring. }
  rewrite E. assert (0 <= sw * ((sq (mx - sx)) + (sq (my - sy)))) by (apply Qmult_le_0_compat; [lra| pose proof (sq_nonneg (mx-sx)); pose proof (sq_nonneg (my-sy)); lra]). lra.
Qed.
Print Assumptions fit_shift_optimal.

(* execution speed *)
Fixpoint mk (n : nat) (k : Z) : list pt :=
  match n with O => [] | S n' => {| px := (k*7+3) # 16; py := (k*k+1) # 32; pu := (k*5) # 8; pv := (1-k) # 4; pw := 1 + (k # 3) |} :: mk n' (k+1)%Z end.
Time Eval vm_compute in (let r := fit_shift (mk 40 1%Z) in (Qred (fst r), Qred (snd r))).
