(* ties the three-valued concrete step used for trace validation to the abstract clip_step of Clip.v,
   states "no untested re-entry", and refutes the pre-fix loop (F2) *)
From Coq Require Import QArith List Bool Arith Lia.
From TW Require Import CorrUtil GJModel LSQ LinearFit Clip FloorSqrt ClipModel.
Import ListNotations.

Lemma mand_length a b : length (mand a b) = Nat.min (length a) (length b).
Proof. unfold mand. rewrite map_length, combine_length. reflexivity. Qed.

Lemma decided_diff_same a : forall m, length a = length m -> decided_diff a a m = negb (meqb a m).
Proof.
  induction a as [|x a IH]; intros [|y m] H; simpl in *; try discriminate; [reflexivity|].
  injection H as H. rewrite (IH m H). rewrite eqb_reflx. simpl.
  destruct (Bool.eqb x y); simpl; [reflexivity|reflexivity].
Qed.

(* when no point is within the tolerance band (the two below-masks coincide) the verdict is exactly the
   abstract step's stop test *)
Theorem step3_decided minobj accum weighted st nsig rel eps2 pts w wm m f :
  let s2 := stat2_encl st weighted f (filt m (combine pts w)) in
  let c2 := (Qred (nsig * nsig * fst s2), Qred (nsig * nsig * snd s2)) in
  let bm := below_masks f c2 rel eps2 pts in
  fst bm = snd bm -> length m = length pts -> length wm = length pts ->
  let r := clip_step3 minobj accum weighted st nsig rel eps2 pts w wm m f in
  let new := mand (if accum then m else wm) (fst bm) in
  snd (fst r) = new /\ snd r = new /\
  fst (fst r) = (if (count new <? minobj)%nat || meqb new m then SureStop else SureGo).
Proof.
  intros s2 c2 bm Hbm Hm Hwm r new. subst r. unfold clip_step3. cbv zeta. fold s2. fold c2. fold bm.
  rewrite <- Hbm. subst new. cbn [fst snd]. set (new := mand _ (fst bm)).
  split; [reflexivity|]. split; [reflexivity|].
  destruct (count new <? minobj)%nat eqn:E; cbn [orb].
  - reflexivity.
  - rewrite andb_diag.
    destruct (meqb new m) eqn:E2; [reflexivity|].
    apply Nat.ltb_ge in E. apply Nat.leb_le in E. rewrite E. cbn [andb].
    rewrite decided_diff_same.
    + rewrite E2. reflexivity.
    + unfold new. rewrite mand_length. unfold bm, below_masks. cbn [fst]. rewrite map_length.
      destruct accum; lia.
Qed.

Section Abstract.
Variable n : nat.
Variable fitres : Type.
Variable fit : mask -> fitres.
Variable below : fitres -> nat -> bool.
Variable minobj : nat.

(* a point that is absent from the next retained set either failed the cut-off test of the CURRENT fit or
   was not among the tested points: rejected points never re-enter untested *)
Theorem no_untested_reentry wmask accum s s' :
  clip_step n fitres fit below minobj wmask accum s = Some s' ->
  forall i, (i < n)%nat -> nth i (cm fitres s') false = true ->
    nth i (if accum then cm fitres s else wmask) false = true /\ below (cf fitres s) i = true.
Proof.
  intros H i Hi Hin. rewrite (step_retained n fitres fit below minobj wmask accum s s' H i Hi) in Hin.
  apply andb_true_iff in Hin. exact Hin.
Qed.

(* the history for nclip = k+1 is one more round of the loop on the result for nclip = k *)
Theorem iter_fit_succ wmask accum k : (count wmask =? minobj)%nat = false ->
  iter_fit n fitres fit below minobj wmask accum (S k)
  = clip_loop n fitres fit below minobj wmask accum 1 (iter_fit n fitres fit below minobj wmask accum k).
Proof.
  intros H. unfold iter_fit. rewrite H.
  replace (S k) with (k + 1)%nat by lia. apply loop_prefix.
Qed.
Theorem iter_fit_reset wmask accum k : (count wmask =? minobj)%nat = true ->
  iter_fit n fitres fit below minobj wmask accum k = iter_fit n fitres fit below minobj wmask accum 0.
Proof. intros H. unfold iter_fit. rewrite H. reflexivity. Qed.

(* the loop before fix 8ae115d: with clip_accum = False every positively weighted point that was NOT in
   the previous mask re-enters without being tested *)
Definition legacy_step (wmask : mask) (accum : bool) (s : cstate fitres) : option (cstate fitres) :=
  let nonclipped := map (fun i => below (cf fitres s) i) (seq 0 n) in
  let kept := mand (cm fitres s) nonclipped in
  if (count kept <? minobj)%nat || meqb kept (cm fitres s) then None
  else
    let new := if accum then kept
               else map (fun t : bool * bool * bool => if fst (fst t) then snd t else snd (fst t))
                        (combine (combine (cm fitres s) wmask) nonclipped) in
    Some {| cm := new; cf := fit new; ceff := S (ceff fitres s) |}.
End Abstract.

(* witness: 3 points, point 0 was rejected earlier, its residual is still above the cut-off *)
Theorem legacy_readmits_untested : exists s',
  legacy_step 3 (list bool) (fun m => m) (fun _ i => negb (Nat.eqb i 0) && negb (Nat.eqb i 2)) 1
              [true; true; true] false {| cm := [false; true; true]; cf := [false; true; true]; ceff := 1 |} = Some s'
  /\ nth 0 (cm _ s') false = true
  /\ (fun _ i => negb (Nat.eqb i 0) && negb (Nat.eqb i 2)) (cf _ s') 0%nat = false.
Proof. eexists. vm_compute. repeat split. Qed.
Print Assumptions step3_decided.
Print Assumptions no_untested_reentry.
