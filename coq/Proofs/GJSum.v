(* finite sums over index lists, setoid-equal over Q *)
From Coq Require Import QArith List Bool Arith Lia Permutation.
Import ListNotations.
Open Scope Q_scope.

Definition vsum (l : list nat) (f : nat -> Q) : Q := fold_right (fun j acc => f j + acc) 0 l.

Lemma vsum_ext l f g : (forall j, In j l -> f j == g j) -> vsum l f == vsum l g.
Proof.
  induction l as [|a l IH]; simpl; intros H; [reflexivity|].
  rewrite (H a) by auto. rewrite IH; [reflexivity|]. intros; apply H; auto.
Qed.
Lemma vsum_add l f g : vsum l (fun j => f j + g j) == vsum l f + vsum l g.
Proof. induction l as [|a l IH]; simpl; [ring| rewrite IH; ring]. Qed.
Lemma vsum_sub l f g : vsum l (fun j => f j - g j) == vsum l f - vsum l g.
Proof. induction l as [|a l IH]; simpl; [ring| rewrite IH; ring]. Qed.
Lemma vsum_scal l c f : vsum l (fun j => c * f j) == c * vsum l f.
Proof. induction l as [|a l IH]; simpl; [ring| rewrite IH; ring]. Qed.
Lemma vsum_scal_r l c f : vsum l (fun j => f j * c) == vsum l f * c.
Proof. induction l as [|a l IH]; simpl; [ring| rewrite IH; ring]. Qed.
Lemma vsum_zero l f : (forall j, In j l -> f j == 0) -> vsum l f == 0.
Proof. induction l as [|a l IH]; simpl; intros H; [reflexivity|].
  rewrite (H a) by auto. rewrite IH; [ring|]. intros; apply H; auto. Qed.
Lemma vsum_perm l l' f : Permutation l l' -> vsum l f == vsum l' f.
Proof.
  induction 1 as [| x l l' _ IH | x y l | l l' l'' _ IH1 _ IH2]; simpl.
  - reflexivity.
  - rewrite IH; reflexivity.
  - ring.
  - rewrite IH1; exact IH2.
Qed.
Lemma vsum_map l (g : nat -> nat) f : vsum (map g l) f == vsum l (fun j => f (g j)).
Proof. induction l as [|a l IH]; simpl; [reflexivity| rewrite IH; reflexivity]. Qed.

(* Kronecker delta and its sum *)
Definition delta (i j : nat) : Q := if Nat.eqb i j then 1 else 0.
Lemma vsum_delta_notin l f i : ~ In i l -> vsum l (fun j => f j * delta j i) == 0.
Proof. intros H. apply vsum_zero. intros j Hj. unfold delta.
  destruct (Nat.eqb_spec j i); [subst; contradiction| ring]. Qed.
Lemma vsum_delta n f i : (i < n)%nat -> vsum (seq 0 n) (fun j => f j * delta j i) == f i.
Proof.
  intros Hi.
  assert (G: forall s len, NoDup (seq s len) -> In i (seq s len) ->
             vsum (seq s len) (fun j => f j * delta j i) == f i).
  { intros s len; revert s; induction len as [|len IH]; intros s Hnd Hin; [inversion Hin|].
    simpl in *. inversion Hnd as [|x l Hx Hnd']; subst.
    destruct Hin as [->|Hin].
    - rewrite vsum_delta_notin by exact Hx. unfold delta. rewrite Nat.eqb_refl. ring.
    - rewrite IH by assumption. unfold delta.
      destruct (Nat.eqb_spec s i); [subst; contradiction| ring]. }
  apply G; [apply seq_NoDup| apply in_seq; lia].
Qed.
