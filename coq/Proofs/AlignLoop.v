(* C13/C14: specification of the alignment loop of Model/AlignModel.v, for every oracle *)
From Coq Require Import List Bool Arith Lia Permutation ZArith.
From TW Require Import AlignModel AlignGroups.
Import ListNotations.

Definition total (bs : list contrib) : nat := fold_right (fun b acc => c_rows b + acc) 0 bs.
Lemma total_app a b : total (a ++ b) = total a + total b.
Proof. induction a as [|x a IH]; simpl; [reflexivity| rewrite IH; lia]. Qed.

(* every appended block is justified by the oracle answers AT THE TIME the group was processed, i.e. against the
   reference made of the rows that precede the block *)
Definition justified (orc : oracle) (queue : list group) (st' : nat -> stclass) (base : refstate)
           (blocks : list contrib) : Prop :=
  forall pre b post, blocks = pre ++ b :: post ->
    exists g, c_from b = Some g /\ In g queue /\
      ((outcome orc g (base ++ pre) = Matched (c_rows b) /\ forall i, In i g -> st' i = Success) \/
       (mres_ok (outcome orc g (base ++ pre)) = false /\ mres_unm (outcome orc g (base ++ pre)) = c_rows b /\
        area0 orc g (base ++ pre) = true /\
        forall i, In i g -> st' i = Failed (fail_reason (outcome orc g (base ++ pre))))).

Lemma next_index_lt o orc rs (queue : list group) : queue <> [] -> next_index o orc rs queue < length queue.
Proof.
  intros H. unfold next_index, clip. destruct queue as [|x q]; [congruence|]. simpl length.
  destruct (eff_enforce o); [lia|].
  destruct (pick orc rs (x :: q) <? S (length q)) eqn:E; [apply Nat.ltb_lt in E; exact E| lia].
Qed.

Lemma set_st_in g v f i : In i g -> set_st g v f i = v.
Proof. intros H. unfold set_st. apply inb_In in H. rewrite H. reflexivity. Qed.
Lemma set_st_out g v f i : ~ In i g -> set_st g v f i = f i.
Proof. intros H. unfold set_st. apply inb_false in H. rewrite H. reflexivity. Qed.
Lemma bump_in g c i : In i g -> bump g c i = S (c i).
Proof. intros H. unfold bump. apply inb_In in H. rewrite H. reflexivity. Qed.
Lemma bump_out g c i : ~ In i g -> bump g c i = c i.
Proof. intros H. unfold bump. apply inb_false in H. rewrite H. reflexivity. Qed.

Lemma step_st_out o orc g s i : ~ In i g ->
  ls_st (step o orc g s) i = ls_st s i /\ ls_corr (step o orc g s) i = ls_corr s i.
Proof.
  intros H. unfold step; simpl. split; [apply set_st_out; exact H|].
  destruct (mres_ok _); [apply bump_out; exact H| reflexivity].
Qed.

Lemma step_st_in o orc g s :
  (mres_ok (outcome orc g (ls_ref s)) = true /\
   forall i, In i g -> ls_st (step o orc g s) i = Success /\ ls_corr (step o orc g s) i = S (ls_corr s i)) \/
  (mres_ok (outcome orc g (ls_ref s)) = false /\
   forall i, In i g -> ls_st (step o orc g s) i = Failed (fail_reason (outcome orc g (ls_ref s))) /\
                       ls_corr (step o orc g s) i = ls_corr s i).
Proof.
  unfold step; simpl. destruct (mres_ok (outcome orc g (ls_ref s))) eqn:E; [left|right]; (split; [reflexivity|]);
    intros i Hi; (split; [apply set_st_in; exact Hi|]); [apply bump_in; exact Hi| reflexivity].
Qed.

Lemma cons_decomp {A} (b0 : A) bl pre b post :
  b0 :: bl = pre ++ b :: post -> (pre = [] /\ b = b0 /\ post = bl) \/ (exists pre', pre = b0 :: pre' /\ bl = pre' ++ b :: post).
Proof.
  destruct pre as [|x pre']; simpl; intros H; inversion H; subst.
  - left. repeat split.
  - right. exists pre'. split; reflexivity.
Qed.

Lemma loop_spec o orc : forall fuel queue s, length queue = fuel -> NoDup queue -> disjoint queue ->
  let s' := loop o orc fuel queue s in
  (forall i, (forall g, In g queue -> ~ In i g) -> ls_st s' i = ls_st s i /\ ls_corr s' i = ls_corr s i) /\
  (forall g, In g queue ->
      (forall i, In i g -> ls_st s' i = Success /\ ls_corr s' i = S (ls_corr s i)) \/
      (exists r, forall i, In i g -> ls_st s' i = Failed r /\ ls_corr s' i = ls_corr s i)) /\
  (exists blocks, ls_ref s' = ls_ref s ++ blocks /\
                  ls_ids s' = expand_ids (ls_ids s) (total blocks) /\
                  (o_expand o = false -> blocks = []) /\
                  NoDup (map c_from blocks) /\
                  justified orc queue (ls_st s') (ls_ref s) blocks) /\
  (exists ord, ls_order s' = ls_order s ++ ord /\ Permutation ord queue /\ (eff_enforce o = true -> ord = queue)).
Proof.
  induction fuel as [|f IH]; intros queue s Hlen Hnd Hdj.
  - destruct queue; [|simpl in Hlen; lia]. simpl.
    split; [|split; [|split]].
    + intros; split; reflexivity.
    + intros g [].
    + exists []. rewrite app_nil_r. simpl. rewrite expand_ids_0.
      repeat split; try reflexivity; try constructor.
      intros pre b post H. destruct pre; discriminate.
    + exists []. rewrite app_nil_r. repeat split; try reflexivity; constructor.
  - destruct queue as [|q0 qr]; [simpl in Hlen; lia|].
    cbn [loop]. set (queue := q0 :: qr) in *.
    set (k := next_index o orc (ls_ref s) queue).
    assert (Hk : k < length queue) by (apply next_index_lt; unfold queue; discriminate).
    set (g0 := nth k queue []). set (q' := remove_at k queue). set (s1 := step o orc g0 s).
    destruct (remove_at_facts k queue [] Hk Hnd) as (F1 & F3 & F4 & F2 & F6 & F7).
    fold g0 in F1, F3, F2, F7. fold q' in F3, F4, F2, F6, F7.
    assert (Hlen' : length q' = f) by lia.
    assert (Hdj' : disjoint q') by (apply (disjoint_incl queue); [intros g Hg; apply F2; right; exact Hg| exact Hdj]).
    specialize (IH q' s1 Hlen' F4 Hdj').
    set (s' := loop o orc f q' s1) in *. cbv zeta in IH.
    destruct IH as (I1 & I2 & (blocks' & R1 & R2 & R3 & R4 & R5) & (ord' & O1 & O2 & O3)).
    (* members of g0 are in no later group *)
    assert (Hg0free : forall i, In i g0 -> forall g, In g q' -> ~ In i g).
    { intros i Hi g Hg Hig. apply F3. rewrite (Hdj g0 g i); auto. apply F2. right; exact Hg. }
    assert (Hother : forall g i, In g q' -> In i g -> ~ In i g0).
    { intros g i Hg Hi Hi0. exact (Hg0free i Hi0 g Hg Hi). }
    assert (Hg0 : (mres_ok (outcome orc g0 (ls_ref s)) = true /\
                   forall i, In i g0 -> ls_st s' i = Success /\ ls_corr s' i = S (ls_corr s i)) \/
                  (mres_ok (outcome orc g0 (ls_ref s)) = false /\
                   forall i, In i g0 -> ls_st s' i = Failed (fail_reason (outcome orc g0 (ls_ref s))) /\
                                        ls_corr s' i = ls_corr s i)).
    { destruct (step_st_in o orc g0 s) as [[E H]|[E H]]; [left|right]; (split; [exact E|]);
        intros i Hi; destruct (I1 i (Hg0free i Hi)) as [E1 E2]; destruct (H i Hi) as [H1 H2];
        fold s1 in H1, H2; rewrite E1, E2; split; assumption. }
    split; [|split; [|split]].
    + (* untouched *)
      intros i Hi.
      assert (Hi0 : ~ In i g0) by (apply Hi; exact F1).
      destruct (I1 i) as [E1 E2]; [intros g Hg; apply Hi; apply F2; right; exact Hg|].
      destruct (step_st_out o orc g0 s i Hi0) as [E3 E4]. fold s1 in E3, E4.
      rewrite E1, E2, E3, E4. split; reflexivity.
    + (* per group *)
      intros g Hg. apply F2 in Hg. destruct Hg as [->|Hg].
      * destruct Hg0 as [[_ H]|[_ H]]; [left; exact H| right; eexists; exact H].
      * destruct (I2 g Hg) as [H|[r H]]; [left| right; exists r]; intros i Hi; destruct (H i Hi) as [H1 H2];
          destruct (step_st_out o orc g0 s i (Hother g i Hg Hi)) as [_ E4]; fold s1 in E4;
          (split; [exact H1| rewrite H2, E4; reflexivity]).
    + (* reference catalog *)
      unfold s1 in R1, R2, R5. unfold step in R1, R2, R5. cbn [ls_ref ls_ids] in R1, R2, R5.
      destruct (will_grow o orc g0 (ls_ref s)) eqn:Eg.
      * set (b0 := {| c_from := Some g0; c_rows := mres_unm (outcome orc g0 (ls_ref s)) |}) in *.
        exists (b0 :: blocks'). split; [|split; [|split; [|split]]].
        -- rewrite R1, <- app_assoc. reflexivity.
        -- rewrite R2, expand_ids_add. reflexivity.
        -- intros He. unfold will_grow in Eg. rewrite He in Eg. simpl in Eg. discriminate.
        -- simpl. constructor; [|exact R4]. intro Hin. apply in_map_iff in Hin.
           destruct Hin as [b [Eb Hb]]. destruct (in_split _ _ Hb) as [pre [post Ebl]].
           destruct (R5 pre b post Ebl) as [g [Eg' [Hgq _]]].
           rewrite Eb in Eg'. inversion Eg'; subst g. exact (F3 Hgq).
        -- intros pre b post Hdec. apply cons_decomp in Hdec.
           destruct Hdec as [(-> & -> & ->)|[pre' [-> Hbl]]].
           ++ exists g0. rewrite app_nil_r. split; [reflexivity|]. split; [exact F1|].
              unfold will_grow in Eg. apply andb_true_iff in Eg. destruct Eg as [_ Eg].
              destruct Hg0 as [[E H]|[E H]].
              ** left. split; [|intros i Hi; exact (proj1 (H i Hi))].
                 unfold b0; simpl. destruct (outcome orc g0 (ls_ref s)); simpl in *; [reflexivity| discriminate| discriminate].
              ** right. rewrite E in Eg. simpl in Eg.
                 split; [exact E|]. split; [reflexivity|]. split; [exact Eg| intros i Hi; exact (proj1 (H i Hi))].
           ++ destruct (R5 pre' b post Hbl) as [g [E1 [Hgq Hj]]].
              exists g. split; [exact E1|]. split; [apply F2; right; exact Hgq|].
              replace (ls_ref s ++ b0 :: pre') with ((ls_ref s ++ [b0]) ++ pre') by (rewrite <- app_assoc; reflexivity).
              exact Hj.
      * exists blocks'. split; [exact R1| split; [exact R2| split; [exact R3| split; [exact R4|]]]].
        intros pre b post Hdec. destruct (R5 pre b post Hdec) as [g [E1 [Hgq Hj]]].
        exists g. split; [exact E1|]. split; [apply F2; right; exact Hgq| exact Hj].
    + (* order *)
      exists (g0 :: ord'). unfold s1 in O1. unfold step in O1. cbn [ls_order] in O1.
      split; [rewrite O1, <- app_assoc; reflexivity|]. split.
      * transitivity (g0 :: q'); [constructor; exact O2| symmetry; exact F7].
      * intros He. rewrite (O3 He). unfold g0, q', k, next_index. rewrite He. unfold queue. reflexivity.
Qed.
