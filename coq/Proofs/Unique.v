(* uniqueness of the general-affine least-squares optimum for non-degenerate data; consequences for C08 *)
From Coq Require Import QArith Qabs List Bool Arith Lia Lqa Psatz Permutation.
From TW Require Import GJModel LSQ Recovery Weights Equivariance.
Import ListNotations.
Open Scope Q_scope.

Section U.
Variable l : list pr.
Hypothesis wnn : forall z, In z l -> 0 <= pw z.

(* exact excess of any competitor over a solution of the normal equations *)
Lemma ssr_excess (t : pr -> Q) (c c' : row) :
  su l * qnth c 0 + sv l * qnth c 1 + sw l * qnth c 2 == sumQ (fun p => pw p * t p) l ->
  suu l * qnth c 0 + suv l * qnth c 1 + su l * qnth c 2 == sumQ (fun p => pw p * (t p * pu p)) l ->
  suv l * qnth c 0 + svv l * qnth c 1 + sv l * qnth c 2 == sumQ (fun p => pw p * (t p * pv p)) l ->
  ssr l t c' == ssr l t c +
     sumQ (fun p => pw p * sq ((qnth c' 0 - qnth c 0) * pu p + (qnth c' 1 - qnth c 1) * pv p + (qnth c' 2 - qnth c 2))) l.
Proof.
  intros N0 N1 N2.
  set (d0 := qnth c' 0 - qnth c 0). set (d1 := qnth c' 1 - qnth c 1). set (d2 := qnth c' 2 - qnth c 2).
  unfold ssr.
  rewrite (sumQ_ext _ (fun p =>
      pw p * sq (t p - (qnth c 0 * pu p + qnth c 1 * pv p + qnth c 2))
    + (pw p * sq (d0 * pu p + d1 * pv p + d2)
    + ((-2 * d0) * (pw p * (t p * pu p)) + ((-2 * d1) * (pw p * (t p * pv p)) + ((-2 * d2) * (pw p * t p)
    + ((2 * d0 * qnth c 0) * (pw p * (pu p * pu p)) + ((2 * d0 * qnth c 1 + 2 * d1 * qnth c 0) * (pw p * (pu p * pv p))
    + ((2 * d1 * qnth c 1) * (pw p * (pv p * pv p)) + ((2 * d0 * qnth c 2 + 2 * d2 * qnth c 0) * (pw p * pu p)
    + ((2 * d1 * qnth c 2 + 2 * d2 * qnth c 1) * (pw p * pv p) + (2 * d2 * qnth c 2) * pw p))))))))))).
  2:{ intros p _. unfold d0, d1, d2, sq. ring. }
  rewrite !sumQ_add, !sumQ_scal.
  fold (suu l) (suv l) (svv l) (su l) (sv l) (sw l). rewrite <- N0, <- N1, <- N2.
  unfold d0, d1, d2. ring.
Qed.

(* three positively weighted sources that are not collinear *)
Definition noncollinear3 (a b c : pr) : Prop :=
  ~ ((pu b - pu a) * (pv c - pv a) - (pu c - pu a) * (pv b - pv a) == 0).

Lemma affine_zero_on_triangle a b c d0 d1 d2 : noncollinear3 a b c ->
  d0 * pu a + d1 * pv a + d2 == 0 -> d0 * pu b + d1 * pv b + d2 == 0 -> d0 * pu c + d1 * pv c + d2 == 0 ->
  d0 == 0 /\ d1 == 0 /\ d2 == 0.
Proof.
  unfold noncollinear3. intros H Ha Hb Hc.
  set (D := (pu b - pu a) * (pv c - pv a) - (pu c - pu a) * (pv b - pv a)) in *.
  assert (E0: d0 * D == 0).
  { unfold D. transitivity ((d0 * pu b + d1 * pv b + d2 - (d0 * pu a + d1 * pv a + d2)) * (pv c - pv a)
                            - (d0 * pu c + d1 * pv c + d2 - (d0 * pu a + d1 * pv a + d2)) * (pv b - pv a)); [ring|].
    rewrite Ha, Hb, Hc. ring. }
  assert (E1: d1 * D == 0).
  { unfold D. transitivity ((d0 * pu c + d1 * pv c + d2 - (d0 * pu a + d1 * pv a + d2)) * (pu b - pu a)
                            - (d0 * pu b + d1 * pv b + d2 - (d0 * pu a + d1 * pv a + d2)) * (pu c - pu a)); [ring|].
    rewrite Ha, Hb, Hc. ring. }
  assert (Z0: d0 == 0).
  { destruct (Qeq_dec d0 0) as [E|E]; [exact E|]. exfalso. apply H.
    apply (Qmult_integral _ _) in E0. destruct E0; [contradiction| assumption]. }
  assert (Z1: d1 == 0).
  { destruct (Qeq_dec d1 0) as [E|E]; [exact E|]. exfalso. apply H.
    apply (Qmult_integral _ _) in E1. destruct E1; [contradiction| assumption]. }
  split; [exact Z0|]. split; [exact Z1|]. rewrite Z0, Z1 in Ha. lra.
Qed.

(* if a competitor does as well as the fit in x (resp. y) it IS the fit *)
Lemma unique_core (t : pr -> Q) (st stu stv : Q) (sol c' : row) a b c :
  In a l -> In b l -> In c l -> 0 < pw a -> 0 < pw b -> 0 < pw c -> noncollinear3 a b c ->
  st == sumQ (fun p => pw p * t p) l ->
  stu == sumQ (fun p => pw p * (t p * pu p)) l ->
  stv == sumQ (fun p => pw p * (t p * pv p)) l ->
  su l * qnth sol 0 + sv l * qnth sol 1 + sw l * qnth sol 2 == st ->
  suu l * qnth sol 0 + suv l * qnth sol 1 + su l * qnth sol 2 == stu ->
  suv l * qnth sol 0 + svv l * qnth sol 1 + sv l * qnth sol 2 == stv ->
  ssr l t c' <= ssr l t sol ->
  qnth c' 0 == qnth sol 0 /\ qnth c' 1 == qnth sol 1 /\ qnth c' 2 == qnth sol 2.
Proof.
  intros Ia Ib Ic Wa Wb Wc Hnc Et Etu Etv N0 N1 N2 Hle.
  assert (N0': su l * qnth sol 0 + sv l * qnth sol 1 + sw l * qnth sol 2 == sumQ (fun p => pw p * t p) l)
    by (rewrite <- Et; exact N0).
  assert (N1': suu l * qnth sol 0 + suv l * qnth sol 1 + su l * qnth sol 2 == sumQ (fun p => pw p * (t p * pu p)) l)
    by (rewrite <- Etu; exact N1).
  assert (N2': suv l * qnth sol 0 + svv l * qnth sol 1 + sv l * qnth sol 2 == sumQ (fun p => pw p * (t p * pv p)) l)
    by (rewrite <- Etv; exact N2).
  pose proof (ssr_excess t sol c' N0' N1' N2') as E.
  set (d0 := qnth c' 0 - qnth sol 0) in *. set (d1 := qnth c' 1 - qnth sol 1) in *.
  set (d2 := qnth c' 2 - qnth sol 2) in *.
  assert (Nn: forall z, In z l -> 0 <= pw z * sq (d0 * pu z + d1 * pv z + d2)).
  { intros z Hz. apply Qmult_le_0_compat; [apply wnn; exact Hz| apply sq_nonneg]. }
  assert (S0: sumQ (fun z => pw z * sq (d0 * pu z + d1 * pv z + d2)) l == 0).
  { pose proof (sumQ_nonneg _ l Nn). lra. }
  pose proof (sumQ_nonneg_zero _ l Nn S0) as Z.
  assert (Za: d0 * pu a + d1 * pv a + d2 == 0) by (apply (wsq_zero (pw a)); [exact Wa| apply Z; exact Ia]).
  assert (Zb: d0 * pu b + d1 * pv b + d2 == 0) by (apply (wsq_zero (pw b)); [exact Wb| apply Z; exact Ib]).
  assert (Zc: d0 * pu c + d1 * pv c + d2 == 0) by (apply (wsq_zero (pw c)); [exact Wc| apply Z; exact Ic]).
  destruct (affine_zero_on_triangle a b c d0 d1 d2 Hnc Za Zb Zc) as [A [B C]].
  assert (R: forall x y : Q, x - y == 0 -> x == y).
  { intros x y H. setoid_replace x with (x - y + y) by ring. rewrite H. ring. }
  split; [apply R; exact A|]. split; [apply R; exact B| apply R; exact C].
Time Qed.

Lemma normal3 X (a0 a1 a2 : Q) : inv_gj (Mmat l) = Ok X ->
  let c := mv X [a0; a1; a2] in
  su l * qnth c 0 + sv l * qnth c 1 + sw l * qnth c 2 == a0 /\
  suu l * qnth c 0 + suv l * qnth c 1 + su l * qnth c 2 == a1 /\
  suv l * qnth c 0 + svv l * qnth c 1 + sv l * qnth c 2 == a2.
Proof.
  intros HX c. pose proof (normal_eqs l X [a0; a1; a2] HX) as Na.
  pose proof (Na 0%nat ltac:(lia)) as H0. pose proof (Na 1%nat ltac:(lia)) as H1. pose proof (Na 2%nat ltac:(lia)) as H2.
  cbn in H0, H1, H2. subst c. cbn. repeat split; lra.
Qed.

Lemma fit_general_ok_inv p q : fit_general l = FitOk p q ->
  exists X, inv_gj (Mmat l) = Ok X /\ p = mv X (avec l) /\ q = mv X (bvec l).
Proof.
  unfold fit_general. destruct (inv_gj (Mmat l)) as [X| |]; try discriminate.
  intros H. exists X. inversion H. repeat split.
Qed.

(* the solution vector is kept abstract (sol = ...) so that the kernel never has to unfold it *)
Lemma unique_X (t : pr -> Q) (st stu stv : Q) X a b c :
  st == sumQ (fun p => pw p * t p) l ->
  stu == sumQ (fun p => pw p * (t p * pu p)) l ->
  stv == sumQ (fun p => pw p * (t p * pv p)) l ->
  inv_gj (Mmat l) = Ok X ->
  In a l -> In b l -> In c l -> 0 < pw a -> 0 < pw b -> 0 < pw c -> noncollinear3 a b c ->
  forall c' sol, sol = mv X [st; stu; stv] -> ssr l t c' <= ssr l t sol ->
    qnth c' 0 == qnth sol 0 /\ qnth c' 1 == qnth sol 1 /\ qnth c' 2 == qnth sol 2.
Proof.
  intros Et Etu Etv HX Ia Ib Ic Wa Wb Wc Hnc c' sol Es Hle.
  destruct (normal3 X st stu stv HX) as [A0 [A1 A2]]. rewrite <- Es in A0, A1, A2.
  exact (unique_core t st stu stv sol c' a b c Ia Ib Ic Wa Wb Wc Hnc Et Etu Etv A0 A1 A2 Hle).
Qed.

(* if a competitor does as well as the fit in x (resp. y) it IS the fit *)
Theorem general_fit_unique p q a b c :
  fit_general l = FitOk p q ->
  In a l -> In b l -> In c l -> 0 < pw a -> 0 < pw b -> 0 < pw c -> noncollinear3 a b c ->
  forall c', (ssr l px c' <= ssr l px p -> qnth c' 0 == qnth p 0 /\ qnth c' 1 == qnth p 1 /\ qnth c' 2 == qnth p 2) /\
             (ssr l py c' <= ssr l py q -> qnth c' 0 == qnth q 0 /\ qnth c' 1 == qnth q 1 /\ qnth c' 2 == qnth q 2).
Proof.
  intros Hf Ia Ib Ic Wa Wb Wc Hnc c'.
  destruct (fit_general_ok_inv p q Hf) as [X [HX [Ep Eq]]].
  split; intros Hle.
  - exact (unique_X px (sx l) (sxu l) (sxv l) X a b c (Qeq_refl _) (Qeq_refl _) (Qeq_refl _) HX
             Ia Ib Ic Wa Wb Wc Hnc c' p Ep Hle).
  - exact (unique_X py (sy l) (syu l) (syv l) X a b c (Qeq_refl _) (Qeq_refl _) (Qeq_refl _) HX
             Ia Ib Ic Wa Wb Wc Hnc c' q Eq Hle).
Time Qed.
End U.

(* C08 at parameter level for the general family: the fit of permuted data has the same parameters *)
Theorem general_fit_perm_params l l' p q p' q' a b c :
  Permutation l l' -> (forall z, In z l -> 0 <= pw z) ->
  fit_general l = FitOk p q -> fit_general l' = FitOk p' q' ->
  In a l -> In b l -> In c l -> 0 < pw a -> 0 < pw b -> 0 < pw c -> noncollinear3 a b c ->
  (qnth p' 0 == qnth p 0 /\ qnth p' 1 == qnth p 1 /\ qnth p' 2 == qnth p 2) /\
  (qnth q' 0 == qnth q 0 /\ qnth q' 1 == qnth q 1 /\ qnth q' 2 == qnth q 2).
Proof.
  intros HP Hw Hf Hf' Ia Ib Ic Wa Wb Wc Hnc.
  destruct (general_fit_perm l l' p' q' HP Hf' Hw p) as [Ox _].
  destruct (general_fit_perm l l' p' q' HP Hf' Hw q) as [_ Oy].
  destruct (general_fit_unique l Hw p q a b c Hf Ia Ib Ic Wa Wb Wc Hnc p') as [Ux _].
  destruct (general_fit_unique l Hw p q a b c Hf Ia Ib Ic Wa Wb Wc Hnc q') as [_ Uy].
  split; [apply Ux; exact Ox| apply Uy; exact Oy].
Qed.
Print Assumptions general_fit_unique.
Print Assumptions general_fit_perm_params.
