(* gWCS corrector model: the state invariant ("zipper" shape of the pipeline) and its preservation by
   __init__ / set_correction / re-wrapping, for every history *)
From Coq Require Import QArith Qcanon List Bool Arith Lia.
From TW Require Import CorrModel CorrAlgebra CorrList CorrCheck.
Import ListNotations.
Open Scope Qc_scope.

(* a correction step stored in a pipeline is usable: stored inverse is the inverse, matrix regular *)
Definition okc (c : tpc) : Prop := tp_inv c = inva (tp_fwd c) /\ adet (tp_fwd c) <> 0.
Definition oktrf (t : trf) : Prop := match t with TCorr c => okc c | _ => True end.
Definition okstep (s : step) : Prop := oktrf (snd s).
(* what is assumed of a WCS handed to the constructor: every correction step in it is usable, last transform is None *)
Definition valid_wcs (w : wcs) : Prop := Forall okstep w /\ snd (last w (Fworld, TEnd)) = TEnd.

(* static facts about the pipeline around the frame f the correction is attached to:
   uncorrected  pre ++ (f, t0) :: post ++ [(wl, None)]     corrected  pre ++ (f, TCorr c) :: (v2v3corr, t0) :: post ++ [(wl, None)] *)
Record wfz (pre : wcs) (f : fname) (t0 : trf) (post : wcs) (wl : fname) : Prop := {
  z_pre_ne : pre <> [];
  z_f_pre : count f (frames pre) = 0%nat;
  z_c_pre : count Fcorr (frames pre) = 0%nat;
  z_c_post : count Fcorr (frames post) = 0%nat;
  z_f_neq : f <> Fcorr;
  z_wl_pre : count wl (frames pre) = 0%nat;
  z_wl_post : count wl (frames post) = 0%nat;
  z_wl_f : wl <> f;
  z_wl_c : wl <> Fcorr;
  z_ok_pre : Forall okstep pre;
  z_ok_t0 : oktrf t0;
  z_ok_post : Forall okstep post;
  z_check : check_structure (frames pre ++ f :: Fcorr :: frames post ++ [wl]) = true
}.

Definition w_fresh (pre : wcs) f t0 (post : wcs) wl : wcs := pre ++ (f, t0) :: post ++ [(wl, TEnd)].
Definition w_corr (pre : wcs) f c t0 (post : wcs) wl : wcs := pre ++ (f, TCorr c) :: (Fcorr, t0) :: post ++ [(wl, TEnd)].

Inductive shape (pre : wcs) (f : fname) (t0 : trf) (post : wcs) (wl : fname) (st : gst) : Prop :=
| sh_fresh : g_wcs st = w_fresh pre f t0 post wl -> g_tpcorr st = None -> g_v23 st = f ->
             check_structure (frames (g_wcs st)) = true -> f = v23_of (frames (g_wcs st)) ->
             shape pre f t0 post wl st
| sh_corr c : g_wcs st = w_corr pre f c t0 post wl -> g_tpcorr st = Some c -> g_v23 st = Fcorr ->
             okc c -> ang_consistent (g_info st) (tp_ang c) = true ->
             shape pre f t0 post wl st.

Lemma frames_w_fresh pre f t0 post wl : frames (w_fresh pre f t0 post wl) = frames pre ++ f :: frames post ++ [wl].
Proof. unfold w_fresh. rewrite frames_app. simpl. rewrite frames_app. reflexivity. Qed.
Lemma frames_w_corr pre f c t0 post wl : frames (w_corr pre f c t0 post wl) = frames pre ++ f :: Fcorr :: frames post ++ [wl].
Proof. unfold w_corr. rewrite frames_app. simpl. rewrite frames_app. reflexivity. Qed.

Lemma ang_consistent_of info : ang_consistent info (ang_of info) = true.
Proof.
  destruct info as [[v2 v3] roll]. unfold ang_consistent, ang_of.
  assert (E1 : v2 - v2 / c3600 * c3600 = 0) by (field; apply c3600_neq0).
  assert (E2 : v3 - - - (v3 / c3600) * c3600 = 0) by (field; apply c3600_neq0).
  assert (E3 : roll - roll = 0) by ring.
  rewrite E1, E2, E3. reflexivity.
Qed.

Lemma okc_combine c M s c' : tpcorr_combine c M s = Some c' ->
  okc c' /\ tp_fwd c' = combine_fwd M s (tp_fwd c) /\ tp_ang c' = tp_ang c /\ mdet M <> 0.
Proof.
  unfold tpcorr_combine. destruct (qc_is0 (adet (combine_fwd M s (tp_fwd c)))) eqn:E; [discriminate|].
  intro H. inversion H; subst; clear H. cbn [tp_fwd tp_inv tp_ang]. apply qc_is0_false in E.
  split; [split; [reflexivity| exact E]|]. split; [reflexivity|]. split; [reflexivity|].
  intro Hd. apply E. rewrite adet_combine, Hd. ring.
Qed.
Lemma combine_some c M s : adet (tp_fwd c) <> 0 -> mdet M <> 0 -> exists c', tpcorr_combine c M s = Some c'.
Proof.
  intros Ha Hm. unfold tpcorr_combine. rewrite qc_is0_neq; [eexists; reflexivity|].
  rewrite adet_combine. intro E. apply Qcmult_integral in E. destruct E; contradiction.
Qed.

Section Ops.
Variable k : Qc.

Lemma index_f_fresh pre f t0 post wl : count f (frames pre) = 0%nat ->
  index_of f (frames (w_fresh pre f t0 post wl)) = Some (length pre).
Proof. intro H. rewrite frames_w_fresh, index_of_here by exact H. rewrite frames_length. reflexivity. Qed.
Lemma index_c_corr pre f c t0 post wl : count Fcorr (frames pre) = 0%nat -> f <> Fcorr ->
  index_of Fcorr (frames (w_corr pre f c t0 post wl)) = Some (S (length pre)).
Proof.
  intros H Hf. rewrite frames_w_corr, index_of_app_notin by exact H. simpl.
  rewrite fname_eqb_neq by exact Hf. simpl. rewrite frames_length. f_equal. lia.
Qed.
Lemma index_f_corr pre f c t0 post wl : count f (frames pre) = 0%nat ->
  index_of f (frames (w_corr pre f c t0 post wl)) = Some (length pre).
Proof. intro H. rewrite frames_w_corr, index_of_here by exact H. rewrite frames_length. reflexivity. Qed.

Lemma insert_after {A} (l1 : list A) x v l2 : insert_at (S (length l1)) v (l1 ++ x :: l2) = l1 ++ x :: v :: l2.
Proof.
  replace (l1 ++ x :: l2) with ((l1 ++ [x]) ++ l2) by (rewrite <- app_assoc; reflexivity).
  replace (S (length l1)) with (length (l1 ++ [x])) by (rewrite app_length; simpl; lia).
  rewrite insert_at_app. rewrite <- app_assoc. reflexivity.
Qed.

(* one correction: the state keeps its shape and the accumulated affine is combined *)
Lemma gset_shape pre f t0 post wl st M s : wfz pre f t0 post wl -> shape pre f t0 post wl st -> mdet M <> 0 ->
  exists st', gset k st M s = Some st' /\ shape pre f t0 post wl st' /\
              g_aff st' = combine_fwd M (pscale k s) (g_aff st) /\
              g_owcs st' = g_owcs st /\ g_info st' = g_info st /\ g_tpcorr st' <> None.
Proof.
  intros Z Sh Hm. destruct Sh as [Hw Ht Hv Hc Hf | c Hw Ht Hv Hok Ha].
  - unfold gset. rewrite Ht.
    destruct (combine_some (tpcorr_init (ang_of (g_info st))) M (pscale k s)) as [c' Hc'];
      [cbn [tpcorr_init tp_fwd]; rewrite adet_idaff; apply one_neq0| exact Hm|].
    rewrite Hc'. rewrite Hv, Hw, index_f_fresh by apply Z.
    unfold w_fresh. rewrite nth_error_here. rewrite set_nth_app, insert_after.
    eexists. split; [reflexivity|]. destruct (okc_combine _ _ _ _ Hc') as (Ho & Hfw & Han & _).
    cbn [tpcorr_init tp_fwd tp_ang] in *.
    split; [|split; [|split; [|split; [|discriminate]]]]; cbn [g_wcs g_owcs g_tpcorr g_v23 g_info]; try reflexivity.
    + apply sh_corr with (c := c'); cbn [g_wcs g_owcs g_tpcorr g_v23 g_info]; try reflexivity; try assumption.
      rewrite Han. apply ang_consistent_of.
    + unfold g_aff. cbn [g_tpcorr]. rewrite Ht. exact Hfw.
  - unfold gset. rewrite Ht. destruct Hok as [Hi Hd].
    destruct (combine_some c M (pscale k s) Hd Hm) as [c' Hc']. rewrite Hc'.
    rewrite Hv, Hw, index_c_corr by apply Z. unfold w_corr. rewrite nth_error_here, set_nth_app.
    eexists. split; [reflexivity|]. destruct (okc_combine _ _ _ _ Hc') as (Ho & Hfw & Han & _).
    split; [|split; [|split; [|split; [|discriminate]]]]; cbn [g_wcs g_owcs g_tpcorr g_v23 g_info]; try reflexivity.
    + apply sh_corr with (c := c'); cbn [g_wcs g_owcs g_tpcorr g_v23 g_info]; try reflexivity; try assumption.
      rewrite Han. exact Ha.
    + unfold g_aff. cbn [g_tpcorr]. rewrite Ht. exact Hfw.
Qed.

Lemma gset_some_det st M s st' : gset k st M s = Some st' -> mdet M <> 0.
Proof.
  unfold gset. destruct (g_tpcorr st) as [c0|].
  - destruct (tpcorr_combine c0 M (pscale k s)) as [c|] eqn:E; [|discriminate]. intros _. apply (okc_combine _ _ _ _ E).
  - destruct (tpcorr_combine _ M (pscale k s)) as [c|] eqn:E; [|discriminate]. intros _. apply (okc_combine _ _ _ _ E).
Qed.
End Ops.

Definition with_owcs (st : gst) (o : wcs) : gst :=
  {| g_wcs := g_wcs st; g_owcs := o; g_tpcorr := g_tpcorr st; g_v23 := g_v23 st; g_info := g_info st |}.

Lemma shape_with_owcs pre f t0 post wl st o : shape pre f t0 post wl st -> shape pre f t0 post wl (with_owcs st o).
Proof.
  intros [Hw Ht Hv Hc Hf | c Hw Ht Hv Hok Ha].
  - apply sh_fresh; assumption.
  - apply sh_corr with (c := c); assumption.
Qed.

Lemma count_Fcorr_fresh pre f t0 post wl : wfz pre f t0 post wl -> count Fcorr (frames (w_fresh pre f t0 post wl)) = 0%nat.
Proof.
  intro Z. rewrite frames_w_fresh, count_app. simpl. rewrite count_app. simpl.
  rewrite (z_c_pre _ _ _ _ _ Z), (z_c_post _ _ _ _ _ Z).
  rewrite (fname_eqb_neq f Fcorr) by apply Z. rewrite (fname_eqb_neq wl Fcorr) by apply Z. reflexivity.
Qed.
Lemma count_Fcorr_corr pre f c t0 post wl : wfz pre f t0 post wl -> count Fcorr (frames (w_corr pre f c t0 post wl)) = 1%nat.
Proof.
  intro Z. rewrite frames_w_corr, count_app. simpl. rewrite count_app. simpl.
  rewrite (z_c_pre _ _ _ _ _ Z), (z_c_post _ _ _ _ _ Z).
  rewrite (fname_eqb_neq f Fcorr) by apply Z. rewrite (fname_eqb_neq wl Fcorr) by apply Z. reflexivity.
Qed.

(* re-wrapping the working WCS of a corrector in a new corrector gives the same state (its "original" WCS being the
   corrected one): JWSTWCSCorrector(corrector.wcs, corrector.ref_angles) *)
Lemma rewrap_shape pre f t0 post wl st : wfz pre f t0 post wl -> shape pre f t0 post wl st ->
  ginit (g_wcs st) (g_info st) = Some (with_owcs st (g_wcs st)).
Proof.
  intros Z Sh. destruct Sh as [Hw Ht Hv Hc Hf | c Hw Ht Hv Hok Ha]; unfold ginit.
  - rewrite Hc. cbn [negb].
    assert (Hm : mem Fcorr (frames (g_wcs st)) = false).
    { apply mem_false. rewrite Hw. apply count_Fcorr_fresh. exact Z. }
    rewrite Hm. unfold with_owcs. rewrite Ht, Hv. f_equal. f_equal. rewrite Hf. reflexivity.
  - assert (Hck : check_structure (frames (g_wcs st)) = true) by (rewrite Hw, frames_w_corr; apply Z).
    rewrite Hck. cbn [negb].
    assert (Hm : mem Fcorr (frames (g_wcs st)) = true).
    { apply mem_true. rewrite Hw, count_Fcorr_corr by exact Z. discriminate. }
    rewrite Hm. rewrite Hw at 1. rewrite index_c_corr by apply Z.
    rewrite Hw at 1. unfold w_corr at 1. rewrite nth_error_here. rewrite Ha.
    unfold with_owcs. rewrite Ht, Hv. reflexivity.
Qed.

(* the constructor establishes the invariant *)
Lemma Forall_app_inv {A} (P : A -> Prop) l1 l2 : Forall P (l1 ++ l2) -> Forall P l1 /\ Forall P l2.
Proof. intro H. apply Forall_app. exact H. Qed.

Lemma last_default {A} (l : list A) d d' : l <> [] -> last l d = last l d'.
Proof. induction l as [|x r IH]; [contradiction|]. intros _. destruct r; [reflexivity|]. apply IH. discriminate. Qed.

Lemma ginit_shape w info st : valid_wcs w -> ginit w info = Some st ->
  exists pre f t0 post wl, wfz pre f t0 post wl /\ shape pre f t0 post wl st /\
                           g_wcs st = w /\ g_owcs st = w /\ g_info st = info.
Proof.
  intros [Vok Vlast]. unfold ginit.
  destruct (check_structure (frames w)) eqn:Hck; [|discriminate]. cbn [negb].
  assert (Hsp := proj1 (check_structure_spec _) Hck).
  destruct (mem Fcorr (frames w)) eqn:Hm.
  - (* already corrected *)
    assert (Hc1 : count Fcorr (frames w) = 1%nat).
    { destruct (cs_corr _ Hsp) as [E|[E _]]; [apply mem_true in Hm; contradiction| exact E]. }
    destruct (check_spec_split_corr _ Hsp Hc1) as (a & b & E & Ha & Hb & Hfa & Hca & Hcb).
    set (f := v23_of (frames w)) in *.
    destruct (frames_split _ _ _ _ E) as (pre & tf & rest & Ew & Epre & Erest).
    destruct rest as [|[fc t0] post0]; [discriminate Erest|]. simpl in Erest. injection Erest as -> Epost0.
    assert (Hp0 : post0 <> []) by (intro E0; subst post0; simpl in Epost0; subst b; contradiction).
    destruct (exists_last Hp0) as (post & [wl tl] & ->).
    assert (Etl : tl = TEnd).
    { rewrite Ew in Vlast. rewrite last_app_cons in Vlast. rewrite last_cons_ne in Vlast by discriminate.
      rewrite last_cons_ne in Vlast by (destruct post; discriminate). rewrite last_last in Vlast. exact Vlast. }
    subst tl.
    assert (Eidx : index_of Fcorr (frames w) = Some (S (length pre))).
    { rewrite E. rewrite index_of_app_notin by exact Hca. simpl. rewrite fname_eqb_neq by apply v23_of_neq_corr.
      simpl. rewrite <- Epre, frames_length. f_equal. apply Nat.add_1_r. }
    rewrite Eidx. rewrite Ew at 1. rewrite nth_error_here.
    destruct tf as [n|c|]; try discriminate.
    destruct (ang_consistent info (tp_ang c)) eqn:Hang; [|discriminate].
    intro H. inversion H; subst st; clear H.
    rewrite frames_app in Epost0. simpl in Epost0.
    assert (Hlast : (count wl (frames w) <= 1)%nat).
    { assert (X := cs_last _ Hsp). rewrite E in X at 1. rewrite last_app_cons in X.
      rewrite last_cons_ne in X by discriminate. rewrite last_cons_ne in X by exact Hb.
      rewrite <- Epost0 in X. rewrite last_last in X. exact X. }
    rewrite E, <- Epost0, <- Epre in Hlast. rewrite count_app in Hlast. simpl in Hlast. rewrite count_app in Hlast. simpl in Hlast.
    rewrite fname_eqb_refl in Hlast.
    rewrite Ew in Vok. apply Forall_app_inv in Vok. destruct Vok as [Vpre Vr].
    apply Forall_cons_iff in Vr. destruct Vr as [Vc Vr2]. apply Forall_cons_iff in Vr2. destruct Vr2 as [Vt0 Vr3].
    apply Forall_app_inv in Vr3. destruct Vr3 as [Vpost _].
    rewrite <- Epost0 in Hcb. rewrite count_app in Hcb. simpl in Hcb.
    exists pre, f, t0, post, wl. split; [|split; [|repeat split]].
    + constructor; try assumption.
      * intro E0. subst pre. simpl in Epre. subst a. contradiction.
      * rewrite Epre. exact Hfa.
      * rewrite Epre. exact Hca.
      * lia.
      * apply v23_of_neq_corr.
      * destruct (fname_eqb f wl), (fname_eqb Fcorr wl); lia.
      * destruct (fname_eqb f wl), (fname_eqb Fcorr wl); lia.
      * intro E0. subst wl. rewrite fname_eqb_refl in Hlast. lia.
      * intro E0. subst wl. simpl in Hlast. destruct (fname_eqb f Fcorr); lia.
      * rewrite Epre, Epost0, <- E. exact Hck.
    + apply sh_corr with (c := c); cbn [g_wcs g_owcs g_tpcorr g_v23 g_info]; try reflexivity; try assumption.
  - (* no correction yet *)
    intro H. inversion H; subst st; clear H.
    assert (Hc0 : count Fcorr (frames w) = 0%nat) by (apply mem_false; exact Hm).
    destruct (check_spec_split _ Hsp) as (a & b & E & Ha & Hb & Hfa).
    set (f := v23_of (frames w)) in *.
    destruct (frames_split _ _ _ _ E) as (pre & t0 & post0 & Ew & Epre & Epost0).
    assert (Hp0 : post0 <> []) by (intro E0; subst post0; simpl in Epost0; subst b; contradiction).
    destruct (exists_last Hp0) as (post & [wl tl] & ->).
    assert (Etl : tl = TEnd).
    { rewrite Ew in Vlast. rewrite last_app_cons in Vlast.
      rewrite last_cons_ne in Vlast by (destruct post; discriminate). rewrite last_last in Vlast. exact Vlast. }
    subst tl.
    rewrite frames_app in Epost0. simpl in Epost0.
    assert (Hlast : (count wl (frames w) <= 1)%nat).
    { assert (X := cs_last _ Hsp). rewrite E in X at 1. rewrite last_app_cons in X.
      rewrite last_cons_ne in X by exact Hb.
      rewrite <- Epost0 in X. rewrite last_last in X. exact X. }
    rewrite E, <- Epost0, <- Epre in Hlast. rewrite count_app in Hlast. simpl in Hlast. rewrite count_app in Hlast. simpl in Hlast.
    rewrite fname_eqb_refl in Hlast.
    assert (Hc0' := Hc0). rewrite E, <- Epost0, <- Epre in Hc0'. rewrite count_app in Hc0'. simpl in Hc0'. rewrite count_app in Hc0'. simpl in Hc0'.
    rewrite Ew in Vok. apply Forall_app_inv in Vok. destruct Vok as [Vpre Vr].
    apply Forall_cons_iff in Vr. destruct Vr as [Vt0 Vr3].
    apply Forall_app_inv in Vr3. destruct Vr3 as [Vpost _].
    exists pre, f, t0, post, wl. split; [|split; [|repeat split]].
    + constructor; try assumption.
      * intro E0. subst pre. simpl in Epre. subst a. contradiction.
      * rewrite Epre. exact Hfa.
      * lia.
      * lia.
      * apply v23_of_neq_corr.
      * destruct (fname_eqb f wl); lia.
      * destruct (fname_eqb f wl); lia.
      * intro E0. subst wl. rewrite fname_eqb_refl in Hlast. lia.
      * intro E0. subst wl. simpl in Hc0'. destruct (fname_eqb f Fcorr); lia.
      * apply check_structure_spec. rewrite Epre, Epost0. apply check_spec_insert; try assumption.
        -- rewrite <- E. exact Hsp.
        -- rewrite <- E. reflexivity.
        -- rewrite <- E. exact Hc0.
    + apply sh_fresh; cbn [g_wcs g_owcs g_tpcorr g_v23 g_info]; try reflexivity; try assumption.
Qed.

Section Hist.
Variable k : Qc.

Lemma gstep_shape pre f t0 post wl st o st' : wfz pre f t0 post wl -> shape pre f t0 post wl st ->
  gstep k st o = Some st' -> shape pre f t0 post wl st'.
Proof.
  intros Z Sh. destruct o as [M s|G M s| |]; cbn [gstep].
  - intro H. destruct (gset_shape k _ _ _ _ _ st M s Z Sh (gset_some_det k _ _ _ _ H)) as (st'' & E & Sh' & _).
    rewrite H in E. inversion E; subst. exact Sh'.
  - unfold gset_ref. destruct (qc_is0 (adet G)); [discriminate|]. intro H.
    destruct (gset_shape k _ _ _ _ _ st _ (conj_shift (amat G) (ash G) M s) Z Sh (gset_some_det k _ _ _ _ H)) as (st'' & E & Sh' & _).
    rewrite H in E. inversion E; subst. exact Sh'.
  - intro H. inversion H; subst. exact Sh.
  - rewrite (rewrap_shape _ _ _ _ _ _ Z Sh). intro H. inversion H; subst. apply shape_with_owcs. exact Sh.
Qed.

(* the invariant holds after every history *)
Lemma grun_shape pre f t0 post wl h : forall st st', wfz pre f t0 post wl -> shape pre f t0 post wl st ->
  grun k st h = Some st' -> shape pre f t0 post wl st'.
Proof.
  induction h as [|o r IH]; intros st st' Z Sh H; simpl in H.
  - inversion H; subst. exact Sh.
  - destruct (gstep k st o) as [st1|] eqn:E; [|discriminate]. apply (IH st1 st' Z); [|exact H].
    apply (gstep_shape _ _ _ _ _ _ _ _ Z Sh E).
Qed.

(* exactly one correction frame once a correction has been applied, none before *)
Lemma shape_count pre f t0 post wl st : wfz pre f t0 post wl -> shape pre f t0 post wl st ->
  count Fcorr (frames (g_wcs st)) = match g_tpcorr st with Some _ => 1%nat | None => 0%nat end.
Proof.
  intros Z [Hw Ht Hv Hc Hf | c Hw Ht Hv Hok Ha]; rewrite Hw, Ht.
  - apply count_Fcorr_fresh. exact Z.
  - apply count_Fcorr_corr. exact Z.
Qed.

Definition is_correction (o : op) : bool := match o with OpSet _ _ | OpSetRef _ _ _ => true | _ => false end.

Lemma gstep_tpcorr pre f t0 post wl st o st' : wfz pre f t0 post wl -> shape pre f t0 post wl st ->
  gstep k st o = Some st' -> (is_correction o = true \/ g_tpcorr st <> None) -> g_tpcorr st' <> None.
Proof.
  intros Z Sh. destruct o as [M s|G M s| |]; cbn [gstep is_correction].
  - intros H _. destruct (gset_shape k _ _ _ _ _ st M s Z Sh (gset_some_det k _ _ _ _ H)) as (st'' & E & _ & _ & _ & _ & Hn).
    rewrite H in E. inversion E; subst. exact Hn.
  - unfold gset_ref. destruct (qc_is0 (adet G)); [discriminate|]. intros H _.
    destruct (gset_shape k _ _ _ _ _ st _ (conj_shift (amat G) (ash G) M s) Z Sh (gset_some_det k _ _ _ _ H)) as (st'' & E & _ & _ & _ & _ & Hn).
    rewrite H in E. inversion E; subst. exact Hn.
  - intros H [X|X]; [discriminate X|]. inversion H; subst. exact X.
  - rewrite (rewrap_shape _ _ _ _ _ _ Z Sh). intros H [X|X]; [discriminate X|]. inversion H; subst. exact X.
Qed.

Lemma grun_tpcorr pre f t0 post wl h : forall st st', wfz pre f t0 post wl -> shape pre f t0 post wl st ->
  grun k st h = Some st' -> (existsb is_correction h = true \/ g_tpcorr st <> None) -> g_tpcorr st' <> None.
Proof.
  induction h as [|o r IH]; intros st st' Z Sh H Hc; simpl in H.
  - inversion H; subst. destruct Hc as [X|X]; [discriminate X| exact X].
  - destruct (gstep k st o) as [st1|] eqn:E; [|discriminate].
    assert (Sh1 := gstep_shape _ _ _ _ _ _ _ _ Z Sh E).
    apply (IH st1 st' Z Sh1 H). simpl in Hc.
    destruct (is_correction o) eqn:Eo.
    + right. apply (gstep_tpcorr _ _ _ _ _ _ _ _ Z Sh E). left. exact Eo.
    + destruct Hc as [X|X]; [left; exact X|]. right. apply (gstep_tpcorr _ _ _ _ _ _ _ _ Z Sh E). right. exact X.
Qed.

(* the caller's WCS object is never written: only re-wrapping (a new object) changes which WCS is the "original" *)
Lemma gstep_owcs st o st' : gstep k st o = Some st' -> o <> OpRewrap -> g_owcs st' = g_owcs st.
Proof.
  destruct o as [M s|G M s| |]; cbn [gstep]; intros H Hn; try contradiction.
  - unfold gset in H. destruct (g_tpcorr st).
    + destruct (tpcorr_combine _ _ _); [|discriminate]. destruct (index_of _ _) as [[|i]|]; try discriminate.
      destruct (nth_error _ _) as [[pf x]|]; [|discriminate]. inversion H; reflexivity.
    + destruct (tpcorr_combine _ _ _); [|discriminate]. destruct (index_of _ _) as [i|]; try discriminate.
      destruct (nth_error _ _) as [[pf x]|]; [|discriminate]. inversion H; reflexivity.
  - unfold gset_ref in H. destruct (qc_is0 (adet G)); [discriminate|]. unfold gset in H. destruct (g_tpcorr st).
    + destruct (tpcorr_combine _ _ _); [|discriminate]. destruct (index_of _ _) as [[|i]|]; try discriminate.
      destruct (nth_error _ _) as [[pf x]|]; [|discriminate]. inversion H; reflexivity.
    + destruct (tpcorr_combine _ _ _); [|discriminate]. destruct (index_of _ _) as [i|]; try discriminate.
      destruct (nth_error _ _) as [[pf x]|]; [|discriminate]. inversion H; reflexivity.
  - inversion H; reflexivity.
Qed.
Lemma grun_owcs h : forall st st', grun k st h = Some st' -> ~ In OpRewrap h -> g_owcs st' = g_owcs st.
Proof.
  induction h as [|o r IH]; intros st st' H Hn; simpl in H.
  - inversion H; reflexivity.
  - destruct (gstep k st o) as [st1|] eqn:E; [|discriminate].
    rewrite (IH st1 st' H) by (intro X; apply Hn; right; exact X).
    apply (gstep_owcs _ _ _ E). intro X. apply Hn. left. exact X.
Qed.
End Hist.
