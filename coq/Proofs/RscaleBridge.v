(* fit_rscale computes the similarity through an angle: theta = arctan2(num, den) (+360 deg if negative),
   ctheta = cos theta, stheta = sin theta, s_num = den*ctheta + num*stheta, mag = s_num / su2v2 (or the fixed scale).
   This file shows over R that this literal formulation equals the rational normal form used by the model:
   mag*ctheta = den/q2, mag*stheta = num/q2 (rscale) and (ctheta, stheta) = (den, num)/hyp (rshift). *)
From Coq Require Import Reals Lra Psatz.
From TW Require Import Atan2.
Open Scope R_scope.

Section Bridge.
Variables num den q2 : R.
Hypothesis nz : den <> 0 \/ num <> 0.
Hypothesis q2pos : 0 < q2.

Definition theta0 := atan2 num den.
(* the code adds a full turn to negative angles; cos and sin do not see it *)
Definition theta := if Rlt_dec theta0 0 then theta0 + 2 * PI else theta0.

Lemma cos_theta : cos theta = den / hyp den num.
Proof.
  unfold theta. destruct (Rlt_dec theta0 0).
  - rewrite cos_plus, cos_2PI, sin_2PI. unfold theta0. rewrite (cos_atan2 _ _ nz). ring.
  - unfold theta0. apply (cos_atan2 _ _ nz).
Qed.
Lemma sin_theta : sin theta = num / hyp den num.
Proof.
  unfold theta. destruct (Rlt_dec theta0 0).
  - rewrite sin_plus, cos_2PI, sin_2PI. unfold theta0. rewrite (sin_atan2 _ _ nz). ring.
  - unfold theta0. apply (sin_atan2 _ _ nz).
Qed.

Lemma hyp_sq : hyp den num * hyp den num = den * den + num * num.
Proof. unfold hyp. apply sqrt_sqrt. nra. Qed.

Definition s_num := den * cos theta + num * sin theta.

Lemma s_num_is_hyp : s_num = hyp den num.
Proof.
  pose proof (hyp_pos den num nz) as Hp. pose proof hyp_sq as Hs.
  unfold s_num. rewrite cos_theta, sin_theta.
  replace (den * (den / hyp den num) + num * (num / hyp den num)) with ((den * den + num * num) / hyp den num)
    by (field; lra).
  rewrite <- Hs. field. lra.
Qed.

(* rscale: mag = s_num / su2v2 *)
Theorem rscale_trig_form :
  s_num / q2 * cos theta = den / q2 /\ s_num / q2 * sin theta = num / q2.
Proof.
  pose proof (hyp_pos den num nz) as Hp.
  rewrite s_num_is_hyp, cos_theta, sin_theta. split; field; lra.
Qed.

(* rshift: mag = 1; the rotation is the unit vector along (den, num), which is what C06_rshift_optimal asks for *)
Theorem rshift_trig_form :
  cos theta * cos theta + sin theta * sin theta = 1 /\
  cos theta * num = sin theta * den /\ 0 <= cos theta * den + sin theta * num.
Proof.
  pose proof (hyp_pos den num nz) as Hp. pose proof hyp_sq as Hs.
  rewrite cos_theta, sin_theta. split; [|split].
  - replace (den / hyp den num * (den / hyp den num) + num / hyp den num * (num / hyp den num))
      with ((den * den + num * num) / (hyp den num * hyp den num)) by (field; lra).
    rewrite Hs. field. destruct nz; nra.
  - field. lra.
  - replace (den / hyp den num * den + num / hyp den num * num) with ((den * den + num * num) / hyp den num)
      by (field; lra).
    apply Rmult_le_pos; [nra| left; apply Rinv_0_lt_compat; exact Hp].
Qed.
End Bridge.
Print Assumptions rscale_trig_form.
Print Assumptions rshift_trig_form.
