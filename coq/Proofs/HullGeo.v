From Coq Require Import QArith Lqa Psatz List.
Require Import HullModel.
Open Scope Q_scope.

Definition lt (a b : pt) : Prop := fst a < fst b \/ (fst a == fst b /\ snd a < snd b).
Definition eqp (a b : pt) : Prop := fst a == fst b /\ snd a == snd b.
Definition le (a b : pt) : Prop := lt a b \/ eqp a b.

Lemma lt_trans a b c : lt a b -> lt b c -> lt a c.
Proof. unfold lt. destruct a, b, c; simpl. intros [H|[H H']] [G|[G G']]; [left|left|left|right; split]; lra. Qed.
Lemma le_lt_trans a b c : le a b -> lt b c -> lt a c.
Proof. unfold le, lt, eqp. destruct a, b, c; simpl. intros [[H|[H H']]|[H H']] [G|[G G']]; try (left; lra); right; split; lra. Qed.
Lemma lt_le_trans a b c : lt a b -> le b c -> lt a c.
Proof. unfold le, lt, eqp. destruct a, b, c; simpl. intros [H|[H H']] [[G|[G G']]|[G G']]; try (left; lra); right; split; lra. Qed.
Lemma lt_irrefl a : ~ lt a a.
Proof. unfold lt. destruct a; simpl. intros [H|[H H']]; lra. Qed.
Lemma lt_le a b : lt a b -> le a b. Proof. intros; left; assumption. Qed.
Lemma le_refl a : le a a. Proof. right; split; reflexivity. Qed.
Lemma tricho a b : lt a b \/ eqp a b \/ lt b a.
Proof. unfold lt, eqp. destruct a as [ax ay], b as [bx b_y]; simpl.
  destruct (Q_dec ax bx) as [[H|H]|H]; [left; left; exact H| right; right; left; exact H|].
  destruct (Q_dec ay b_y) as [[G|G]|G]; [left; right; split; assumption| right; right; right; split; [symmetry|]; assumption| right; left; split; assumption]. Qed.
Lemma le_not_lt a b : le a b -> lt b a -> False.
Proof. unfold le, lt, eqp. destruct a, b; simpl. intros [[H|[H H']]|[H H']] [G|[G G']]; lra. Qed.

(* geometric lemmas (all closed by nra after case analysis on lexicographic ties) *)
Lemma G1 a b c p : lt a b -> lt b c -> lt c p -> 0 < cr a b c -> 0 < cr b c p -> 0 < cr a b p.
Proof. unfold cr, lt. destruct a, b, c, p; simpl. intros [H1|[H1 H1']] [H2|[H2 H2']] [H3|[H3 H3']] H4 H5; nra. Qed.
Lemma G2 a b p q : lt a b -> lt b p -> lt q b -> 0 <= cr a b q -> 0 < cr a b p -> 0 <= cr b p q.
Proof. unfold cr, lt. destruct a, b, p, q; simpl. intros [H1|[H1 H1']] [H2|[H2 H2']] [H3|[H3 H3']] H4 H5; nra. Qed.
Lemma G3 t3 t2 t1 p : lt t3 t2 -> lt t2 t1 -> lt t1 p -> 0 <= cr t2 p t1 -> 0 <= cr t3 p t2 -> 0 <= cr t3 p t1.
Proof. unfold cr, lt. destruct t3, t2, t1, p; simpl. intros [H1|[H1 H1']] [H2|[H2 H2']] [H3|[H3 H3']] H4 H5; nra. Qed.
Lemma G4 a q b p : lt a q -> lt q b -> lt b p -> 0 <= cr a b q -> cr a b p <= 0 -> 0 <= cr a p q.
Proof. unfold cr, lt. destruct a, q, b, p; simpl. intros [H1|[H1 H1']] [H2|[H2 H2']] [H3|[H3 H3']] H4 H5; nra. Qed.
Lemma G5 a b p : cr a b p <= 0 -> 0 <= cr a p b.
Proof. unfold cr. destruct a, b, p; simpl. intros; nra. Qed.
Lemma G6 a p q : eqp q a -> cr a p q == 0.
Proof. unfold cr, eqp. destruct a, p, q; simpl. intros [H H']. rewrite H, H'. ring. Qed.
Lemma G7 a p : cr a p p == 0.
Proof. unfold cr. destruct a, p; simpl. ring. Qed.
Lemma cr_eqp_r a p q q' : eqp q q' -> cr a p q == cr a p q'.
Proof. unfold cr, eqp. destruct a, p, q, q'; simpl. intros [H H']. rewrite H, H'. reflexivity. Qed.
