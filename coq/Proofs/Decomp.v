(* C10: the descriptive quantities of _build_fit are consistent with the matrix (over R) *)
From Coq Require Import Reals Lra Psatz.
From TW Require Import Atan2.
Open Scope R_scope.

Definition deg (x : R) : R := x * 180 / PI.      (* numpy.rad2deg *)
Definition rad (x : R) : R := x * PI / 180.

Lemma rad_deg x : rad (deg x) = x.
Proof. unfold rad, deg. pose proof PI_RGT_0. field. lra. Qed.

(* _build_fit, fitgeom = 'general' (also the improper branch of rscale/rshift):
   matrix rows (p0, p1), (q0, q1); sx = |(p0,q0)|, sy = |(p1,q1)|;
   rotx = atan2(-q0/sx, p0/sx), roty = atan2(p1/sy, q1/sy) *)
Section General.
Variables p0 p1 q0 q1 : R.
Hypothesis c0 : p0 <> 0 \/ q0 <> 0.
Hypothesis c1 : p1 <> 0 \/ q1 <> 0.
Definition gsx := hyp p0 q0.
Definition gsy := hyp p1 q1.
Definition grotx := atan2 (- q0 / gsx) (p0 / gsx).
Definition groty := atan2 (p1 / gsy) (q1 / gsy).

Lemma hyp_unit x y : (x <> 0 \/ y <> 0) -> hyp (x / hyp x y) (y / hyp x y) = 1.
Proof.
  intros H. pose proof (hyp_pos x y H) as Hp. unfold hyp at 1.
  replace (x / hyp x y * (x / hyp x y) + y / hyp x y * (y / hyp x y))
    with ((x * x + y * y) / (hyp x y * hyp x y)) by (field; lra).
  unfold hyp. rewrite sqrt_sqrt.
  - replace ((x * x + y * y) / (x * x + y * y)) with 1; [apply sqrt_1|].
    field. intro E. assert (x * x + y * y = 0 -> False); [|tauto]. destruct H; nra.
  - nra.
Qed.

Lemma hyp_neg_r x y : hyp x (- y) = hyp x y.
Proof. unfold hyp. f_equal. ring. Qed.

(* build_fit_matrix (rot, scale) reproduces the matrix *)
Theorem build_matrix_identity :
  gsx * cos grotx = p0 /\ - gsx * sin grotx = q0 /\ gsy * sin groty = p1 /\ gsy * cos groty = q1.
Proof.
  pose proof (hyp_pos p0 q0 c0) as Hx. pose proof (hyp_pos p1 q1 c1) as Hy.
  fold gsx in Hx. fold gsy in Hy.
  assert (Nx: p0 / gsx <> 0 \/ - q0 / gsx <> 0).
  { destruct c0 as [H|H]; [left|right]; intro E; apply H.
    - apply (Rmult_eq_compat_r gsx) in E. unfold Rdiv in E. rewrite Rmult_assoc, Rinv_l, Rmult_1_r, Rmult_0_l in E by lra. exact E.
    - apply (Rmult_eq_compat_r gsx) in E. unfold Rdiv in E. rewrite Rmult_assoc, Rinv_l, Rmult_1_r, Rmult_0_l in E by lra. lra. }
  assert (Ny: q1 / gsy <> 0 \/ p1 / gsy <> 0).
  { destruct c1 as [H|H]; [right|left]; intro E; apply H;
      apply (Rmult_eq_compat_r gsy) in E; unfold Rdiv in E;
      rewrite Rmult_assoc, Rinv_l, Rmult_1_r, Rmult_0_l in E by lra; exact E. }
  assert (Ux: hyp (p0 / gsx) (- q0 / gsx) = 1).
  { replace (- q0 / gsx) with (- (q0 / gsx)) by (field; lra). rewrite hyp_neg_r. apply (hyp_unit p0 q0 c0). }
  assert (Uy: hyp (q1 / gsy) (p1 / gsy) = 1).
  { assert (c1': q1 <> 0 \/ p1 <> 0) by tauto.
    replace gsy with (hyp q1 p1) by (unfold gsy, hyp; f_equal; ring). apply (hyp_unit q1 p1 c1'). }
  unfold grotx, groty.
  rewrite (cos_atan2 _ _ Nx), (sin_atan2 _ _ Nx), (cos_atan2 _ _ Ny), (sin_atan2 _ _ Ny), Ux, Uy.
  repeat split; field; lra.
Qed.

Theorem angles_in_range :
  -180 <= deg grotx <= 180 /\ -180 <= deg groty <= 180 /\ -180 <= (deg grotx + deg groty) / 2 <= 180.
Proof.
  pose proof PI_RGT_0 as HP.
  pose proof (atan2_range (- q0 / gsx) (p0 / gsx)) as [A1 A2]. fold grotx in A1, A2.
  pose proof (atan2_range (p1 / gsy) (q1 / gsy)) as [B1 B2]. fold groty in B1, B2.
  assert (D: forall x, - PI <= x <= PI -> -180 <= deg x <= 180).
  { intros x [H1 H2]. unfold deg. split.
    - apply (Rmult_le_reg_r PI); [lra|]. replace (x * 180 / PI * PI) with (x * 180) by (field; lra). nra.
    - apply (Rmult_le_reg_r PI); [lra|]. replace (x * 180 / PI * PI) with (x * 180) by (field; lra). nra. }
  pose proof (D grotx (conj A1 A2)). pose proof (D groty (conj B1 B2)). lra.
Qed.
End General.

(* <scale> = sqrt |det|, proper <-> det > 0 for det <> 0 (np.sign(det) >= 0) *)
Definition det2 (p0 p1 q0 q1 : R) := p0 * q1 - p1 * q0.
Definition mean_scale (p0 p1 q0 q1 : R) := sqrt (Rabs (det2 p0 p1 q0 q1)).
Theorem mean_scale_sq p0 p1 q0 q1 : mean_scale p0 p1 q0 q1 * mean_scale p0 p1 q0 q1 = Rabs (det2 p0 p1 q0 q1).
Proof. unfold mean_scale. apply sqrt_sqrt. apply Rabs_pos. Qed.

(* for a (proper or improper) similarity matrix the per-axis scales equal the mean scale *)
Theorem similarity_scales a b : (a <> 0 \/ b <> 0) ->
  mean_scale a b (- b) a = hyp a (- b) /\ mean_scale a b b (- a) = hyp a b.
Proof.
  intros H. unfold mean_scale, det2, hyp. split; f_equal.
  - rewrite Rabs_right; [ring| nra].
  - replace (a * - a - b * b) with (- (a * a + b * b)) by ring. rewrite Rabs_Ropp, Rabs_right; [ring| nra].
Qed.

(* skew = mod (roty - rotx - 180, 360) - 180 with numpy's floor-mod *)
Definition fmod (x m : R) : R := x - IZR (Int_part (x / m)) * m.
Definition skew (rotx roty : R) : R := fmod (roty - rotx - 180) 360 - 180.

Theorem skew_spec rotx roty :
  -180 <= skew rotx roty < 180 /\ exists k : Z, skew rotx roty = roty - rotx - 360 * IZR (1 + k).
Proof.
  unfold skew, fmod. set (x := roty - rotx - 180).
  destruct (base_Int_part (x / 360)) as [H1 H2]. set (k := Int_part (x / 360)) in *.
  assert (E: x = x / 360 * 360) by (field).
  split.
  - split; nra.
  - exists k. rewrite plus_IZR. unfold x. simpl. ring.
Qed.

(* so skew is roty - rotx wrapped by a whole number of turns *)
Print Assumptions build_matrix_identity.
Print Assumptions skew_spec.
