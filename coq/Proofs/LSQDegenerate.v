(* degenerate point configurations make fit_general report a singular system *)
From Coq Require Import QArith Qabs List Bool Arith Lia Lqa.
Require Import GJModel GJSum GJProof1 GJProof2 GJProof3 GJProof4 GJProof5 GJComplete LSQ.
Import ListNotations.
Open Scope Q_scope.

Lemma sumQ_zero f l : (forall p, In p l -> f p == 0) -> sumQ f l == 0.
Proof. induction l as [|p l IH]; simpl; intros H; [reflexivity|].
  rewrite (H p) by auto. rewrite IH; [ring| intros; apply H; auto]. Qed.

Lemma lin3 f g h a b c l :
  sumQ f l * a + sumQ g l * b + sumQ h l * c == sumQ (fun p => f p * a + g p * b + h p * c) l.
Proof. induction l as [|p l IH]; simpl; [ring| rewrite <- IH; ring]. Qed.

Theorem fit_general_degenerate l a b c :
  (~ a == 0 \/ ~ b == 0 \/ ~ c == 0) ->
  (forall p, In p l -> pw p * (a * pu p + b * pv p + c) == 0) ->
  fit_general l = FitSingular.
Proof.
  intros Hnz Hline.
  assert (S: inv_gj (Mmat l) = Singular).
  { apply (inv_gj_null_vector_singular 3 (Mmat l) (fun j => qnth [a; b; c] j)).
    - split; [reflexivity|]. intros r [<-|[<-|[<-|[]]]]; reflexivity.
    - intros i Hi.
      assert (E0: su l * a + sv l * b + sw l * c == 0).
      { unfold su, sv, sw. rewrite lin3. apply sumQ_zero. intros p Hp.
        transitivity (pw p * (a * pu p + b * pv p + c)); [ring| apply Hline; exact Hp]. }
      assert (E1: suu l * a + suv l * b + su l * c == 0).
      { unfold suu, suv, su. rewrite lin3. apply sumQ_zero. intros p Hp.
        transitivity (pu p * (pw p * (a * pu p + b * pv p + c))); [ring| rewrite (Hline p Hp); apply Qmult_0_r]. }
      assert (E2: suv l * a + svv l * b + sv l * c == 0).
      { unfold suv, svv, sv. rewrite lin3. apply sumQ_zero. intros p Hp.
        transitivity (pv p * (pw p * (a * pu p + b * pv p + c))); [ring| rewrite (Hline p Hp); apply Qmult_0_r]. }
      destruct i as [|[|[|i]]]; [| | |lia]; cbn.
      + transitivity (su l * a + sv l * b + sw l * c); [ring| exact E0].
      + transitivity (suu l * a + suv l * b + su l * c); [ring| exact E1].
      + transitivity (suv l * a + svv l * b + sv l * c); [ring| exact E2].
    - destruct Hnz as [H|[H|H]]; [exists 0%nat|exists 1%nat|exists 2%nat]; (split; [lia| exact H]). }
  unfold fit_general. rewrite S. reflexivity.
Qed.
Print Assumptions fit_general_degenerate.
