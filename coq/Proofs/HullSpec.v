(* the theorems about the whole function convex_hull_model (front end + chains + surgery + merging) *)
From Coq Require Import QArith Qabs Lqa Psatz List Sorting.Sorted Bool Lia.
Require Import HullModel HullGeo HullProof HullUpper HullFull HullFront HullClosed HullMerge HullTurns.
Import ListNotations.
Open Scope Q_scope.

Lemma qltb_false s : 0 <= s -> qltb s 0 = false.
Proof. intros H. destruct (qltb s 0) eqn:E; [|reflexivity]. apply qltb_lt in E. lra. Qed.

Lemma chm_none xs ys : convex_hull_model xs ys None = Some (hull_raw (combine xs ys)).
Proof.
  unfold convex_hull_model, hull_raw. destruct (sort_set (combine xs ys)) as [|p [|p' r]]; reflexivity.
Qed.
Lemma chm_some xs ys s : 0 <= s ->
  convex_hull_model xs ys (Some s) = Some (merge s (hull_raw (combine xs ys))).
Proof.
  intros H. unfold convex_hull_model, hull_raw. rewrite (qltb_false s H).
  destruct (sort_set (combine xs ys)) as [|p [|p' r]]; reflexivity.
Qed.
Lemma chm_neg xs ys s : s < 0 -> convex_hull_model xs ys (Some s) = None.
Proof. intros H. unfold convex_hull_model. apply qltb_lt in H. rewrite H. reflexivity. Qed.

Lemma chm_cases xs ys ms h : convex_hull_model xs ys ms = Some h ->
  (ms = None /\ h = hull_raw (combine xs ys)) \/
  (exists s, ms = Some s /\ 0 <= s /\ h = merge s (hull_raw (combine xs ys))).
Proof.
  destruct ms as [s|].
  - destruct (Qlt_le_dec s 0) as [G|G].
    + rewrite (chm_neg xs ys s G). discriminate.
    + rewrite (chm_some xs ys s G). intros E. inversion E. right. exists s. auto.
  - rewrite chm_none. intros E. inversion E. left. auto.
Qed.

Lemma hull_raw_closed pts : hd d0 (hull_raw pts) = last (hull_raw pts) d0.
Proof.
  destruct (hull_raw pts) as [|v t] eqn:E; [reflexivity|].
  destruct (hull_raw_ends pts) as [p0 [_ [H1 H2]]]; [rewrite E; discriminate|].
  rewrite E in H1, H2. rewrite H1, H2. reflexivity.
Qed.

(* ---- output vertices are input points *)
Theorem chm_vertices_are_input xs ys ms h v :
  convex_hull_model xs ys ms = Some h -> In v h -> In v (combine xs ys).
Proof.
  intros E Hv. destruct (chm_cases _ _ _ _ E) as [[_ ->]|[s [_ [_ ->]]]].
  - apply hull_raw_sub. exact Hv.
  - apply hull_raw_sub.
    destruct (merge_spec s (hull_raw (combine xs ys)) (hull_raw_closed _)) as [H _].
    apply (subseq_in _ _ v H Hv).
Qed.

(* ---- first = last = lexicographic minimum *)
Theorem chm_ends xs ys ms h : convex_hull_model xs ys ms = Some h -> h <> [] ->
  exists p0, is_lexmin p0 (combine xs ys) /\ hd d0 h = p0 /\ last h d0 = p0.
Proof.
  intros E Hne. destruct (chm_cases _ _ _ _ E) as [[_ ->]|[s [_ [_ ->]]]].
  - apply hull_raw_ends. exact Hne.
  - set (h0 := hull_raw (combine xs ys)) in *.
    assert (Hne0: h0 <> []) by (intros Z; apply Hne; rewrite Z; reflexivity).
    destruct (hull_raw_ends (combine xs ys) Hne0) as [p0 [H0 [H1 H2]]]. fold h0 in H1, H2.
    destruct (merge_spec s h0 (hull_raw_closed _)) as [_ [G1 [G2 _]]].
    exists p0. split; [exact H0|]. split; [rewrite G1; exact H1| rewrite G2; exact H2].
Qed.

(* ---- containment: every input point is on or left of every directed edge of the (unmerged) hull *)
Theorem chm_contains xs ys h q : convex_hull_model xs ys None = Some h -> In q (combine xs ys) ->
  forall a b, In (a, b) (edges h) -> 0 <= cr a b q.
Proof.
  rewrite chm_none. intros E. inversion E. intros Hq a b. apply hull_raw_contains. exact Hq.
Qed.

(* ---- strict convexity (cyclically) for non-collinear input *)
Lemma cr_eqp3 o o' a a' b b' : eqp o o' -> eqp a a' -> eqp b b' -> cr o a b == cr o' a' b'.
Proof.
  unfold cr, eqp. destruct o, o', a, a', b, b'; simpl. intros [H1 H2] [H3 H4] [H5 H6].
  rewrite H1, H2, H3, H4, H5, H6. reflexivity.
Qed.
Lemma noncoll_sort_set pts : noncoll pts -> noncoll (sort_set pts).
Proof.
  intros [p [q [r [Hp [Hq [Hr Hn]]]]]].
  destruct (sort_set_complete pts p Hp) as [p' [Hp' Ep]].
  destruct (sort_set_complete pts q Hq) as [q' [Hq' Eq]].
  destruct (sort_set_complete pts r Hr) as [r' [Hr' Er]].
  exists p', q', r'. repeat (split; [assumption|]).
  rewrite <- (cr_eqp3 p p' q q' r r' Ep Eq Er). exact Hn.
Qed.
Theorem hull_raw_lturns pts : noncoll pts ->
  lturns (hull_raw pts ++ firstn 1 (tl (hull_raw pts))).
Proof.
  intros Hn. apply noncoll_sort_set in Hn.
  destruct (hull_raw_cases pts) as [[E _]|[[p [E _]]|[Hl ->]]].
  - exfalso. rewrite E in Hn. destruct Hn as [p [_ [_ [[] _]]]].
  - exfalso. rewrite E in Hn. destruct Hn as [a [b [c [[<-|[]] [[<-|[]] [[<-|[]] Hn]]]]]].
    apply Hn. unfold cr. ring.
  - apply hull_sorted_lturns; [apply sort_set_sorted| exact Hl| exact Hn].
Qed.
Theorem chm_strictly_convex xs ys h : noncoll (combine xs ys) ->
  convex_hull_model xs ys None = Some h -> lturns (h ++ firstn 1 (tl h)).
Proof. rewrite chm_none. intros Hn E. inversion E. apply hull_raw_lturns. exact Hn. Qed.

(* ---- merging *)
Theorem chm_merge xs ys s h0 h :
  convex_hull_model xs ys None = Some h0 -> convex_hull_model xs ys (Some s) = Some h ->
  subseq h h0 /\ hd d0 h = hd d0 h0 /\ last h d0 = last h0 d0 /\
  ((length h <= 2)%nat \/ nocl s h).
Proof.
  rewrite chm_none. intros E0 E. inversion E0 as [E0']. clear E0.
  destruct (chm_cases _ _ _ _ E) as [[Z _]|[s' [Z [_ ->]]]]; [discriminate|].
  inversion Z; subst s'. apply merge_spec. apply hull_raw_closed.
Qed.

(* ---- totality / error exit *)
Theorem chm_total xs ys ms : (forall s, ms = Some s -> 0 <= s) -> exists h, convex_hull_model xs ys ms = Some h.
Proof.
  destruct ms as [s|]; intros H.
  - rewrite (chm_some xs ys s (H s eq_refl)). eexists; reflexivity.
  - rewrite chm_none. eexists; reflexivity.
Qed.
