(* list surgery of convex_hull: total_hull = lower[:-1] + upper is the closed polygon
   p0 :: lower-interior ++ pmax :: upper-interior ++ [p0]; its edges are the edges of the two chains;
   hence containment of every input point, vertices are input points, first = last = minimum *)
From Coq Require Import QArith Lqa Psatz List Sorting.Sorted Bool Lia.
Require Import HullModel HullGeo HullProof HullUpper HullFull HullFront.
Import ListNotations.
Open Scope Q_scope.

(* ---- ends of a chain *)
Lemma popw_last st p d : last (popw st p) d = last st d.
Proof.
  induction st as [|b st IH]; [reflexivity|].
  destruct st as [|a r]; [reflexivity|].
  change (popw (b :: a :: r) p) with (if Qle_bool (cr a b p) 0 then popw (a :: r) p else b :: a :: r).
  destruct (Qle_bool (cr a b p) 0); [|reflexivity].
  rewrite IH. reflexivity.
Qed.
Lemma popw_ne st p : st <> [] -> popw st p <> [].
Proof.
  induction st as [|b st IH]; [intros H; contradiction|].
  intros _. destruct st as [|a r]; [discriminate|].
  change (popw (b :: a :: r) p) with (if Qle_bool (cr a b p) 0 then popw (a :: r) p else b :: a :: r).
  destruct (Qle_bool (cr a b p) 0); [apply IH; discriminate| discriminate].
Qed.
Lemma popw_sub st p x : In x (popw st p) -> In x st.
Proof.
  induction st as [|b st IH]; [intros []|].
  destruct st as [|a r]; [intros H; exact H|].
  change (popw (b :: a :: r) p) with (if Qle_bool (cr a b p) 0 then popw (a :: r) p else b :: a :: r).
  destruct (Qle_bool (cr a b p) 0); [intros H; right; apply IH; exact H| intros H; exact H].
Qed.
Lemma fold_push_last l : forall st d, st <> [] -> last (fold_left push l st) d = last st d.
Proof.
  induction l as [|a l IH]; intros st d H; [reflexivity|].
  simpl. rewrite IH by (unfold push; discriminate).
  unfold push. pose proof (popw_ne st a H) as Hne.
  destruct (popw st a) as [|x t] eqn:E; [contradiction|].
  change (last (a :: x :: t) d) with (last (x :: t) d). rewrite <- E. apply popw_last.
Qed.
Lemma chain_last p l d : last (chain (p :: l)) d = p.
Proof. unfold chain. simpl. rewrite fold_push_last by (unfold push; discriminate). reflexivity. Qed.
Lemma chain_snoc l x : chain (l ++ [x]) = x :: popw (chain l) x.
Proof. unfold chain. rewrite fold_left_app. reflexivity. Qed.
Lemma fold_push_sub l : forall st x, In x (fold_left push l st) -> In x st \/ In x l.
Proof.
  induction l as [|a l IH]; intros st x H; [left; exact H|].
  simpl in H. destruct (IH _ _ H) as [G|G]; [| right; right; exact G].
  unfold push in G. destruct G as [<-|G]; [right; left; reflexivity| left; apply (popw_sub st a); exact G].
Qed.
Lemma chain_sub l x : In x (chain l) -> In x l.
Proof. unfold chain. intros H. destruct (fold_push_sub _ _ _ H) as [[]|G]; exact G. Qed.

Lemma two_ends (X : list pt) a z : X <> [] -> hd d0 X = a -> last X d0 = z -> a <> z ->
  exists mid, X = a :: mid ++ [z].
Proof.
  intros Hne Hh Hl Hd. destruct X as [|x T]; [contradiction|]. simpl in Hh. subst x.
  destruct T as [|t T'].
  - simpl in Hl. contradiction.
  - destruct (@exists_last _ (t :: T') ltac:(discriminate)) as [mid [z' E]]. rewrite E in *.
    exists mid. rewrite app_comm_cons in Hl. rewrite last_last in Hl. subst z'. reflexivity.
Qed.

Lemma last_shape (a m z : pt) A B d : last (a :: A ++ m :: B ++ [z]) d = z.
Proof.
  replace (a :: A ++ m :: B ++ [z]) with ((a :: A ++ m :: B) ++ [z])
    by (simpl; rewrite <- app_assoc; reflexivity).
  apply last_last.
Qed.

(* ---- shape of the total hull of >= 2 distinct sorted points *)
Lemma hull_shape S : StronglySorted lt S -> (2 <= length S)%nat ->
  exists lo up, rev (chain S) = hd d0 S :: lo ++ [last S d0] /\
                rev (chain (rev S)) = last S d0 :: up ++ [hd d0 S] /\
                hull_sorted S = hd d0 S :: lo ++ last S d0 :: up ++ [hd d0 S] /\
                lt (hd d0 S) (last S d0).
Proof.
  intros Hs Hlen. destruct S as [|p0 l]; [simpl in Hlen; lia|].
  destruct l as [|p1 l1]; [simpl in Hlen; lia|].
  destruct (@exists_last _ (p0 :: p1 :: l1) ltac:(discriminate)) as [l' [m E]].
  assert (Em: last (p0 :: p1 :: l1) d0 = m) by (rewrite E; apply last_last).
  cbn [hd]. rewrite Em.
  assert (Hlt: lt p0 m).
  { destruct (StronglySorted_inv Hs) as [_ F]. rewrite Forall_forall in F. apply F.
    rewrite <- Em. change (last (p0 :: p1 :: l1) d0) with (last (p1 :: l1) d0).
    apply last_in. discriminate. }
  assert (Hd: p0 <> m) by (intros ->; apply (lt_irrefl m); exact Hlt).
  (* lower chain: top = m, bottom = p0 *)
  assert (L: exists T, chain (p0 :: p1 :: l1) = m :: T ++ [p0]).
  { apply two_ends.
    - rewrite E, chain_snoc. discriminate.
    - rewrite E, chain_snoc. reflexivity.
    - apply chain_last.
    - intros H; apply Hd; symmetry; exact H. }
  (* upper chain: top = p0, bottom = m *)
  assert (U: exists T, chain (rev (p0 :: p1 :: l1)) = p0 :: T ++ [m]).
  { apply two_ends.
    - change (rev (p0 :: p1 :: l1)) with (rev (p1 :: l1) ++ [p0]). rewrite chain_snoc. discriminate.
    - change (rev (p0 :: p1 :: l1)) with (rev (p1 :: l1) ++ [p0]). rewrite chain_snoc. reflexivity.
    - rewrite E, rev_app_distr. simpl. apply chain_last.
    - exact Hd. }
  destruct L as [T EL]. destruct U as [T' EU].
  exists (rev T), (rev T').
  assert (R1: rev (chain (p0 :: p1 :: l1)) = p0 :: rev T ++ [m]).
  { rewrite EL. simpl. rewrite rev_app_distr. reflexivity. }
  assert (R2: rev (chain (rev (p0 :: p1 :: l1))) = m :: rev T' ++ [p0]).
  { rewrite EU. simpl. rewrite rev_app_distr. reflexivity. }
  split; [exact R1|]. split; [exact R2|]. split; [| exact Hlt].
  unfold hull_sorted. rewrite R1, R2.
  rewrite app_comm_cons, removelast_last. reflexivity.
Qed.

(* ---- edges of a concatenation sharing the vertex m *)
Lemma edges_join (A B : list pt) m : edges (A ++ m :: B) = edges (A ++ [m]) ++ edges (m :: B).
Proof.
  induction A as [|a A IH]; [reflexivity|].
  destruct A as [|a' A']; [reflexivity|].
  change ((a :: a' :: A') ++ m :: B) with (a :: a' :: (A' ++ m :: B)).
  change ((a :: a' :: A') ++ [m]) with (a :: a' :: (A' ++ [m])).
  cbn [edges]. cbn [app] in IH. cbn [edges] in IH. rewrite IH. reflexivity.
Qed.

Lemma hull_sorted_edges S : StronglySorted lt S -> (2 <= length S)%nat ->
  forall e, In e (edges (hull_sorted S)) ->
    In e (edges (rev (chain S))) \/ In e (edges (rev (chain (rev S)))).
Proof.
  intros Hs Hl e He. destruct (hull_shape S Hs Hl) as [lo [up [R1 [R2 [R3 _]]]]].
  rewrite R1, R2. rewrite R3 in He.
  change (hd d0 S :: lo ++ last S d0 :: up ++ [hd d0 S])
    with ((hd d0 S :: lo) ++ last S d0 :: (up ++ [hd d0 S])) in He.
  rewrite edges_join in He. apply in_app_or in He. exact He.
Qed.

Theorem hull_sorted_contains S : StronglySorted lt S -> (2 <= length S)%nat ->
  forall q, In q S -> forall a b, In (a, b) (edges (hull_sorted S)) -> 0 <= cr a b q.
Proof.
  intros Hs Hl q Hq a b He.
  destruct (hull_contains S Hs q Hq) as [H1 H2].
  destruct (hull_sorted_edges S Hs Hl _ He) as [G|G]; [apply H1| apply H2]; exact G.
Qed.

Lemma hull_sorted_sub S x : In x (hull_sorted S) -> In x S.
Proof.
  unfold hull_sorted. intros H. apply in_app_or in H. destruct H as [H|H].
  - assert (G: In x (rev (chain S))).
    { destruct (rev (chain S)) as [|y t] eqn:E; [simpl in H; contradiction|].
      destruct (@exists_last _ (y :: t) ltac:(discriminate)) as [t' [z E']]. rewrite E' in *.
      rewrite removelast_last in H. apply in_or_app. left. exact H. }
    apply in_rev in G. apply chain_sub. exact G.
  - apply in_rev in H. apply chain_sub in H. apply in_rev. exact H.
Qed.

(* ---- the unmerged hull of an arbitrary list of points *)
Lemma hull_raw_cases pts :
  (sort_set pts = [] /\ hull_raw pts = []) \/
  (exists p, sort_set pts = [p] /\ hull_raw pts = [p]) \/
  ((2 <= length (sort_set pts))%nat /\ hull_raw pts = hull_sorted (sort_set pts)).
Proof.
  unfold hull_raw. destruct (sort_set pts) as [|p [|p' r]].
  - left. split; reflexivity.
  - right. left. exists p. split; reflexivity.
  - right. right. split; [simpl; lia| reflexivity].
Qed.

Theorem hull_raw_sub pts v : In v (hull_raw pts) -> In v pts.
Proof.
  destruct (hull_raw_cases pts) as [[_ ->]|[[p [E ->]]|[_ ->]]].
  - intros [].
  - intros [<-|[]]. apply sort_set_sub. rewrite E. left; reflexivity.
  - intros H. apply sort_set_sub, hull_sorted_sub, H.
Qed.

Theorem hull_raw_contains pts q : In q pts ->
  forall a b, In (a, b) (edges (hull_raw pts)) -> 0 <= cr a b q.
Proof.
  intros Hq a b. destruct (hull_raw_cases pts) as [[_ ->]|[[p [E ->]]|[Hl ->]]].
  - intros [].
  - intros [].
  - intros He. destruct (sort_set_complete pts q Hq) as [q' [H1 H2]].
    rewrite (cr_eqp_r a b q q' H2).
    apply (hull_sorted_contains (sort_set pts) (sort_set_sorted pts) Hl q' H1 a b He).
Qed.

(* first = last = the lexicographically smallest input point *)
Definition is_lexmin (p0 : pt) (pts : list pt) : Prop := In p0 pts /\ forall q, In q pts -> le p0 q.

Lemma sort_set_hd_lexmin pts : sort_set pts <> [] -> is_lexmin (hd d0 (sort_set pts)) pts.
Proof.
  intros Hne. pose proof (sort_set_sorted pts) as Hs.
  destruct (sort_set pts) as [|p0 l] eqn:E; [contradiction|]. cbn [hd]. split.
  - apply sort_set_sub. rewrite E. left; reflexivity.
  - intros q Hq. destruct (sort_set_complete pts q Hq) as [q' [H1 H2]]. rewrite E in H1.
    apply (le_eqp_r p0 q' q); [apply (sorted_hd_min p0 l Hs q' H1)| apply eqp_sym; exact H2].
Qed.

Theorem hull_raw_ends pts : hull_raw pts <> [] ->
  exists p0, is_lexmin p0 pts /\ hd d0 (hull_raw pts) = p0 /\ last (hull_raw pts) d0 = p0.
Proof.
  destruct (hull_raw_cases pts) as [[_ ->]|[[p [E ->]]|[Hl ->]]].
  - intros H; contradiction.
  - intros _. exists p. split; [|split; reflexivity].
    pose proof (sort_set_hd_lexmin pts) as H. rewrite E in H. apply H. discriminate.
  - intros _. exists (hd d0 (sort_set pts)).
    destruct (hull_shape _ (sort_set_sorted pts) Hl) as [lo [up [_ [_ [R3 _]]]]].
    split; [apply sort_set_hd_lexmin; destruct (sort_set pts); [simpl in Hl; lia| discriminate]|].
    rewrite R3. split; [reflexivity|].
    apply last_shape.
Qed.
