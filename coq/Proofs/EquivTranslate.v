(* C08 at parameter level for the general family: translating BOTH coordinate sets by (t1, t2) (equivalently:
   choosing another rotation centre) leaves the matrix unchanged and moves the shift by t - F t *)
From Coq Require Import QArith Qabs List Bool Arith Lia Lqa Psatz.
From TW Require Import GJModel LSQ Weights Equivariance Unique.
Import ListNotations.
Open Scope Q_scope.

Definition tr (t1 t2 : Q) : pr -> pr := map_pts (fun z => (fst z + t1, snd z + t2)).

Lemma ssr_x_translate t1 t2 l (c : row) :
  ssr (map (tr t1 t2) l) px [qnth c 0; qnth c 1; qnth c 2 + t1 - (qnth c 0 * t1 + qnth c 1 * t2)] == ssr l px c.
Proof.
  unfold ssr. rewrite sumQ_map. apply sumQ_ext. intros p _.
  unfold tr, map_pts, sq; cbn [px py pu pv pw fst snd qnth nth]. ring.
Qed.
Lemma ssr_y_translate t1 t2 l (c : row) :
  ssr (map (tr t1 t2) l) py [qnth c 0; qnth c 1; qnth c 2 + t2 - (qnth c 0 * t1 + qnth c 1 * t2)] == ssr l py c.
Proof.
  unfold ssr. rewrite sumQ_map. apply sumQ_ext. intros p _.
  unfold tr, map_pts, sq; cbn [px py pu pv pw fst snd qnth nth]. ring.
Qed.

(* undo: a coefficient triple for the translated data corresponds to one for the original data *)
Lemma ssr_x_untranslate t1 t2 l (c : row) :
  ssr (map (tr t1 t2) l) px c == ssr l px [qnth c 0; qnth c 1; qnth c 2 - t1 + (qnth c 0 * t1 + qnth c 1 * t2)].
Proof.
  rewrite <- (ssr_x_translate t1 t2 l [qnth c 0; qnth c 1; qnth c 2 - t1 + (qnth c 0 * t1 + qnth c 1 * t2)]).
  unfold ssr. apply sumQ_ext. intros p _. cbn [qnth nth]. unfold sq. ring.
Qed.
Lemma ssr_y_untranslate t1 t2 l (c : row) :
  ssr (map (tr t1 t2) l) py c == ssr l py [qnth c 0; qnth c 1; qnth c 2 - t2 + (qnth c 0 * t1 + qnth c 1 * t2)].
Proof.
  rewrite <- (ssr_y_translate t1 t2 l [qnth c 0; qnth c 1; qnth c 2 - t2 + (qnth c 0 * t1 + qnth c 1 * t2)]).
  unfold ssr. apply sumQ_ext. intros p _. cbn [qnth nth]. unfold sq. ring.
Qed.

Lemma tr_weight t1 t2 z : pw (tr t1 t2 z) = pw z.
Proof. reflexivity. Qed.

Theorem general_fit_translate_params t1 t2 l p q p' q' a b c :
  (forall z, In z l -> 0 <= pw z) ->
  fit_general l = FitOk p q -> fit_general (map (tr t1 t2) l) = FitOk p' q' ->
  In a l -> In b l -> In c l -> 0 < pw a -> 0 < pw b -> 0 < pw c -> noncollinear3 a b c ->
  (qnth p' 0 == qnth p 0 /\ qnth p' 1 == qnth p 1 /\
   qnth p' 2 == qnth p 2 + t1 - (qnth p 0 * t1 + qnth p 1 * t2)) /\
  (qnth q' 0 == qnth q 0 /\ qnth q' 1 == qnth q 1 /\
   qnth q' 2 == qnth q 2 + t2 - (qnth q 0 * t1 + qnth q 1 * t2)).
Proof.
  intros Hw Hf Hf' Ia Ib Ic Wa Wb Wc Hnc.
  assert (Hw': forall z, In z (map (tr t1 t2) l) -> 0 <= pw z).
  { intros z Hz. apply in_map_iff in Hz. destruct Hz as [z0 [<- Hz0]]. rewrite tr_weight. apply Hw; exact Hz0. }
  (* the fit of the translated data, pulled back, does as well on l as the fit of l *)
  set (pb := [qnth p' 0; qnth p' 1; qnth p' 2 - t1 + (qnth p' 0 * t1 + qnth p' 1 * t2)]).
  set (qb := [qnth q' 0; qnth q' 1; qnth q' 2 - t2 + (qnth q' 0 * t1 + qnth q' 1 * t2)]).
  set (pf := [qnth p 0; qnth p 1; qnth p 2 + t1 - (qnth p 0 * t1 + qnth p 1 * t2)]).
  set (qf := [qnth q 0; qnth q 1; qnth q 2 + t2 - (qnth q 0 * t1 + qnth q 1 * t2)]).
  destruct (fit_general_optimal (map (tr t1 t2) l) p' q' Hf' Hw' pf) as [Ox _].
  destruct (fit_general_optimal (map (tr t1 t2) l) p' q' Hf' Hw' qf) as [_ Oy].
  assert (Lx: ssr l px pb <= ssr l px p).
  { unfold pb. rewrite <- (ssr_x_untranslate t1 t2 l p'). unfold pf in Ox. rewrite (ssr_x_translate t1 t2 l p) in Ox. exact Ox. }
  assert (Ly: ssr l py qb <= ssr l py q).
  { unfold qb. rewrite <- (ssr_y_untranslate t1 t2 l q'). unfold qf in Oy. rewrite (ssr_y_translate t1 t2 l q) in Oy. exact Oy. }
  destruct (general_fit_unique l Hw p q a b c Hf Ia Ib Ic Wa Wb Wc Hnc pb) as [Ux _].
  destruct (general_fit_unique l Hw p q a b c Hf Ia Ib Ic Wa Wb Wc Hnc qb) as [_ Uy].
  destruct (Ux Lx) as [X0 [X1 X2]]. destruct (Uy Ly) as [Y0 [Y1 Y2]].
  unfold pb in X0, X1, X2. unfold qb in Y0, Y1, Y2. cbn [qnth nth] in X0, X1, X2, Y0, Y1, Y2.
  split; (split; [assumption|]; split; [assumption|]).
  - rewrite <- X0, <- X1. lra.
  - rewrite <- Y0, <- Y1. lra.
Qed.
Print Assumptions general_fit_translate_params.
