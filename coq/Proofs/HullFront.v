(* front end of convex_hull: sorted(set(zip(x, y))) is strictly lexicographically sorted and has the
   same members as the input (up to equality of rationals) *)
From Coq Require Import QArith Lqa Psatz List Sorting.Sorted Bool.
Require Import HullModel HullGeo HullProof HullFull.
Import ListNotations.
Open Scope Q_scope.

Lemma qltb_lt a b : qltb a b = true <-> a < b.
Proof.
  unfold qltb. rewrite negb_true_iff. split.
  - intros H. destruct (Qlt_le_dec a b) as [G|G]; [exact G|]. apply Qle_bool_iff in G. congruence.
  - intros H. destruct (Qle_bool b a) eqn:E; [|reflexivity]. apply Qle_bool_iff in E. lra.
Qed.
Lemma pt_ltb_lt a b : pt_ltb a b = true <-> lt a b.
Proof. unfold pt_ltb, lt. rewrite orb_true_iff, andb_true_iff, !qltb_lt, Qeq_bool_iff. tauto. Qed.
Lemma pt_eqb_eqp a b : pt_eqb a b = true <-> eqp a b.
Proof. unfold pt_eqb, eqp. rewrite andb_true_iff, !Qeq_bool_iff. tauto. Qed.

Lemma eqp_refl a : eqp a a. Proof. split; reflexivity. Qed.
Lemma eqp_sym a b : eqp a b -> eqp b a. Proof. intros [H G]; split; symmetry; assumption. Qed.
Lemma eqp_trans a b c : eqp a b -> eqp b c -> eqp a c.
Proof. intros [H G] [H' G']; split; [rewrite H|rewrite G]; assumption. Qed.
Lemma le_eqp_r a b c : le a b -> eqp b c -> le a c.
Proof. unfold le, lt, eqp. destruct a, b, c; simpl. intros [[H|[H H']]|[H H']] [G G'];
  [left; left; lra| left; right; split; lra| right; split; lra]. Qed.

Lemma ins_in p l x : In x (ins p l) -> x = p \/ In x l.
Proof.
  induction l as [|q r IH]; simpl.
  - intros [<-|[]]; left; reflexivity.
  - destruct (pt_ltb p q); [simpl; intros [<-|H]; [left; reflexivity| right; exact H]|].
    destruct (pt_eqb p q); [intros H; right; exact H|].
    simpl. intros [<-|H]; [right; left; reflexivity|]. destruct (IH H) as [->|G]; [left; reflexivity| right; right; exact G].
Qed.
Lemma ins_keeps p l x : In x l -> In x (ins p l).
Proof.
  induction l as [|q r IH]; simpl; [intros []|].
  intros H. destruct (pt_ltb p q); [right; exact H|].
  destruct (pt_eqb p q); [exact H|].
  destruct H as [<-|H]; [left; reflexivity| right; apply IH; exact H].
Qed.
Lemma ins_has p l : exists p', In p' (ins p l) /\ eqp p p'.
Proof.
  induction l as [|q r IH]; simpl.
  - exists p. split; [left; reflexivity| apply eqp_refl].
  - destruct (pt_ltb p q) eqn:E1; [exists p; split; [left; reflexivity| apply eqp_refl]|].
    destruct (pt_eqb p q) eqn:E2.
    + exists q. split; [left; reflexivity| apply pt_eqb_eqp; exact E2].
    + destruct IH as [p' [H1 H2]]. exists p'. split; [right; exact H1| exact H2].
Qed.
Lemma ins_sorted p l : StronglySorted lt l -> StronglySorted lt (ins p l).
Proof.
  induction 1 as [|q r Hs IH Hq]; simpl; [repeat constructor|].
  destruct (pt_ltb p q) eqn:E1.
  - apply pt_ltb_lt in E1. constructor; [constructor; assumption|].
    constructor; [exact E1|]. apply Forall_forall. intros x Hx. rewrite Forall_forall in Hq.
    apply (lt_trans p q x); [exact E1| apply Hq; exact Hx].
  - destruct (pt_eqb p q) eqn:E2; [constructor; assumption|].
    assert (Hqp: lt q p).
    { destruct (tricho p q) as [H|[H|H]]; [apply pt_ltb_lt in H; congruence| apply pt_eqb_eqp in H; congruence| exact H]. }
    constructor; [exact IH|]. apply Forall_forall. intros x Hx. destruct (ins_in _ _ _ Hx) as [->|G]; [exact Hqp|].
    rewrite Forall_forall in Hq. apply Hq; exact G.
Qed.

Lemma sort_set_sorted l : StronglySorted lt (sort_set l).
Proof. induction l as [|p l IH]; simpl; [constructor| apply ins_sorted; exact IH]. Qed.
Lemma sort_set_sub l x : In x (sort_set l) -> In x l.
Proof.
  induction l as [|p l IH]; simpl; [intros []|].
  intros H. destruct (ins_in _ _ _ H) as [->|G]; [left; reflexivity| right; apply IH; exact G].
Qed.
Lemma sort_set_complete l q : In q l -> exists q', In q' (sort_set l) /\ eqp q q'.
Proof.
  induction l as [|p l IH]; simpl; [intros []|].
  intros [<-|H]; [apply ins_has|].
  destruct (IH H) as [q' [H1 H2]]. exists q'. split; [apply ins_keeps; exact H1| exact H2].
Qed.

(* the head of a strictly sorted list is its minimum, the last element its maximum *)
Lemma sorted_hd_min p l : StronglySorted lt (p :: l) -> forall q, In q (p :: l) -> le p q.
Proof.
  intros H q [<-|Hq]; [apply le_refl|]. inversion H as [|? ? _ F]; subst. rewrite Forall_forall in F.
  apply lt_le, F, Hq.
Qed.
Lemma sorted_last_max l : StronglySorted lt l -> forall q, In q l -> le q (last l d0).
Proof.
  induction 1 as [|p l Hs IH Hp]; [intros q []|].
  intros q Hq. destruct l as [|p' l']; [destruct Hq as [<-|[]]; apply le_refl|].
  change (last (p :: p' :: l') d0) with (last (p' :: l') d0).
  destruct Hq as [<-|Hq]; [| apply IH; exact Hq].
  rewrite Forall_forall in Hp. left.
  assert (H1: lt p p') by (apply Hp; left; reflexivity).
  destruct (IH p' (or_introl eq_refl)) as [H2|H2].
  - apply (lt_trans p p'); assumption.
  - apply (lt_le_trans p p'); [exact H1| right; exact H2].
Qed.
