(* the ad-hoc tangent plane of RefCatalog._calc_cat_convex_hull (after fix dfbfda6, F11):
   euler_rot = planar_rot_3d(dec, 1) . planar_rot_3d(ra, 2) sends the mean direction to the +x axis, is
   orthogonal, and the first coordinate of a rotated source is its cosine distance from the mean direction
   (so sources within 90 deg of the mean land in the front hemisphere, where x = yr/xr, y = zr/xr are valid).
   Angles enter through (cos, sin) pairs constrained by c^2 + s^2 = 1. *)
From Coq Require Import QArith Lqa Psatz.
Open Scope Q_scope.

Definition v3 := (Q * Q * Q)%type.
Definition rot_z (c s : Q) (p : v3) : v3 := let '(x, y, z) := p in (c * x + s * y, - s * x + c * y, z).     (* planar_rot_3d(a, 2) *)
Definition rot_y (c s : Q) (p : v3) : v3 := let '(x, y, z) := p in (c * x + s * z, y, - s * x + c * z).     (* planar_rot_3d(a, 1) *)
Definition euler (c1 s1 c2 s2 : Q) (p : v3) : v3 := rot_y c2 s2 (rot_z c1 s1 p).
Definition legacy_euler (c1 s1 c2 s2 : Q) (p : v3) : v3 := rot_z c1 s1 (rot_y c2 s2 p).                   (* before F11 *)
Definition dirv (c1 s1 c2 s2 : Q) : v3 := (c2 * c1, c2 * s1, s2).                                        (* _S2C(ra, dec) *)
Definition dot (p q : v3) : Q := let '(a, b, c) := p in let '(x, y, z) := q in a * x + b * y + c * z.
Definition eq3 (p q : v3) : Prop := let '(a, b, c) := p in let '(x, y, z) := q in a == x /\ b == y /\ c == z.

Theorem euler_mean_to_x c1 s1 c2 s2 : c1 * c1 + s1 * s1 == 1 -> c2 * c2 + s2 * s2 == 1 ->
  eq3 (euler c1 s1 c2 s2 (dirv c1 s1 c2 s2)) (1, 0, 0).
Proof.
  intros H1 H2. unfold eq3, euler, rot_y, rot_z, dirv. repeat split.
  - transitivity (c2 * c2 * (c1 * c1 + s1 * s1) + s2 * s2); [ring|]. rewrite H1. lra.
  - ring.
  - transitivity (- s2 * c2 * (c1 * c1 + s1 * s1) + c2 * s2); [ring|]. rewrite H1. ring.
Qed.

(* first coordinate after rotation = cosine of the angular distance from the mean direction *)
Theorem euler_front_hemisphere c1 s1 c2 s2 p :
  fst (fst (euler c1 s1 c2 s2 p)) == dot (dirv c1 s1 c2 s2) p.
Proof. destruct p as [[x y] z]. unfold euler, rot_y, rot_z, dirv, dot. cbn [fst]. ring. Qed.

(* the rotation preserves scalar products (so its transpose is its inverse, which the code obtains with inv) *)
Theorem euler_orthogonal c1 s1 c2 s2 p q : c1 * c1 + s1 * s1 == 1 -> c2 * c2 + s2 * s2 == 1 ->
  dot (euler c1 s1 c2 s2 p) (euler c1 s1 c2 s2 q) == dot p q.
Proof.
  intros H1 H2. destruct p as [[x y] z]. destruct q as [[x' y'] z'].
  unfold euler, rot_y, rot_z, dot.
  transitivity ((c2 * c2 + s2 * s2) * ((c1 * c1 + s1 * s1) * (x * x' + y * y')
                 + 0) + (c2 * c2 + s2 * s2) * (z * z')
                 + (1 - (c2 * c2 + s2 * s2)) * ((- s1 * x + c1 * y) * (- s1 * x' + c1 * y'))).
  - ring.
  - rewrite H1, H2. ring.
Qed.

(* the order used before fix dfbfda6 does not send the mean direction to the +x axis *)
Theorem legacy_euler_refuted : exists c1 s1 c2 s2, c1 * c1 + s1 * s1 == 1 /\ c2 * c2 + s2 * s2 == 1 /\
  ~ eq3 (legacy_euler c1 s1 c2 s2 (dirv c1 s1 c2 s2)) (1, 0, 0).
Proof.
  exists (3 # 5), (4 # 5), (5 # 13), (12 # 13). split; [reflexivity|]. split; [reflexivity|].
  unfold eq3, legacy_euler, rot_y, rot_z, dirv. intros [H _]. vm_compute in H. discriminate H.
Qed.
Print Assumptions euler_mean_to_x.
Print Assumptions euler_orthogonal.
