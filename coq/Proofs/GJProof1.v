From Coq Require Import QArith Qabs List Bool Arith Lia Permutation.
Require Import GJModel GJSum.
Import ListNotations.
Open Scope Q_scope.

(* ---------- basic list/tabulation facts ---------- *)
Lemma nth_map_seq {A} (f : nat -> A) n j d : (j < n)%nat -> nth j (map f (seq 0 n)) d = f j.
Proof. intros H. rewrite (nth_indep _ d (f 0%nat)) by (rewrite map_length, seq_length; exact H).
  rewrite map_nth. rewrite seq_nth by exact H. reflexivity. Qed.
Lemma qnth_tabv n f j : (j < n)%nat -> qnth (tabv n f) j = f j.
Proof. intros; unfold qnth, tabv. apply nth_map_seq; assumption. Qed.
Lemma mnth_tabm n f i j : (i < n)%nat -> (j < n)%nat -> mnth (tabm n f) i j = f i j.
Proof. intros Hi Hj. unfold mnth, tabm. rewrite (nth_map_seq (fun i => tabv n (f i))) by exact Hi.
  apply qnth_tabv; exact Hj. Qed.
Lemma map_nth_seq (l : list nat) n : length l = n -> map (fun a => nth a l O) (seq 0 n) = l.
Proof.
  intros H. apply nth_ext with (d:=O) (d':=O).
  - rewrite map_length, seq_length; auto.
  - intros j Hj. rewrite map_length, seq_length in Hj. rewrite nth_map_seq by exact Hj. reflexivity.
Qed.

(* ---------- transpositions ---------- *)
Lemma transp_invol a b i : transp a b (transp a b i) = i.
Proof. unfold transp.
  destruct (Nat.eqb_spec i a); [subst|].
  - destruct (Nat.eqb_spec b a); [auto|]. rewrite Nat.eqb_refl. reflexivity.
  - destruct (Nat.eqb_spec i b); [subst|].
    + rewrite Nat.eqb_refl. reflexivity.
    + destruct (Nat.eqb_spec i a); [contradiction|]. destruct (Nat.eqb_spec i b); [contradiction|reflexivity].
Qed.
Lemma transp_lt n a b i : (a < n)%nat -> (b < n)%nat -> (i < n)%nat -> (transp a b i < n)%nat.
Proof. unfold transp; intros. destruct (Nat.eqb i a); [assumption|]. destruct (Nat.eqb i b); assumption. Qed.
Lemma transp_fix a b i : i <> a -> i <> b -> transp a b i = i.
Proof. unfold transp; intros. destruct (Nat.eqb_spec i a); [contradiction|]. destruct (Nat.eqb_spec i b); [contradiction|reflexivity]. Qed.
Lemma transp_l a b : transp a b a = b.
Proof. unfold transp. rewrite Nat.eqb_refl. reflexivity. Qed.
Lemma transp_r a b : transp a b b = a.
Proof. unfold transp. destruct (Nat.eqb_spec b a); [auto|]. rewrite Nat.eqb_refl. reflexivity. Qed.
Lemma transp_inj a b i j : transp a b i = transp a b j -> i = j.
Proof. intros H. rewrite <- (transp_invol a b i), <- (transp_invol a b j), H. reflexivity. Qed.

Lemma transp_perm n a b : (a < n)%nat -> (b < n)%nat ->
  Permutation (map (transp a b) (seq 0 n)) (seq 0 n).
Proof.
  intros Ha Hb. apply NoDup_Permutation.
  - apply FinFun.Injective_map_NoDup; [intros x y; apply transp_inj| apply seq_NoDup].
  - apply seq_NoDup.
  - intros x; split.
    + intros Hx. apply in_map_iff in Hx. destruct Hx as [y [<- Hy]]. apply in_seq in Hy.
      apply in_seq. pose proof (transp_lt n a b y Ha Hb). lia.
    + intros Hx. apply in_seq in Hx. apply in_map_iff. exists (transp a b x). split.
      * apply transp_invol.
      * apply in_seq. pose proof (transp_lt n a b x Ha Hb). lia.
Qed.

Lemma vsum_reindex_transp n a b f : (a < n)%nat -> (b < n)%nat ->
  vsum (seq 0 n) (fun j => f (transp a b j)) == vsum (seq 0 n) f.
Proof. intros. rewrite <- vsum_map. apply vsum_perm. apply transp_perm; assumption. Qed.

(* ---------- argmax range ---------- *)
Lemma argmax_range n k m : (k < n)%nat ->
  let '(im, jm) := argmax_abs n k m in (k <= im < n)%nat /\ (k <= jm < n)%nat.
Proof.
  intros Hk. unfold argmax_abs.
  set (P := fun ij : nat * nat => (k <= fst ij < n)%nat /\ (k <= snd ij < n)%nat).
  assert (G: forall l init, P (fst init) -> (forall ij, In ij l -> P ij) ->
     P (fst (fold_left (fun best ij =>
        let v := Qabs (mnth m (fst ij) (snd ij)) in
        if Qlt_le_dec (snd best) v then (ij, v) else best) l init))).
  { induction l as [|x l IH]; intros init Hi Hl; simpl; [exact Hi|].
    apply IH.
    - destruct (Qlt_le_dec _ _); simpl; [apply Hl; left; reflexivity| exact Hi].
    - intros; apply Hl; right; assumption. }
  specialize (G (list_prod (seq k (n - k)) (seq k (n - k))) ((k, k), Qabs (mnth m k k))).
  destruct (fst (fold_left _ _ _)) as [im jm] eqn:E.
  assert (HP: P (im, jm)).
  { apply G.
    - unfold P; simpl; lia.
    - intros [i j] Hin. apply in_prod_iff in Hin. destruct Hin as [H1 H2].
      apply in_seq in H1. apply in_seq in H2. unfold P; simpl; lia. }
  exact HP.
Qed.
