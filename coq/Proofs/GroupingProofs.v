(* C15 (last sentence): the grouping block of align_wcs emits groups in the order of their first member *)
From Coq Require Import QArith List Bool Arith Lia Permutation Sorting.Sorted.
From TW Require Import OverlapModel OverlapProofs.
Import ListNotations.
Close Scope Q_scope.
Open Scope nat_scope.

Lemma gkey_eqb_eq a b : gkey_eqb a b = true <-> a = b.
Proof.
  destruct a as [[x|] p], b as [[y|] q]; unfold gkey_eqb; cbn [fst snd]; rewrite andb_true_iff, ?Nat.eqb_eq.
  - split; [intros [-> ->]; reflexivity| intros E; inversion E; auto].
  - split; [intros [E _]; discriminate| intros E; discriminate].
  - split; [intros [E _]; discriminate| intros E; discriminate].
  - split; [intros [_ ->]; reflexivity| intros E; inversion E; auto].
Qed.
Lemma gkey_eqb_refl a : gkey_eqb a a = true.
Proof. apply gkey_eqb_eq. reflexivity. Qed.
Lemma gkey_eqb_neq a b : a <> b -> gkey_eqb a b = false.
Proof. intros H. destruct (gkey_eqb a b) eqn:E; [|reflexivity]. apply gkey_eqb_eq in E. contradiction. Qed.

(* what dict-insertion does to the association list *)
Lemma add_member_cases kk i : forall gs,
  (~ In kk (map fst gs) /\ add_member kk i gs = gs ++ [(kk, [i])]) \/
  (exists g1 ms g2, gs = g1 ++ (kk, ms) :: g2 /\ ~ In kk (map fst g1) /\
                    add_member kk i gs = g1 ++ (kk, ms ++ [i]) :: g2).
Proof.
  induction gs as [|[k' ms] gs IH]; simpl.
  - left. split; [intros []| reflexivity].
  - destruct (gkey_eqb kk k') eqn:E.
    + apply gkey_eqb_eq in E. subst k'. right. exists [], ms, gs. simpl. split; [reflexivity|]. split; [intros []| reflexivity].
    + assert (NE: k' <> kk) by (intros ->; rewrite gkey_eqb_refl in E; discriminate).
      destruct IH as [[Hn ->]|(g1 & ms' & g2 & -> & Hn & ->)].
      * left. split; [intros [H|H]; [exact (NE H)| exact (Hn H)]| reflexivity].
      * right. exists ((k', ms) :: g1), ms', g2. simpl. split; [reflexivity|].
        split; [intros [H|H]; [exact (NE H)| exact (Hn H)]| reflexivity].
Qed.

Section Grouping.
Variable kf : nat -> gkey.       (* key of the image at input position i *)

Definition members (kk : gkey) (k : nat) : list nat := filter (fun i => gkey_eqb (kf i) kk) (seq 0 k).
Definition heads (gs : list (gkey * list nat)) : list nat := map (fun g => hd 0 (snd g)) gs.

Definition Inv (k : nat) (gs : list (gkey * list nat)) : Prop :=
  NoDup (map fst gs) /\
  (forall kk ms, In (kk, ms) gs -> ms = members kk k /\ ms <> []) /\
  (forall i, i < k -> In (kf i) (map fst gs)) /\
  StronglySorted lt (heads gs).

Lemma members_S kk k : members kk (S k) = members kk k ++ (if gkey_eqb (kf k) kk then [k] else []).
Proof. unfold members. rewrite seq_S, filter_app. simpl. destruct (gkey_eqb (kf k) kk); reflexivity. Qed.

Lemma filter_none {A} (f : A -> bool) : forall l, (forall x, In x l -> f x = false) -> filter f l = [].
Proof.
  induction l as [|a l IH]; intros H; simpl; [reflexivity|].
  rewrite (H a (or_introl eq_refl)). apply IH. intros x Hx. apply H. right. exact Hx.
Qed.

Lemma hd_in_lt kk k ms : ms = members kk k -> ms <> [] -> hd 0 ms < k.
Proof.
  intros E NE. destruct ms as [|a ms']; [contradiction|]. simpl.
  assert (Hin: In a (members kk k)) by (rewrite <- E; left; reflexivity).
  unfold members in Hin. apply filter_In in Hin. destruct Hin as [Hin _]. apply in_seq in Hin. lia.
Qed.

Lemma step_inv k gs : Inv k gs -> Inv (S k) (add_member (kf k) k gs).
Proof.
  intros (Hnd & Hmem & Hcov & Hsort).
  destruct (add_member_cases (kf k) k gs) as [[Hnew ->]|(g1 & ms & g2 & Egs & Hn1 & ->)].
  - (* a new key: appended at the end *)
    split; [|split; [|split]].
    + rewrite map_app. simpl. apply (Permutation_NoDup (Permutation_cons_append (map fst gs) (kf k))).
      constructor; assumption.
    + intros kk ms Hin. apply in_app_or in Hin. destruct Hin as [Hin|[E|[]]].
      * destruct (Hmem kk ms Hin) as [E NE]. split; [|exact NE].
        rewrite members_S. rewrite gkey_eqb_neq; [rewrite app_nil_r; exact E|].
        intros Ek. apply Hnew. rewrite Ek. apply in_map_iff. exists (kk, ms). split; [reflexivity| exact Hin].
      * inversion E; subst. rewrite members_S, gkey_eqb_refl.
        assert (Ez: members (kf k) k = []).
        { unfold members. apply filter_none. intros i Hi. apply in_seq in Hi. apply gkey_eqb_neq.
          intros Ek. apply Hnew. rewrite <- Ek. apply Hcov. lia. }
        rewrite Ez. split; [reflexivity| discriminate].
    + intros i Hi. rewrite map_app. apply in_or_app.
      destruct (Nat.eq_dec i k) as [->|NE]; [right; left; reflexivity| left; apply Hcov; lia].
    + unfold heads. rewrite map_app. simpl. apply SS_snoc; [exact Hsort|].
      apply Forall_forall. intros h Hh. apply in_map_iff in Hh. destruct Hh as [[kk ms] [<- Hin]]. simpl.
      destruct (Hmem kk ms Hin) as [E NE]. apply (hd_in_lt _ _ _ E NE).
  - (* an existing key: the member is appended to its group, the group keeps its place *)
    subst gs.
    assert (Hfst: map fst (g1 ++ (kf k, ms ++ [k]) :: g2) = map fst (g1 ++ (kf k, ms) :: g2)).
    { rewrite !map_app. reflexivity. }
    assert (Hother: forall kk ms', In (kk, ms') g1 \/ In (kk, ms') g2 -> kk <> kf k).
    { intros kk ms' Hin ->. rewrite map_app in Hnd. simpl in Hnd. apply NoDup_remove_2 in Hnd. apply Hnd.
      apply in_or_app. destruct Hin as [Hin|Hin]; [left|right]; apply in_map_iff; exists (kf k, ms'); split; auto. }
    destruct (Hmem (kf k) ms) as [Ems NEms]; [apply in_or_app; right; left; reflexivity|].
    split; [|split; [|split]].
    + rewrite Hfst. exact Hnd.
    + intros kk ms' Hin. apply in_app_or in Hin. destruct Hin as [Hin|[E|Hin]].
      * destruct (Hmem kk ms') as [E NE]; [apply in_or_app; left; exact Hin|]. split; [|exact NE].
        rewrite members_S. rewrite gkey_eqb_neq; [rewrite app_nil_r; exact E|].
        intros Ek. apply (Hother kk ms' (or_introl Hin)). symmetry. exact Ek.
      * inversion E; subst. rewrite members_S, gkey_eqb_refl. split; [reflexivity|].
        intros Habs. apply app_eq_nil in Habs. destruct Habs; discriminate.
      * destruct (Hmem kk ms') as [E NE]; [apply in_or_app; right; right; exact Hin|]. split; [|exact NE].
        rewrite members_S. rewrite gkey_eqb_neq; [rewrite app_nil_r; exact E|].
        intros Ek. apply (Hother kk ms' (or_intror Hin)). symmetry. exact Ek.
    + intros i Hi. rewrite Hfst. destruct (Nat.eq_dec i k) as [->|NE]; [|apply Hcov; lia].
      rewrite map_app. apply in_or_app. right. left. reflexivity.
    + assert (Hh: heads (g1 ++ (kf k, ms ++ [k]) :: g2) = heads (g1 ++ (kf k, ms) :: g2)).
      { unfold heads. rewrite !map_app. simpl. destruct ms; [contradiction| reflexivity]. }
      rewrite Hh. exact Hsort.
Qed.
End Grouping.

Definition kf_of (gids : list (option nat)) (i : nat) : gkey := gkey_of i (nth i gids None).

Lemma group_from_inv kf : forall gids k gs,
  (forall t, t < length gids -> kf (k + t) = gkey_of (k + t) (nth t gids None)) ->
  Inv kf k gs -> Inv kf (k + length gids) (group_from k gids gs).
Proof.
  induction gids as [|g gids IH]; intros k gs Hk HI; simpl.
  - rewrite Nat.add_0_r. exact HI.
  - replace (k + S (length gids)) with (S k + length gids) by lia. apply IH.
    + intros t Ht. replace (S k + t) with (k + S t) by lia. apply (Hk (S t)). simpl. lia.
    + assert (E: gkey_of k g = kf k).
      { specialize (Hk 0). simpl in Hk. rewrite Nat.add_0_r in Hk. symmetry. apply Hk. lia. }
      rewrite E. apply step_inv. exact HI.
Qed.

Lemma Inv_nil kf : Inv kf 0 [].
Proof.
  split; [constructor|]. split; [intros ? ? []|]. split; [intros i Hi; lia| constructor].
Qed.

(* two input positions have the same key iff they are the same image or carry the same (non-None) group id *)
Lemma kf_of_same gids i j :
  kf_of gids i = kf_of gids j <-> i = j \/ exists g, nth i gids None = Some g /\ nth j gids None = Some g.
Proof.
  split.
  - unfold kf_of, gkey_of. destruct (nth i gids None) as [a|], (nth j gids None) as [b|]; intros H.
    + inversion H; subst. right. exists b. split; reflexivity.
    + discriminate.
    + discriminate.
    + inversion H. left. reflexivity.
  - intros [->|(g & E1 & E2)]; [reflexivity|]. unfold kf_of. rewrite E1, E2. reflexivity.
Qed.

(* the groups handed to the alignment loop *)
Theorem groups_spec : forall gids,
  let n := length gids in
  let same i j := gkey_eqb (kf_of gids j) (kf_of gids i) in
  (* groups appear in the order of their first members *)
  StronglySorted lt (map (hd 0) (groups gids)) /\
  (* a group is exactly the set of input positions that share the key of its first member, in input order *)
  (forall g, In g (groups gids) -> g <> [] /\ g = filter (same (hd 0 g)) (seq 0 n)) /\
  (* every image is in a group *)
  (forall i, i < n -> exists g, In g (groups gids) /\ In i g).
Proof.
  intros gids n same.
  pose proof (@group_from_inv (kf_of gids) gids 0 []) as H. simpl in H.
  specialize (H (fun t _ => eq_refl) (Inv_nil _)). fold n in H.
  destruct H as (Hnd & Hmem & Hcov & Hsort). unfold groups.
  split; [|split].
  - unfold heads in Hsort. rewrite map_map. exact Hsort.
  - intros g Hg. apply in_map_iff in Hg. destruct Hg as [[kk ms] [<- Hin]]. simpl.
    destruct (Hmem kk ms Hin) as [E NE]. split; [exact NE|].
    assert (Hk: kf_of gids (hd 0 ms) = kk).
    { destruct ms as [|a ms']; [contradiction|]. simpl.
      assert (Ha: In a (members (kf_of gids) kk n)) by (rewrite <- E; left; reflexivity).
      unfold members in Ha. apply filter_In in Ha. destruct Ha as [_ Ha]. apply gkey_eqb_eq in Ha. exact Ha. }
    unfold same. rewrite Hk. exact E.
  - intros i Hi. specialize (Hcov i Hi). apply in_map_iff in Hcov. destruct Hcov as [[kk ms] [Ek Hin]].
    simpl in Ek. subst kk. exists ms. split; [apply in_map_iff; exists (kf_of gids i, ms); split; [reflexivity| exact Hin]|].
    destruct (Hmem _ ms Hin) as [E _]. rewrite E. unfold members. apply filter_In. split; [apply in_seq; lia|].
    apply gkey_eqb_refl.
Qed.
