(* correspondence predicates for C17: tweakwcs.linalg.inv and the degenerate-input exits of the fitters *)
From Coq Require Import QArith Qabs List Bool Arith.
From TW Require Import CorrUtil GJModel LSQ.
Import ListNotations.
Open Scope Q_scope.

Record case17 := { c_a : mat; c_raised : bool; c_x : mat }.

Definition row_abs_sum (r : row) : Q := fold_right (fun x acc => Qred (Qabs x + acc)) 0 r.
Definition norm_inf (m : mat) : Q := fold_right (fun r acc => Qmax (row_abs_sum r) acc) 0 m.
Definition eps52 : Q := 1 # 4503599627370496.

(* residual |X*A - I|_max of the implementation's X against the input *)
Definition resid_max (n : nat) (x a : mat) : Q :=
  list_max_abs (concat (map (fun i => map (fun j =>
     Qred (fold_right (fun k acc => mnth x i k * mnth a k j + acc) 0 (seq 0 n)
           - (if Nat.eqb i j then 1 else 0))) (seq 0 n)) (seq 0 n))).

Definition agree17 (c : case17) : bool :=
  match inv_gj (c_a c) with
  | Ok X =>
      negb (c_raised c) &&
      (let n := length (c_a c) in
       let nq := inject_Z (Z.of_nat n) in
       let cond := norm_inf (c_a c) * norm_inf X in
       let bound := 64 * nq * cond * eps52 in
       qclose_mat (bound * norm_inf X) X (c_x c) && Qle_bool (resid_max n (c_x c) (c_a c)) bound)
  | _ => c_raised c
  end.

Definition show17 (c : case17) := inv_gj (c_a c).

(* fitters on degenerate input: model says singular <-> implementation raised *)
Record case17f := { f_pts : list pr; f_raised : bool }.
Definition agree17f (c : case17f) : bool :=
  match fit_general (f_pts c) with
  | FitSingular => f_raised c
  | FitOk _ _ => negb (f_raised c)
  end.
Definition show17f (c : case17f) := fit_general (f_pts c).
