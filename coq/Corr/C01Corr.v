(* correspondence predicate for C01: fit_wcs / align_wcs on data whose error is an exact (or exact + known noise)
   affine map of the reference plane; everything is compared in exact rational arithmetic.

   k_fit    the true matched pairs in the reference plane (c_p: x y = reference, u v = image; exact values of the
            floats), the weight columns, the fit geometry and the implementation's reported matrix / shift;
            compared with the exact model optimum by agree06 (C06Corr.v)
   k_exact  noise-free case: the reported map must equal the generating map k_G within 1e-9 (relative) + k_noise
            (k_noise = 32 ulp of the sky coordinates in plane units / rms extent of the catalog across its thinnest
            direction: the rounding of the external transforms as seen by the fitted matrix)
   k_rmse   reported rmse;  it must equal the exact weighted rms residual of the REPORTED map on the true pairs
   k_res    residuals measured through the returned (corrected) WCS, source by source, in the reference plane:
            ref.world_to_tanp(corrected.det_to_world(p_k)) - ref.world_to_tanp(reference_k); their exact weighted
            rms (model weights) must agree with the reported rmse within k_tolmeas
   k_sky    arcsec distance corrected.det_to_world(p_k) <-> reference_k, must be <= k_skytol
   k_fsky   arcsec distance (fit_RA, fit_DEC)_k <-> corrected.det_to_world(fitted pixel k), <= k_skytol
   k_gw     0: FITS corrector; 1: gWCS, own plane (conjugation with the numerically derived r ~ identity);
            2: gWCS, explicit reference plane, k_R = (r, t) of _tp2tp(ref, image) evaluated by the harness
   k_A0/1   tp_affine (matrix, translation) of the pipeline before / after; k_a2r arcsec -> tp_affine units *)
From Coq Require Import QArith Qabs List Bool Arith.
From TW Require Import CorrUtil GJModel LSQ Rscale Rscale2 Shift LinearFit AlignFit C06Corr.
Import ListNotations.
Open Scope Q_scope.

Record case01 := {
  k_fit : case06; k_exact : bool; k_G : list Q;
  k_noise : Q;                 (* rounding of the sky coordinates (32 ulp, plane units) / extent of the catalog *)
  k_floor : Q;                 (* rounding floor in reference-plane units *)
  k_rmse : Q; k_res : list (Q * Q); k_tolmeas : Q;
  k_sky : list Q; k_fsky : list Q; k_skytol : Q;
  k_gw : nat; k_a2r : Q; k_A0 : list Q; k_A1 : list Q; k_R : list Q }.

Definition tol9 : Q := 1 # 1000000000.
Definition tol6 : Q := 1 # 1000000.
Definition two_m24 : Q := 1 # 16777216.
Definition two_m36 : Q := 1 # 68719476736.

Definition aff_of_list (l : list Q) : option qaff :=
  match l with
  | [a; b; c; d; e; f] => Some {| g00 := a; g01 := b; g10 := c; g11 := d; h0 := e; h1 := f |}
  | _ => None
  end.

(* positively weighted pairs, as the fitter gets them *)
Definition eff_mask (c : case06) : list bool := wmask (length (c_p c)) (c_wxy c) (c_wuv c).
Definition eff_pairs (c : case06) : list pr :=
  let m := eff_mask c in
  mkpts (filt m (c_p c)) (comb (option_map (filt m) (c_wxy c)) (option_map (filt m) (c_wuv c))).

(* |r - sqrt E| <= d without square roots (r, d >= 0):  E <= (r + d)^2  and  (r <= d  or  (r - d)^2 <= E) *)
Definition close_sqrt (r E d : Q) : bool :=
  Qleb E ((r + d) * (r + d)) && (Qleb r d || Qleb ((r - d) * (r - d)) E).

(* exact weighted mean square of the measured residual vectors, weights taken from the pairs *)
Fixpoint wres (l : list pr) (r : list (Q * Q)) : Q :=
  match l, r with
  | p :: l', (dx, dy) :: r' => Qred (pw p * (dx * dx + dy * dy) + wres l' r')
  | _, _ => 0
  end.

Definition near_G (c : case01) : bool :=
  match aff_of_list (c_m (k_fit c)), aff_of_list (k_G c) with
  | Some F, Some G =>
      let tm := tol9 * Qmax 1 (Qmax (Qmax (Qabs (g00 G)) (Qabs (g01 G))) (Qmax (Qabs (g10 G)) (Qabs (g11 G)))) + k_noise c in
      let ts := tm * maxcoord (c_p (k_fit c)) in
      qclose tm (g00 F) (g00 G) && qclose tm (g01 F) (g01 G) && qclose tm (g10 F) (g10 G) &&
      qclose tm (g11 F) (g11 G) && qclose ts (h0 F) (h0 G) && qclose ts (h1 F) (h1 G)
  | _, _ => false
  end.

Definition rmse_ok (c : case01) : bool :=
  match aff_of_list (c_m (k_fit c)) with
  | Some F =>
      let l := eff_pairs (k_fit c) in
      let W := sw_q l in
      let r := k_rmse c in
      Qltb 0 W && Qleb 0 r &&
      close_sqrt r (ssr_q l F / W) (tol6 * r + k_floor c) &&
      close_sqrt r (wres l (filt (eff_mask (k_fit c)) (k_res c)) / W) (k_tolmeas c) &&
      Nat.eqb (length (k_res c)) (length (c_p (k_fit c)))
  | None => false
  end.

Definition sky_ok (c : case01) : bool :=
  forallb (fun d => Qleb d (k_skytol c)) (k_sky c) && forallb (fun d => Qleb d (k_skytol c)) (k_fsky c) &&
  Nat.eqb (length (k_sky c)) (length (c_p (k_fit c))).

Definition aff_close (tm ts : Q) (X Y : qaff) : bool :=
  qclose tm (g00 X) (g00 Y) && qclose tm (g01 X) (g01 Y) && qclose tm (g10 X) (g10 Y) &&
  qclose tm (g11 X) (g11 Y) && qclose ts (h0 X) (h0 Y) && qclose ts (h1 X) (h1 Y).
Definition amax (X : qaff) : Q := Qmax (Qmax (Qabs (g00 X)) (Qabs (g01 X))) (Qmax (Qabs (g10 X)) (Qabs (g11 X))).
Definition tmax (X : qaff) : Q := Qmax (Qabs (h0 X)) (Qabs (h1 X)).

(* the pipeline's tp_affine after the alignment = the model's set_correction of the reported fit *)
Definition gw_ok (c : case01) : bool :=
  match k_gw c with
  | O => true
  | S n =>
      match aff_of_list (c_m (k_fit c)), aff_of_list (k_A0 c), aff_of_list (k_A1 c) with
      | Some F, Some A0, Some A1 =>
          match n with
          | O => let E := gw_update (k_a2r c) A0 F in
                 let rel := two_m24 in
                 aff_close (rel * Qmax 1 (amax E)) (rel * (tmax E + amax F * tmax A0 + k_a2r c * tmax F)) A1 E
          | _ => match aff_of_list (k_R c) with
                 | Some R => let E := gw_update_ref (k_a2r c) A0 R F in
                             let rel := two_m36 in
                             negb (Qeq_bool (qdet R) 0) &&
                             aff_close (rel * Qmax 1 (amax E))
                                       (rel * (tmax E + amax E * tmax A0 + k_a2r c * (tmax F + (1 + amax E) * tmax R))) A1 E
                 | None => false
                 end
          end
      | _, _, _ => false
      end
  end.

Definition agree01 (c : case01) : bool :=
  agree06 (k_fit c) && (if k_exact c then near_G c else true) && rmse_ok c && sky_ok c && gw_ok c.

(* which conjunct fails, the model's fit, the exact rms of the reported map and of the measured residuals *)
Definition show01 (c : case01) :=
  (agree06 (k_fit c), (if k_exact c then near_G c else true), rmse_ok c, sky_ok c, gw_ok c,
   show06 (k_fit c),
   match aff_of_list (c_m (k_fit c)) with
   | Some F => let l := eff_pairs (k_fit c) in
               Some (Qred (ssr_q l F / sw_q l), Qred (wres l (filt (eff_mask (k_fit c)) (k_res c)) / sw_q l),
                     match aff_of_list (k_A0 c), aff_of_list (k_R c) with
                     | Some A0, Some R => Some (gw_update_ref (k_a2r c) A0 R F)
                     | Some A0, None => Some (gw_update (k_a2r c) A0 F)
                     | _, _ => None
                     end)
   | None => None
   end).
