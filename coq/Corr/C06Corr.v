(* correspondence predicate for C06 (single-shot fits): implementation output vs the exact model *)
From Coq Require Import QArith Qabs List Bool Arith.
From TW Require Import CorrUtil GJModel LSQ Rscale Rscale2 Shift LinearFit.
Import ListNotations.
Open Scope Q_scope.

Record case06 := { c_iter : bool; c_g : geom; c_p : list pt4; c_wxy : option (list Q); c_wuv : option (list Q);
                   c_err : nat;    (* implementation: 0 returned; 1 NotEnoughPointsError; 2 ValueError; 3 SingularMatrixError *)
                   c_m : list Q    (* m00 m01 m10 m11 s0 s1 *) }.

Definition err_code (e : ferr) : nat :=
  match e with ENotEnough => 1 | ENegW => 2 | EZeroW => 2 | ESingular => 3 end%nat.

Definition two_m28 : Q := 1 # 268435456.
Definition two_m20 : Q := 1 # 1048576.
(* width of the band around det = 0 in which either branch of the similarity fit is accepted: the code treats
   |det| <= 1e-10 * scale as zero (proper branch); 2^-30 = 9.3e-10 leaves room for rounding of det itself *)
Definition two_m30 : Q := 1 # 1073741824.
Definition two_m50 : Q := 1 # 1125899906842624.

(* largest coordinate magnitude (the natural unit of the problem); 1 for empty / all-zero input *)
Definition maxcoord (p : list pt4) : Q :=
  let m := fold_right (fun a acc => Qmax (Qmax (Qabs (qx a)) (Qabs (qy a))) (Qmax (Qmax (Qabs (qu a)) (Qabs (qv a))) acc)) 0 p in
  if Qeq_bool m 0 then 1 else m.

Definition rs_agree (g : geom) (d : rsdata) (sc : Q) (i00 i01 i10 i11 is0 is1 : Q) : bool :=
  let tm := two_m28 * Qmax 1 (Qmax (Qabs i00) (Qabs i01)) in
  let ts := tm * sc in
  let f := Qltb (i00 * i11 - i01 * i10) 0 in
  let epsd := two_m30 * r_scale_det d in
  let okf := if f then Qleb (r_det d) epsd else Qleb (- epsd) (r_det d) in
  let form := if f then qclose tm i10 i01 && qclose tm i11 (- i00)
              else qclose tm i10 (- i01) && qclose tm i11 i00 in
  let D := if f then r_di d else r_dp d in
  let N := if f then r_ni d else r_np d in
  let f10v := if f then i01 else - i01 in
  let f11v := if f then - i00 else i00 in
  let shifts := qclose ts is0 (r_xm d - (i00 * r_um d + i01 * r_vm d))
             && qclose ts is1 (r_ym d - (f10v * r_um d + f11v * r_vm d)) in
  okf && form && shifts &&
  match g with
  | GRscale => qclose tm i00 (D / r_q2 d) && qclose tm i01 (N / r_q2 d)
  | GRshift =>
      qclose two_m28 (i00 * i00 + i01 * i01) 1 &&
      (* all (weighted) uv positions coincide: every unit rotation has the same SSR - nothing to compare *)
      (if Qeq_bool D 0 && Qeq_bool N 0 then true
       else Qleb (Qabs (i00 * N - i01 * D)) (two_m28 * (Qabs D + Qabs N)) && Qleb 0 (i00 * D + i01 * N))
  | _ => false
  end.

Definition agree06 (c : case06) : bool :=
  let sc := maxcoord (c_p c) in
  let m := if c_iter c then wmask (length (c_p c)) (c_wxy c) (c_wuv c) else map (fun _ => true) (c_p c) in
  let pp := filt m (c_p c) in let wxy := option_map (filt m) (c_wxy c) in let wuv := option_map (filt m) (c_wuv c) in
  match fit_single (c_g c) pp wxy wuv, c_m c with
  | inl (OutErr e), _ => Nat.eqb (c_err c) (err_code e)
  | inl (OutAffine m00 m01 m10 m11 s0 s1), [i00; i01; i10; i11; is0; is1] =>
      let tm := two_m28 * Qmax 1 (Qmax (Qmax (Qabs m00) (Qabs m01)) (Qmax (Qabs m10) (Qabs m11))) in
      let l := mkpts pp (comb wxy wuv) in
      Nat.eqb (c_err c) 0 &&
      qclose tm i00 m00 && qclose tm i01 m01 && qclose tm i10 m10 && qclose tm i11 m11 &&
      qclose (tm * sc) is0 s0 && qclose (tm * sc) is1 s1 &&
      (if Nat.leb (length pp) 12 then
         Qleb (ssr_aff l i00 i01 i10 i11 is0 is1)
              (ssr_aff l m00 m01 m10 m11 s0 s1 + two_m50 * sw l * sc * sc)
       else true)
  | inr d, [i00; i01; i10; i11; is0; is1] =>
      Nat.eqb (c_err c) 0 && rs_agree (c_g c) d sc i00 i01 i10 i11 is0 is1
  | _, _ => false
  end.

Definition show06 (c : case06) :=
  (if c_iter c then fit_iter0 (c_g c) (c_p c) (c_wxy c) (c_wuv c) else fit_single (c_g c) (c_p c) (c_wxy c) (c_wuv c),
   match c_g c with GRscale => Some (fit_rscale_out (mkpts (c_p c) (comb (c_wxy c) (c_wuv c)))) | _ => None end).
