(* correspondence predicate for C13: statuses, set_correction counts, exception class/stage and alignment order of
   tweakwcs.imalign.align_wcs in a scripted world, against Model/AlignModel.v + Model/AlignWorld.v *)
From Coq Require Import List Bool Arith ZArith.
From TW Require Import CorrUtil AlignModel AlignWorld.
Import ListNotations.

Record case13 := {
  k_world : world;          (* inputs: images (group id, source ids of the rows, ids, field), reference rows,
                               effective minobj, matching on/off; and the OBSERVED alignment order *)
  k_opts : opts;            (* inputs: validity of the arguments, refcat kind + ids, expand, enforce *)
  (* the implementation's outputs *)
  k_exc : nat;              (* 0 normal return, 1 TypeError, 2 ValueError, 3 KeyError, 4 NotEnoughCatalogs, 9 other *)
  k_stage : nat;            (* which check raised (from the message): 1 wcscat, 2 catalog, 3 fitgeom, 4 refcat, 5 enough *)
  k_st : list nat;          (* per input: 0 no fit_info, 1 REFERENCE, 2 SUCCESS, 3 FAILED: empty source catalog,
                               4 FAILED: not enough matches, 5 FAILED: <other reason> (model: the fit raised),
                               6 anything else *)
  k_corr : list nat;        (* per input: number of set_correction calls *)
  k_order_obs : bool }.     (* the order was observable (scripted matcher in use) *)

Definition exc_code (e : exc) : nat :=
  match e with ExcType => 1 | ExcValue => 2 | ExcKey => 3 | ExcNotEnough => 4 | ExcFit => 9 end.
Definition st_code (s : stclass) : nat :=
  match s with Unset => 0 | Reference => 1 | Success => 2 | Failed 0 => 3 | Failed 1 => 4 | Failed _ => 5 end.
Definition order_agrees (W : world) (R : result) (obs : bool) : bool :=
  negb obs || list_eqb group_eqb (r_order R) (w_order W).

Definition agree13 (c : case13) : bool :=
  let R := run_world (k_world c) (k_opts c) in
  match r_exc R with
  | Some e => (k_exc c =? exc_code e) && (k_stage c =? r_stage R) && forallb (Nat.eqb 0) (k_corr c)
              && (length (k_corr c) =? length (r_corr R))
  | None => (k_exc c =? 0) && list_eqb Nat.eqb (map st_code (r_st R)) (k_st c)
            && list_eqb Nat.eqb (r_corr R) (k_corr c) && order_agrees (k_world c) R (k_order_obs c)
  end.

Definition show13 (c : case13) :=
  let R := run_world (k_world c) (k_opts c) in
  (match r_exc R with Some e => exc_code e | None => 0 end, r_stage R, map st_code (r_st R), r_corr R, r_order R).
