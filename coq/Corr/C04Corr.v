(* correspondence predicate for C04: several histories on the same gWCS that the theorems say are equivalent
   (live object / the same corrections interleaved with copy() and re-wrapping / adjacent own-plane corrections merged
   into their product (M2.M1, M2.s1 + s2)) must give, in the model, exactly the same accumulated affine and frames, and
   the implementation's tp_affine read back from each final pipeline must agree with that value; exactly one
   'v2v3corr' frame iff a correction was applied; the caller's WCS keeps its frames. *)
From Coq Require Import QArith Qcanon Qabs List Bool Arith.
From TW Require Import CorrUtil CorrModel CorrObs.
Import ListNotations.
Open Scope Q_scope.

Record run04 := { r_ops : list hop; r_has : bool; r_m : q4; r_t : q2; r_frames : list fname }.
Record case04 := { c4_frames : list fname; c4_info : q3; c4_k : Q; c4_runs : list run04; c4_orig_after : list fname }.

Definition model04 (c : case04) (r : run04) : option gst :=
  match ginit (wcs_of_frames (c4_frames c)) (to_ang (c4_info c)) with
  | None => None
  | Some st => grun (Q2Qc (c4_k c)) st (map to_op (r_ops r))
  end.
Definition bound04 (k : Q) (ops : list hop) : Q := fold_left (bound_step k) ops 0.
Definition is_corr (h : hop) : bool := match h with HSet _ _ | HSetRef _ _ _ _ _ => true | _ => false end.

Definition q4_eqb (a b : q4) : bool :=
  let '(a1, a2, a3, a4) := a in let '(b1, b2, b3, b4) := b in
  Qeq_bool a1 b1 && Qeq_bool a2 b2 && Qeq_bool a3 b3 && Qeq_bool a4 b4.
Definition q2_eqb (a b : q2) : bool := Qeq_bool (fst a) (fst b) && Qeq_bool (snd a) (snd b).
Definition aff_eqb (A B : aff) : bool :=
  q4_eqb (of_mat (amat A)) (of_mat (amat B)) && q2_eqb (of_pt (ash A)) (of_pt (ash B)).

Definition run_ok (c : case04) (r : run04) : bool :=
  match model04 c r with
  | None => false
  | Some st =>
      let ncorr := existsb is_corr (r_ops r) in
      let B := bound04 (c4_k c) (r_ops r) in
      fname_list_eqb (frames (g_wcs st)) (r_frames r) &&
      Nat.eqb (count Fcorr (r_frames r)) (if ncorr then 1 else 0) &&
      Bool.eqb (r_has r) ncorr &&
      (negb ncorr ||
       (let m := of_mat (amat (g_aff st)) in
        q4_close (eps40 * (1 + q4_maxabs m)) m (r_m r) && q2_close (eps36 * B) (of_pt (ash (g_aff st))) (r_t r)))
  end.
(* the model values of two equivalent histories: exactly equal when no reference-plane correction is involved; with
   reference-plane corrections the recorded probe points of the runs differ by rounding, hence 2^-26 / 2^-22 B *)
Definition eps26 : Q := 1 # 67108864.
Definition eps22 : Q := 1 # 4194304.
Definition has_ref (r : run04) : bool := existsb (fun h => match h with HSetRef _ _ _ _ _ => true | _ => false end) (r_ops r).
Definition same_model (c : case04) (r0 r : run04) : bool :=
  match model04 c r0, model04 c r with
  | Some a, Some b =>
      fname_list_eqb (frames (g_wcs a)) (frames (g_wcs b)) &&
      (if has_ref r0 then
         let m := of_mat (amat (g_aff a)) in
         (* _tp2tp differentiates numerically (relative noise ~1e-9, amplified by large shifts): two equivalent
            histories whose states before a reference-plane step differ by rounding agree to 2^-26 only *)
         q4_close (eps26 * (1 + q4_maxabs m)) m (of_mat (amat (g_aff b))) &&
         q2_close (eps22 * bound04 (c4_k c) (r_ops r0)) (of_pt (ash (g_aff a))) (of_pt (ash (g_aff b)))
       else aff_eqb (g_aff a) (g_aff b))
  | _, _ => false
  end.
Definition agree04 (c : case04) : bool :=
  fname_list_eqb (c4_frames c) (c4_orig_after c) &&
  forallb (run_ok c) (c4_runs c) &&
  match c4_runs c with
  | [] => true
  | r0 :: rest => forallb (same_model c r0) rest
  end.
Definition show04 (c : case04) :=
  map (fun r => option_map (fun st => (of_mat (amat (g_aff st)), of_pt (ash (g_aff st)), frames (g_wcs st))) (model04 c r)) (c4_runs c).
