(* correspondence predicates for C18: attributes of the astropy WCS object before / after FITSWCSCorrector.set_correction
   against the record update of the model (Model/CorrModel.v: fset), and CD / PC+CDELT twins.
     agree18  : every attribute the model's fset leaves alone is bit-for-bit the same in the implementation (CRPIX, CDELT,
                CTYPE code, pixel shape, SIP coefficients, all other recorded data), the representation flags do not
                change, and det(new matrix) = det(old matrix) det(M) within 2^-10 (the flat-instance value U = M; curvature
                of a real projection changes U by far less)
     agree18t : for twins, diag(cdelt).pc_after = cd_after within 2^-36 + 8 quanta/h relative (the numerical Jacobian sees
                the sky through 360*2^-52 deg quanta), CRVAL_after equal within 16 quanta *)
From Coq Require Import QArith Qcanon Qabs List Bool Arith.
From TW Require Import CorrUtil CorrModel CorrObs.
Import ListNotations.
Open Scope Q_scope.

Record attr18 := { a_crpix : q2; a_crval : q2; a_lin : q4; a_cdelt : q2; a_haspc : bool; a_hascd : bool;
                   a_naxis : q2; a_ctype : nat; a_sip : list Q; a_aux : list Q }.
Record case18 := { k_before : attr18; k_after : attr18; k_M : q4; k_s : q2 }.

Definition to_fwcs (a : attr18) : fwcs :=
  {| f_crpix := to_pt (a_crpix a); f_crval := to_pt (a_crval a); f_lin := to_mat (a_lin a); f_cdelt := to_pt (a_cdelt a);
     f_haspc := a_haspc a; f_naxis := to_pt (a_naxis a); f_ctype := a_ctype a;
     f_sip := map Q2Qc (a_sip a); f_aux := map Q2Qc (a_aux a) |}.
Definition qlist_eqb (a b : list Q) : bool := list_eqb Qeq_bool a b.
Definition q2_eqb (a b : q2) : bool := Qeq_bool (fst a) (fst b) && Qeq_bool (snd a) (snd b).
Definition q4_det (a : q4) : Q := let '(a1, a2, a3, a4) := a in a1 * a4 - a2 * a3.

Definition agree18 (c : case18) : bool :=
  let w' := fset flat_proj flat_proji (to_fwcs (k_before c)) (to_mat (k_M c)) (to_pt (k_s c)) None in
  let a := k_after c in let b0 := k_before c in
  q2_eqb (of_pt (f_crpix w')) (a_crpix a) && q2_eqb (of_pt (f_cdelt w')) (a_cdelt a) &&
  q2_eqb (of_pt (f_naxis w')) (a_naxis a) && Nat.eqb (f_ctype w') (a_ctype a) &&
  qlist_eqb (map this (f_sip w')) (a_sip a) && qlist_eqb (map this (f_aux w')) (a_aux a) &&
  Bool.eqb (f_haspc w') (a_haspc a) && Bool.eqb (a_hascd b0) (a_hascd a) && xorb (a_haspc a) (a_hascd a) &&
  (let d0 := q4_det (a_lin b0) in let d1 := q4_det (a_lin a) in let dm := q4_det (k_M c) in
   qclose ((1 # 1024) * Qabs (d0 * dm)) d1 (d0 * dm)).
Definition show18 (c : case18) :=
  let w' := fset flat_proj flat_proji (to_fwcs (k_before c)) (to_mat (k_M c)) (to_pt (k_s c)) None in
  (of_pt (f_crpix w'), of_pt (f_cdelt w'), f_haspc w', of_pt (f_naxis w'), f_ctype w', length (f_sip w'), length (f_aux w'),
   q4_det (a_lin (k_before c)) * q4_det (k_M c), q4_det (a_lin (k_after c))).

(* CD and PC+CDELT twins *)
Record case18t := { t_cd0 : attr18; t_pc0 : attr18; t_cd1 : attr18; t_pc1 : attr18; t_scale : Q; t_amp : Q }.
(* t_scale: deg/px; t_amp >= 1/cos(dec): a position error maps to an RA error amplified by it *)
Definition eff_cd (a : attr18) : q4 :=
  if a_haspc a then of_mat (dmul (to_pt (a_cdelt a)) (to_mat (a_lin a))) else a_lin a.
Definition agree18t (c : case18t) : bool :=
  let hx := this (hstep (Q2Qc (fst (a_crpix (t_cd0 c)))) (Q2Qc (fst (a_naxis (t_cd0 c))))) in
  let hy := this (hstep (Q2Qc (snd (a_crpix (t_cd0 c)))) (Q2Qc (snd (a_naxis (t_cd0 c))))) in
  let quantum := (360 # 4503599627370496) in            (* 360 * 2^-52 deg *)
  let dpx := quantum / t_scale c in                     (* the same in pixels *)
  let rel := eps36 + 8 * dpx / Qmin hx hy in
  a_hascd (t_cd0 c) && negb (a_haspc (t_cd0 c)) && a_haspc (t_pc0 c) && negb (a_hascd (t_pc0 c)) &&
  a_hascd (t_cd1 c) && negb (a_haspc (t_cd1 c)) && a_haspc (t_pc1 c) && negb (a_hascd (t_pc1 c)) &&
  q4_close (eps40 * q4_maxabs (eff_cd (t_cd0 c))) (eff_cd (t_cd0 c)) (eff_cd (t_pc0 c)) &&
  q4_close (rel * q4_maxabs (eff_cd (t_cd1 c))) (eff_cd (t_cd1 c)) (eff_cd (t_pc1 c)) &&
  qclose (16 * quantum * t_amp c) (fst (a_crval (t_cd1 c))) (fst (a_crval (t_pc1 c))) &&
  qclose (16 * quantum) (snd (a_crval (t_cd1 c))) (snd (a_crval (t_pc1 c))).
Definition show18t (c : case18t) := (eff_cd (t_cd1 c), eff_cd (t_pc1 c)).
