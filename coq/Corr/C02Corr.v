(* correspondence predicates for C02: the implementation's observable state after every step of a history of
   set_correction / copy / re-wrapping calls against the model (Model/CorrModel.v), in exact rational arithmetic.

   gWCS   : tp_affine / tp_affine_inv read back from the pipeline step preceding 'v2v3corr', available_frames;
            for corrections given in a reference plane the four probe points of _tp2tp (recorded by a proxy
            ref_tpwcs) from which the model recomputes (r, t), the conjugation and the combination.
   FITS   : what set_correction asked of ref_tpwcs (recorded by a proxy) and the CD / PC matrix it stored:
            shift' = -M^-1 s, the transformed reference pixel, the nine stencil points, U, lin := lin . U.
   Tolerances: 2^-40 relative for matrices, 2^-36 of a running magnitude bound for translations (see below). *)
From Coq Require Import QArith Qcanon Qabs List Bool Arith.
From TW Require Import CorrUtil CorrModel CorrObs.
Import ListNotations.
Open Scope Q_scope.

(* ------------------------------------------------------------------ gWCS histories *)
Record hobs := { ho_op : hop; ho_has : bool; ho_m : q4; ho_t : q2; ho_im : q4; ho_it : q2; ho_frames : list fname }.
Record case02 := { c_frames : list fname; c_info : q3; c_k : Q; c_hist : list hobs }.

Definition obs_ok (st : gst) (B : Q) (o : hobs) : bool :=
  fname_list_eqb (frames (g_wcs st)) (ho_frames o) &&
  match g_pipeline_tpc st with
  | None => negb (ho_has o)
  | Some c =>
      ho_has o &&
      (let m := of_mat (amat (tp_fwd c)) in let im := of_mat (amat (tp_inv c)) in
       q4_close (eps40 * (1 + q4_maxabs m)) m (ho_m o) &&
       q2_close (eps36 * B) (of_pt (ash (tp_fwd c))) (ho_t o) &&
       q4_close (eps36 * (1 + q4_maxabs im)) im (ho_im o) &&
       q2_close (eps36 * (1 + 2 * q4_maxabs im) * B) (of_pt (ash (tp_inv c))) (ho_it o))
  end.

Fixpoint run02 (k : Q) (st : gst) (B : Q) (l : list hobs) : bool :=
  match l with
  | [] => true
  | o :: r =>
    match gstep (Q2Qc k) st (to_op (ho_op o)) with
    | None => false
    | Some st' => let B' := bound_step k B (ho_op o) in
                  probe_ok (ho_op o) && obs_ok st' B' o && run02 k st' B' r
    end
  end.
Definition agree02 (c : case02) : bool :=
  match ginit (wcs_of_frames (c_frames c)) (to_ang (c_info c)) with
  | None => false
  | Some st => run02 (c_k c) st 0 (c_hist c)
  end.

(* model values after each step, for a failing case: (matrix, translation, frames) *)
Fixpoint trace02 (k : Q) (st : gst) (l : list hobs) : list (option (q4 * q2 * q4 * q2) * list fname) :=
  match l with
  | [] => []
  | o :: r =>
    match gstep (Q2Qc k) st (to_op (ho_op o)) with
    | None => []
    | Some st' =>
       (option_map (fun c => (of_mat (amat (tp_fwd c)), of_pt (ash (tp_fwd c)), of_mat (amat (tp_inv c)), of_pt (ash (tp_inv c))))
                   (g_pipeline_tpc st'), frames (g_wcs st')) :: trace02 k st' r
    end
  end.
Definition show02 (c : case02) :=
  match ginit (wcs_of_frames (c_frames c)) (to_ang (c_info c)) with
  | None => []
  | Some st => trace02 (c_k c) st (c_hist c)
  end.

(* ------------------------------------------------------------------ FITS set_correction *)
Record case02f := {
  f_crpix0 : q2; f_naxis0 : q2; f_M : q4; f_s : q2; f_own : bool;   (* f_own: ref_tpwcs = None (own plane) *)
  f_a1 : q2;            (* ref.world_to_tanp(crval)            (recorded output) *)
  f_b1 : q2;            (* argument of ref.tanp_to_world for the new CRVAL  (recorded input) *)
  f_a3 : list q2;       (* ref.world_to_tanp of the nine stencil points     (recorded output) *)
  f_b4 : list q2;       (* arguments of ref.tanp_to_world in _linearize     (recorded input) *)
  f_p : list q2;        (* the nine points mapped back to image pixels (wcs with new CRVAL, old matrix) *)
  f_lin0 : q4; f_lin1 : q4   (* wcs.wcs.pc (or cd) before and after *)
}.

Fixpoint list_pt_close (tol : Q) (a : list pt) (b : list q2) : bool :=
  match a, b with
  | [], [] => true
  | x :: a', y :: b' => pt_close tol x y && list_pt_close tol a' b'
  | _, _ => false
  end.

Definition agree02f (c : case02f) : bool :=
  let M := to_mat (f_M c) in
  let shift := pneg (mapp (minv M) (to_pt (f_s c))) in
  let hx := hstep (Q2Qc (fst (f_crpix0 c))) (Q2Qc (fst (f_naxis0 c))) in
  let hy := hstep (Q2Qc (snd (f_crpix0 c))) (Q2Qc (snd (f_naxis0 c))) in
  let c0 := psub (to_pt (f_crpix0 c)) (1, 1)%Qc in
  let mag := 1 + q2_maxabs (f_a1 c) + q2_maxabs (f_s c) in
  let tolp := eps36 * (1 + 2 * q4_maxabs (f_M c)) * (mag + list_max_abs (map fst (f_a3 c)) + list_max_abs (map snd (f_a3 c))) in
  (* new reference-pixel position in the reference plane: M . (a1 - shift') *)
  pt_close tolp (mapp M (psub (to_pt (f_a1 c)) shift)) (f_b1 c) &&
  (* the nine points are transformed the same way *)
  list_pt_close tolp (map (fun a => mapp M (psub (to_pt a) shift)) (f_a3 c)) (f_b4 c) &&
  (* own plane: the stencil points are the literal nine points (to 1e-6 px: they went through the sky and back) *)
  (negb (f_own c) || list_pt_close (1 # 1000000) (stencil_pts (fst c0) (snd c0) hx hy) (f_a3 c)) &&
  (* U from the literal stencil; lin := lin . U *)
  (let U := stencil_U (map to_pt (f_p c)) hx hy in
   let l1 := of_mat (mmul (to_mat (f_lin0 c)) U) in
   q4_close (eps36 * q4_maxabs (f_lin0 c) * (1 + q4_maxabs (of_mat U))) l1 (f_lin1 c)).

Definition show02f (c : case02f) :=
  let M := to_mat (f_M c) in
  let shift := pneg (mapp (minv M) (to_pt (f_s c))) in
  let hx := hstep (Q2Qc (fst (f_crpix0 c))) (Q2Qc (fst (f_naxis0 c))) in
  let hy := hstep (Q2Qc (snd (f_crpix0 c))) (Q2Qc (snd (f_naxis0 c))) in
  let U := stencil_U (map to_pt (f_p c)) hx hy in
  (this hx, this hy, of_pt (mapp M (psub (to_pt (f_a1 c)) shift)), of_mat U, of_mat (mmul (to_mat (f_lin0 c)) U)).
