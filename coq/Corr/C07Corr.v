(* correspondence predicate for C07: validates an implementation trace (results of iter_linear_fit for
   nclip = 0,1,..,K on the same data) step by step against the clipping step of the model *)
From Coq Require Import QArith Qabs List Bool Arith.
From TW Require Import CorrUtil GJModel LSQ LinearFit Clip FloorSqrt ClipModel C06Corr.
Import ListNotations.
Open Scope Q_scope.

Record tr := { t_mask : list bool; t_eff : nat; t_par : list Q; t_stats : list Q (* rmse mae std *) }.
Record case07 := { k_g : geom; k_p : list pt4; k_wxy : option (list Q); k_wuv : option (list Q);
                   k_nsig : Q; k_st : stat; k_accum : bool; k_exact : bool; k_trace : list tr }.

Definition par_of (l : list Q) : fitp :=
  match l with
  | [a; b; c; d; e; g] => {| f00 := a; f01 := b; f10_ := c; f11_ := d; fs0 := e; fs1 := g |}
  | _ => {| f00 := 0; f01 := 0; f10_ := 0; f11_ := 0; fs0 := 0; fs1 := 0 |}
  end.

Definition eff_weights (n : nat) (w : option (list Q)) : list Q :=
  match w with None => repeat 1 n | Some ws => ws end.

Definition two_m36 : Q := 1 # 68719476736.
Definition two_m24 : Q := 1 # 16777216.

Section One.
Variable c : case07.
Let n := length (k_p c).
Let wm := wmask n (k_wxy c) (k_wuv c).
Let minobj := minpts (k_g c).
Let w := eff_weights n (comb (k_wxy c) (k_wuv c)).
Let weighted := match comb (k_wxy c) (k_wuv c) with None => false | Some _ => true end.
Let sc := maxcoord (k_p c).
Let eps2 := if k_exact c then 0 else Qred (two_m36 * sc * (two_m36 * sc)).
Let rel := if k_exact c then 1 else rel20.

(* the fit reported with mask m is the plain fit of the retained points *)
Definition fit_ok (e : tr) : bool :=
  let m := t_mask e in
  agree06 {| c_iter := false; c_g := k_g c; c_p := filt m (k_p c);
             c_wxy := option_map (filt m) (k_wxy c); c_wuv := option_map (filt m) (k_wuv c);
             c_err := 0; c_m := t_par e |}.

Definition stats_ok (e : tr) : bool :=
  let f := par_of (t_par e) in
  let pw := filt (t_mask e) (combine (k_p c) w) in
  match t_stats e with
  | [rmse; mae; std] =>
      let r := fst (stat2_encl SRmse weighted f pw) in
      let s := fst (stat2_encl SStd weighted f pw) in
      let a := stat2_encl SMae weighted f pw in
      qclose (two_m24 * r + eps2) (rmse * rmse) r &&
      qclose (two_m24 * s + eps2) (std * std) s &&
      Qleb (fst a * (1 - two_m24) - eps2) (mae * mae) && Qleb (mae * mae) (snd a * (1 + two_m24) + eps2)
  | _ => false
  end.

Definition step_ok (k : nat) (e e' : tr) : bool :=
  let same := meqb (t_mask e') (t_mask e) && Nat.eqb (t_eff e') (t_eff e) in
  if (t_eff e <? k)%nat then same else
  let '(v, nlo, nhi) := clip_step3 minobj (k_accum c) weighted (k_st c) (k_nsig c) rel eps2 (k_p c) w wm
                                   (t_mask e) (par_of (t_par e)) in
  let go := Nat.eqb (t_eff e') (S k) && between nlo (t_mask e') nhi in
  match v with
  | SureStop => same
  | SureGo => go
  | Undecided => same || go
  end.

Fixpoint steps_ok (k : nat) (l : list tr) : bool :=
  match l with
  | e :: ((e' :: _) as r) => step_ok k e e' && steps_ok (S k) r
  | _ => true
  end.

Fixpoint effs_ok (k : nat) (l : list tr) : bool :=
  match l with
  | [] => true
  | e :: r => (t_eff e <=? k)%nat && (Nat.eqb (length (t_mask e)) n) && effs_ok (S k) r
  end.

(* ---- whole-history tie: the loop the theorems are about (Clip.iter_fit), instantiated with the exact model
   fit of the retained points and the exact cut-off test, predicts the implementation's complete history.
   Applied when the statistic is rational (rmse, std), the family has a rational optimum (shift, rscale, general)
   and no decision along the model's own history falls into the tolerance band. ---- *)
Definition model_fit (m : list bool) : option (fitp * Q) :=
  let pp := filt m (k_p c) in
  let wx := option_map (filt m) (k_wxy c) in let wu := option_map (filt m) (k_wuv c) in
  let out := match k_g c with
             | GRshift => OutErr ESingular
             | GRscale => match check_in GRscale pp (comb wx wu) with
                          | Some e => OutErr e
                          | None => fit_rscale_out (mkpts pp (comb wx wu))
                          end
             | g => match fit_single g pp wx wu with inl o => o | inr _ => OutErr ESingular end
             end in
  match out with
  | OutAffine a b cc d e g =>
      let f := {| f00 := a; f01 := b; f10_ := cc; f11_ := d; fs0 := e; fs1 := g |} in
      let s2 := fst (stat2_encl (k_st c) weighted f (filt m (combine (k_p c) w))) in
      Some (f, Qred (k_nsig c * k_nsig c * s2))
  | OutErr _ => None
  end.
Definition model_below (r : option (fitp * Q)) (i : nat) : bool :=
  match r, nth_error (k_p c) i with
  | Some (f, c2), Some p => Qltb (r2 f p) c2
  | _, _ => false
  end.
(* is some tested point of state (m, r) inside the tolerance band? *)
Definition model_tight (m : list bool) (r : option (fitp * Q)) : bool :=
  match r with
  | None => true
  | Some (f, c2) =>
      let bm := below_masks f (c2, c2) rel20 eps2 (k_p c) in
      let tested := if k_accum c then m else wm in
      negb (meqb (mand tested (fst bm)) (mand tested (snd bm)))
  end.
Definition rational_case : bool :=
  match k_st c, k_g c with
  | SMae, _ => false
  | _, GRshift => false
  | _, _ => negb (k_exact c)
  end.
(* state after nclip = k+1 from the state after nclip = k: one more round of the SAME loop
   (Clip.loop_prefix / ClipTie.iter_fit_succ: iter_fit (S k) = clip_loop 1 (iter_fit k) unless nclip is reset) *)
Definition next_state (s : cstate (option (fitp * Q))) : cstate (option (fitp * Q)) :=
  if Nat.eqb (count wm) minobj then s
  else clip_loop n (option (fitp * Q)) model_fit model_below minobj wm (k_accum c) 1 s.
Fixpoint hist_ok (s : cstate (option (fitp * Q))) (l : list tr) : bool :=
  match l with
  | [] => true
  | e :: r =>
      if model_tight (cm _ s) (cf _ s) then true     (* a decision too close to call: stop comparing *)
      else meqb (cm _ s) (t_mask e) && Nat.eqb (ceff _ s) (t_eff e) && hist_ok (next_state s) r
  end.
Definition full_history_ok : bool :=
  if rational_case
  then hist_ok (iter_fit n (option (fitp * Q)) model_fit model_below minobj wm (k_accum c) 0) (k_trace c)
  else true.

Definition agree07 : bool :=
  match k_trace c with
  | [] => false
  | e0 :: _ =>
      meqb (t_mask e0) wm && Nat.eqb (t_eff e0) 0 &&
      effs_ok 0 (k_trace c) &&
      forallb fit_ok (k_trace c) && forallb stats_ok (k_trace c) &&
      (if Nat.eqb (count wm) minobj
       then forallb (fun e => meqb (t_mask e) wm && Nat.eqb (t_eff e) 0) (k_trace c)
       else steps_ok 0 (k_trace c)) &&
      full_history_ok
  end.

(* diagnostics for a failing case: which component fails, and the model's step verdicts *)
Definition show07 :=
  (full_history_ok, map fit_ok (k_trace c), map stats_ok (k_trace c),
   (fix go (k : nat) (l : list tr) :=
      match l with
      | e :: ((e' :: _) as r) =>
          (step_ok k e e',
           clip_step3 minobj (k_accum c) weighted (k_st c) (k_nsig c) rel eps2 (k_p c) w wm (t_mask e) (par_of (t_par e)))
          :: go (S k) r
      | _ => []
      end) 0%nat (k_trace c)).
End One.
