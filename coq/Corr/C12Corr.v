(* correspondence predicates for C12: _xy_2dhist, _estimate_2dhist_shift, _find_peak vs the exact model *)
From Coq Require Import QArith Qabs ZArith List Bool.
From Coq Require Export String.
From TW Require Import CorrUtil GJModel Peak Hist.
Import ListNotations.
Open Scope Q_scope.

Definition two_m12 : Q := 1 # 4096.
Definition two_m18 : Q := 1 # 262144.
Definition two_m20 : Q := 1 # 1048576.
Definition two_m24 : Q := 1 # 16777216.
Definition two_m40 : Q := 1 # 1099511627776.
Definition two_m50 : Q := 1 # 1125899906842624.

Definition hist_eqb (a b : hist) : bool := list_eqb (list_eqb Z.eqb) a b.

(* ---------------- _xy_2dhist(imgxy, refxy, r): the integer array ---------------- *)
Record case12h := { h_img : list pt; h_ref : list pt; h_r : Q; h_out : hist }.
Definition agree12h (c : case12h) : bool := hist_eqb (xy_2dhist (h_r c) (h_img c) (h_ref c)) (h_out c).
Definition show12h (c : case12h) := xy_2dhist (h_r c) (h_img c) (h_ref c).

(* ---------------- _find_peak(data, peak_fit_box, mask) ---------------- *)
Record case12p := { k_ny : Z; k_nx : Z; k_h : hist; k_m : maskt; k_box : Z;
                    k_x : Q; k_y : Q; k_status : string; k_y1 : Z; k_y2 : Z; k_x1 : Z; k_x2 : Z }.

Definition dmax (pts : list (Z * Z * Z)) : Q :=
  inject_Z (fold_right (fun p a => Z.max (Z.abs (pd p)) a) 1%Z pts).

(* every guard of the fit stage is decided with a margin far above rounding *)
Definition robust (c : coef6) (pts : list (Z * Z * Z)) (x1 x2 y1 y2 : Z) : bool :=
  let D := dmax pts in
  Qltb (two_m12 * D * D) (Qabs (fit_det c)) &&
  (if Qltb 0 (fit_det c) then
     Qltb (two_m24 * D) (Qabs (c20 c)) && Qltb (two_m24 * D) (Qabs (c02 c)) &&
     (if no_max c then true else
        let xm := vertex_x c + inject_Z x1 - 1 in
        let ym := vertex_y c + inject_Z y1 - 1 in
        Qltb two_m18 (Qabs (xm - inject_Z x1)) && Qltb two_m18 (Qabs (xm - (inject_Z x2 - 1))) &&
        Qltb two_m18 (Qabs (ym - inject_Z y1)) && Qltb two_m18 (Qabs (ym - (inject_Z y2 - 1))))
   else true).

Definition box_eq (c : case12p) (x1 x2 y1 y2 : Z) : bool :=
  Z.eqb (k_x1 c) x1 && Z.eqb (k_x2 c) x2 && Z.eqb (k_y1 c) y1 && Z.eqb (k_y2 c) y2.

Definition in_box (c : case12p) (x1 x2 y1 y2 : Z) : bool :=
  Qleb (inject_Z x1) (k_x c) && Qleb (k_x c) (inject_Z x2 - 1) &&
  Qleb (inject_Z y1) (k_y c) && Qleb (k_y c) (inject_Z y2 - 1).

Definition same_result (tol : Q) (c : case12p) (r : Q * Q * status) : bool :=
  String.eqb (k_status c) (status_str (snd r)) && qclose tol (k_x c) (fst (fst r)) && qclose tol (k_y c) (snd (fst r)).

(* what must hold whatever the coefficients are: inside the box; unless SUCCESS the point is the centre of
   mass (which does not depend on the coefficients) with BADFIT / CENTER-OF-MASS *)
Definition weak_result (c : case12p) (pts : list (Z * Z * Z)) (x1 x2 y1 y2 : Z) : bool :=
  in_box c x1 x2 y1 y2 &&
  (String.eqb (k_status c) "SUCCESS" ||
   (let cm := com pts x1 x2 y1 y2 in
    qclose two_m40 (k_x c) (fst (fst cm)) && qclose two_m40 (k_y c) (snd (fst cm)) &&
    match snd cm with
    | ErrNoData => String.eqb (k_status c) "ERROR:NODATA"
    | _ => String.eqb (k_status c) "WARNING:BADFIT" || String.eqb (k_status c) "WARNING:CENTER-OF-MASS"
    end)).

Inductive cmp_kind := CmpExact | CmpFitExact | CmpFitWeak | CmpRankDef.
Definition kind12p (c : case12p) : cmp_kind :=
  match stage1_of (k_ny c) (k_nx c) (k_h c) (k_m c) (k_box c) with
  | Done _ => CmpExact
  | NeedFit x1 x2 y1 y2 pts =>
      match lsq6 pts with
      | LCoef cf => if robust cf pts x1 x2 y1 y2 then CmpFitExact else CmpFitWeak
      | LRankDef => CmpRankDef
      end
  end.

Definition agree12p (c : case12p) : bool :=
  match stage1_of (k_ny c) (k_nx c) (k_h c) (k_m c) (k_box c) with
  | Done p =>
      box_eq c (p_x1 p) (p_x2 p) (p_y1 p) (p_y2 p) && in_box c (p_x1 p) (p_x2 p) (p_y1 p) (p_y2 p) &&
      same_result two_m40 c (p_x p, p_y p, p_st p)
  | NeedFit x1 x2 y1 y2 pts =>
      box_eq c x1 x2 y1 y2 && in_box c x1 x2 y1 y2 &&
      match lsq6 pts with
      | LCoef cf =>
          if robust cf pts x1 x2 y1 y2 then same_result two_m20 c (finish (Some cf) pts x1 x2 y1 y2)
          else weak_result c pts x1 x2 y1 y2
      | LRankDef => weak_result c pts x1 x2 y1 y2
      end
  end.

Definition show12p (c : case12p) :=
  (find_peak_exec (k_ny c) (k_nx c) (k_h c) (k_m c) (k_box c), kind12p c).

(* ---------------- _estimate_2dhist_shift(imgxy, refxy, searchrad, pscale) ---------------- *)
(* e_r is the binary64 quotient searchrad / pscale computed by the harness (an input of the model) *)
Record case12e := { e_img : list pt; e_ref : list pt; e_searchrad : Q; e_pscale : Q; e_r : Q;
                    e_x : Q; e_y : Q }.

Definition r_consistent (c : case12e) : bool :=
  Qleb (Qabs (e_r c * e_pscale c - e_searchrad c)) (two_m50 * e_searchrad c).

Definition est_robust (c : case12e) : bool :=
  let r := e_r c in
  let n := (2 * half_bins r + 1)%Z in
  let zp := xy_2dhist r (scale_pts (e_pscale c) (e_img c)) (scale_pts (e_pscale c) (e_ref c)) in
  match List.length (nonzero_cells n zp) with
  | O => true | S O => true
  | _ => match stage1_of n n zp (mask_pos zp) 5 with
         | Done _ => true
         | NeedFit x1 x2 y1 y2 pts =>
             match lsq6 pts with LCoef cf => robust cf pts x1 x2 y1 y2 | LRankDef => false end
         end
  end.

(* whatever the coefficients: the estimate is (0,0) or lies inside the 5-bin fit box around the highest bin *)
Definition est_weak (c : case12e) : bool :=
  let r := e_r c in
  let n := (2 * half_bins r + 1)%Z in
  let zp := xy_2dhist r (scale_pts (e_pscale c) (e_img c)) (scale_pts (e_pscale c) (e_ref c)) in
  match stage1_of n n zp (mask_pos zp) 5 with
  | Done _ => true
  | NeedFit x1 x2 y1 y2 pts =>
      let bx := e_x c / e_pscale c + inject_Z (n / 2) in
      let by_ := e_y c / e_pscale c + inject_Z (n / 2) in
      Qleb (inject_Z x1 - two_m20) bx && Qleb bx (inject_Z x2 - 1 + two_m20) &&
      Qleb (inject_Z y1 - two_m20) by_ && Qleb by_ (inject_Z y2 - 1 + two_m20)
  end.

Definition agree12e (c : case12e) : bool :=
  r_consistent c &&
  match estimate_exec (e_img c) (e_ref c) (e_r c) (e_pscale c) with
  | Some (x, y) =>
      if est_robust c then
        let tol := two_m20 * e_pscale c in
        qclose tol (e_x c) x && qclose tol (e_y c) y
      else est_weak c
  | None => est_weak c
  end.

Definition show12e (c : case12e) :=
  (estimate_exec (e_img c) (e_ref c) (e_r c) (e_pscale c), estimate_exit (e_img c) (e_ref c) (e_r c) (e_pscale c),
   est_robust c, r_consistent c,
   xy_2dhist (e_r c) (scale_pts (e_pscale c) (e_img c)) (scale_pts (e_pscale c) (e_ref c))).

(* classification codes for the evidence *)
Definition code12e (c : case12e) : nat :=
  match estimate_exit (e_img c) (e_ref c) (e_r c) (e_pscale c) with
  | ExitNoPairs => 0 | ExitOneBin => 1
  | ExitPeak => match estimate_exec (e_img c) (e_ref c) (e_r c) (e_pscale c) with
                | Some _ => if est_robust c then 2 else 3 | None => 4 end
  end%nat.
Definition code12p (c : case12p) : nat :=
  match kind12p c with CmpExact => 0 | CmpFitExact => 1 | CmpFitWeak => 2 | CmpRankDef => 3 end%nat.
