(* correspondence predicate for C03: along a history of a gWCS corrector the pair (tp_affine, tp_affine_inv) stored in
   the pipeline -- the only state the six conversions depend on -- stays coherent: the stored inverse read back from
   the implementation is the model's inverse of the accumulated affine, and composing the implementation's own two
   affines gives the identity (|inv.m - I| <= 2^-36 (1 + |inv|), |inv.t + t_inv| <= 2^-36 (1 + |inv|) B). *)
From Coq Require Import QArith Qcanon Qabs List Bool Arith.
From TW Require Import CorrUtil CorrModel CorrObs.
Import ListNotations.
Open Scope Q_scope.

Record obs03 := { o3_op : hop; o3_has : bool; o3_m : q4; o3_t : q2; o3_im : q4; o3_it : q2 }.
Record case03 := { c3_frames : list fname; c3_info : q3; c3_k : Q; c3_hist : list obs03 }.

Definition q4_mul (a b : q4) : q4 :=
  let '(a1, a2, a3, a4) := a in let '(b1, b2, b3, b4) := b in
  (Qred (a1 * b1 + a2 * b3), Qred (a1 * b2 + a2 * b4), Qred (a3 * b1 + a4 * b3), Qred (a3 * b2 + a4 * b4)).
Definition q4_app (a : q4) (v : q2) : q2 :=
  let '(a1, a2, a3, a4) := a in (Qred (a1 * fst v + a2 * snd v), Qred (a3 * fst v + a4 * snd v)).

Definition coherent03 (B : Q) (o : obs03) : bool :=
  let tol := eps36 * (1 + 2 * q4_maxabs (o3_im o)) in
  q4_close tol (q4_mul (o3_im o) (o3_m o)) (1, 0, 0, 1) &&
  q4_close tol (q4_mul (o3_m o) (o3_im o)) (1, 0, 0, 1) &&
  (let v := q4_app (o3_im o) (o3_t o) in
   q2_close (tol * B) (Qred (fst v + fst (o3_it o)), Qred (snd v + snd (o3_it o))) (0, 0)).

Definition obs_ok03 (st : gst) (B : Q) (o : obs03) : bool :=
  match g_pipeline_tpc st with
  | None => negb (o3_has o)
  | Some c =>
      o3_has o && coherent03 B o &&
      (let im := of_mat (amat (inva (tp_fwd c))) in
       q4_close (eps36 * (1 + q4_maxabs im)) im (o3_im o) &&
       q2_close (eps36 * (1 + 2 * q4_maxabs im) * B) (of_pt (ash (inva (tp_fwd c)))) (o3_it o)) &&
      (* the model's own stored inverse is the inverse of its forward affine *)
      q4_close 0 (of_mat (amat (tp_inv c))) (of_mat (amat (inva (tp_fwd c))))
  end.
Fixpoint run03 (k : Q) (st : gst) (B : Q) (l : list obs03) : bool :=
  match l with
  | [] => true
  | o :: r =>
    match gstep (Q2Qc k) st (to_op (o3_op o)) with
    | None => false
    | Some st' => let B' := bound_step k B (o3_op o) in obs_ok03 st' B' o && run03 k st' B' r
    end
  end.
Definition agree03 (c : case03) : bool :=
  match ginit (wcs_of_frames (c3_frames c)) (to_ang (c3_info c)) with
  | None => false
  | Some st => run03 (c3_k c) st 0 (c3_hist c)
  end.
Fixpoint trace03 (k : Q) (st : gst) (l : list obs03) : list (option (q4 * q2)) :=
  match l with
  | [] => []
  | o :: r =>
    match gstep (Q2Qc k) st (to_op (o3_op o)) with
    | None => []
    | Some st' => option_map (fun c => (of_mat (amat (inva (tp_fwd c))), of_pt (ash (inva (tp_fwd c))))) (g_pipeline_tpc st')
                  :: trace03 k st' r
    end
  end.
Definition show03 (c : case03) :=
  match ginit (wcs_of_frames (c3_frames c)) (to_ang (c3_info c)) with
  | None => []
  | Some st => trace03 (c3_k c) st (c3_hist c)
  end.
