(* correspondence predicate for C14: rows (source identities, in order) and id column of the reference catalog
   returned by tweakwcs.imalign.align_wcs in a scripted world, against Model/AlignModel.v + Model/AlignWorld.v *)
From Coq Require Import List Bool Arith ZArith.
From TW Require Import CorrUtil AlignModel AlignWorld.
Import ListNotations.

Record case14 := {
  q_world : world;
  q_opts : opts;
  (* the implementation's outputs *)
  q_exc : nat;              (* 0 normal return, else exception class as in C13Corr *)
  q_sids : list Z;          (* source identity of every row of the returned catalog, in row order *)
  q_ids : list Z;           (* its id column *)
  q_order_obs : bool }.

Definition exc_code14 (e : exc) : nat :=
  match e with ExcType => 1 | ExcValue => 2 | ExcKey => 3 | ExcNotEnough => 4 | ExcFit => 9 end.

Definition agree14 (c : case14) : bool :=
  let R := run_world (q_world c) (q_opts c) in
  match r_exc R with
  | Some e => q_exc c =? exc_code14 e
  | None => (q_exc c =? 0)
            && list_eqb Z.eqb (sids_of (q_world c) (r_ref R)) (q_sids c)
            && list_eqb Z.eqb (r_ids R) (q_ids c)
            && (negb (q_order_obs c) || list_eqb group_eqb (r_order R) (w_order (q_world c)))
  end.

Definition show14 (c : case14) :=
  let R := run_world (q_world c) (q_opts c) in
  (match r_exc R with Some e => exc_code14 e | None => 0 end, sids_of (q_world c) (r_ref R), r_ids R, r_ref R, r_order R).
