(* correspondence predicate for C20: what tanp_pixel_scale(x, y) asked of det_to_tanp (recorded by a subclass in the
   harness) and what it returned.
     - the four corner positions are exactly (x-.5,y-.5), (x-.5,y+.5), (x+.5,y+.5), (x+.5,y-.5)
     - pscale^2 = shoelace area of their images, within 2^-36 relative + 2^-46 |coordinates|^2 (the implementation evaluates
       the area as a difference of products of plane coordinates in binary64: cancellation floor 2^-52 |coordinates|^2)
     - when the same pixel is measured before and after a gWCS correction (M, s): area_after = |det M| area_before *)
From Coq Require Import QArith Qcanon Qabs List Bool Arith.
From TW Require Import CorrUtil CorrModel CorrObs.
Import ListNotations.
Open Scope Q_scope.

Record case20 := {
  s_x : Q; s_y : Q;
  s_in : list q2;        (* corner positions handed to det_to_tanp *)
  s_out : list q2;       (* their images *)
  s_pscale : Q;          (* returned value *)
  s_follow : bool;       (* a measurement at the same pixel before a correction (M, s) is attached *)
  s_M : q4; s_prev : list q2
}.

Definition area_of (l : list q2) : Qc :=
  shoelace (to_pt (nth 0 l (0, 0))) (to_pt (nth 1 l (0, 0))) (to_pt (nth 2 l (0, 0))) (to_pt (nth 3 l (0, 0))).
Definition mag_of (l : list q2) : Q :=
  let m := Qmax (list_max_abs (map fst l)) (list_max_abs (map snd l)) in
  (* spread of the coordinates: the area is translation invariant, the rounding is not *)
  m.
Definition corners_ok (c : case20) : bool :=
  list_eqb (fun a b => Qeq_bool (fst a) (fst b) && Qeq_bool (snd a) (snd b))
           (map of_pt (pixel_corners (Q2Qc (s_x c)) (Q2Qc (s_y c)))) (s_in c).
Definition agree20 (c : case20) : bool :=
  let a := this (area_of (s_out c)) in
  let p2 := s_pscale c * s_pscale c in
  let side := Qabs (s_pscale c) in
  let mag := mag_of (s_out c) in
  let tol := eps36 * a + (1 # 70368744177664) * (mag * mag) in
  Nat.eqb (length (s_in c)) 4 && Nat.eqb (length (s_out c)) 4 && corners_ok c &&
  qclose tol a p2 &&
  (negb (s_follow c) ||
   (let b := this (area_of (s_prev c)) in
    let d := Qabs (this (mdet (to_mat (s_M c)))) in
    qclose (eps30 * a + eps36 * (mag * side) * 8) a (d * b))).
Definition show20 (c : case20) := (this (area_of (s_out c)), s_pscale c * s_pscale c, this (area_of (s_prev c))).
