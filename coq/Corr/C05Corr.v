(* correspondence predicate for C05: one alignment of a group (1..4 members) through one reference plane.

   v_fit     the true matched pairs of the WHOLE group in the reference plane used for this alignment, weights,
             fit geometry, reported matrix / shift (identical for all members) -> agree06
   per member:
   m_gw      0 FITS member; 2 gWCS member: m_R = (r, t) of _tp2tp(ref plane, member) evaluated by the harness,
             m_A0 / m_A1 = tp_affine of the member's pipeline before / after, m_a2r unit factor; the model's
             conjugation + combination (Model/AlignFit.v: gw_update_ref) must reproduce m_A1
   m_land    arcsec distance of every catalog source of the member from its reference position after alignment
   m_map     plane-units distance | ref.w2t(new.det_to_world p) - F(ref.w2t(old.det_to_world p)) | on a pixel grid
             of the member, F the reported fit: one sky-level map for all members
   m_cross   arcsec distance between the sky positions of the member's pixel grid produced by THIS alignment
             and by the alignment carried out in the scenario's primary plane
   each with its stated tolerance (rounding level when planes coincide, first-order reprojection bound
   otherwise; computed by the harness from the geometry, see pC05.py) *)
From Coq Require Import QArith Qabs List Bool Arith.
From TW Require Import CorrUtil GJModel LSQ Rscale Rscale2 Shift LinearFit AlignFit C06Corr C01Corr.
Import ListNotations.
Open Scope Q_scope.

Record member05 := {
  m_gw : nat; m_a2r : Q; m_A0 : list Q; m_A1 : list Q; m_R : list Q;
  m_land : list Q; m_landtol : Q;
  m_map : list Q; m_maptol : Q;
  m_cross : list Q; m_crosstol : Q }.
Record case05 := { v_fit : case06; v_members : list member05 }.

Definition member_affine_ok (F : qaff) (m : member05) : bool :=
  match m_gw m with
  | O => true
  | _ =>
      match aff_of_list (m_A0 m), aff_of_list (m_A1 m), aff_of_list (m_R m) with
      | Some A0, Some A1, Some R =>
          let E := gw_update_ref (m_a2r m) A0 R F in
          let rel := two_m36 in
          negb (Qeq_bool (qdet R) 0) &&
          aff_close (rel * Qmax 1 (amax E))
                    (rel * (tmax E + amax E * tmax A0 + m_a2r m * (tmax F + (1 + amax E) * tmax R))) A1 E
      | _, _, _ => false
      end
  end.

Definition member_ok (F : qaff) (m : member05) : bool :=
  member_affine_ok F m &&
  forallb (fun d => Qleb d (m_landtol m)) (m_land m) &&
  forallb (fun d => Qleb d (m_maptol m)) (m_map m) &&
  forallb (fun d => Qleb d (m_crosstol m)) (m_cross m).

Definition agree05 (c : case05) : bool :=
  agree06 (v_fit c) &&
  match aff_of_list (c_m (v_fit c)) with
  | Some F => forallb (member_ok F) (v_members c) && negb (Nat.eqb (length (v_members c)) 0)
  | None => false
  end.

Definition show05 (c : case05) :=
  (agree06 (v_fit c), show06 (v_fit c),
   match aff_of_list (c_m (v_fit c)) with
   | Some F => map (fun m => (member_affine_ok F m,
                              forallb (fun d => Qleb d (m_landtol m)) (m_land m),
                              forallb (fun d => Qleb d (m_maptol m)) (m_map m),
                              forallb (fun d => Qleb d (m_crosstol m)) (m_cross m),
                              match aff_of_list (m_A0 m), aff_of_list (m_R m) with
                              | Some A0, Some R => Some (gw_update_ref (m_a2r m) A0 R F)
                              | _, _ => None
                              end)) (v_members c)
   | None => []
   end).
