(* correspondence predicate for C11: the set of (ref_idx, input_idx) pairs returned by XYXYMatch /
   WCSGroupCatalog.match2ref vs the specification matcher (with the offset of the C12 model when the 2-D histogram
   pre-alignment is on) *)
From Coq Require Import QArith Qabs ZArith List Bool Arith.
From TW Require Import CorrUtil GJModel Peak Hist Match C12Corr.
Import ListNotations.
Open Scope Q_scope.

Record case11 := {
  m_ref : list mpt; m_im : list mpt;            (* TPx, TPy of the reference / image catalog rows *)
  m_tol : Q;
  m_use2d : bool;
  m_off : mpt;          (* use2dhist = false: (xoffset, yoffset); use2dhist = true: the true shift (fallback) *)
  m_searchrad : Q; m_pscale : Q; m_r : Q;       (* m_r: binary64 quotient searchrad / pscale *)
  m_refidx : list nat; m_imidx : list nat       (* implementation's two index arrays *)
}.

Definition as_case12e (c : case11) : case12e :=
  {| e_img := m_im c; e_ref := m_ref c; e_searchrad := m_searchrad c; e_pscale := m_pscale c; e_r := m_r c;
     e_x := 0; e_y := 0 |}.

(* offset handed to the matcher according to the model *)
Definition model_offset (c : case11) : mpt :=
  if m_use2d c then
    match estimate_exec (m_im c) (m_ref c) (m_r c) (m_pscale c) with
    | Some e => if est_robust (as_case12e c) then e else m_off c
    | None => m_off c
    end
  else m_off c.

Definition pair_eqb (a b : nat * nat) : bool := Nat.eqb (fst a) (fst b) && Nat.eqb (snd a) (snd b).
Definition pmem (a : nat * nat) (l : list (nat * nat)) : bool := existsb (pair_eqb a) l.
Fixpoint nodupb (l : list nat) : bool :=
  match l with [] => true | x :: r => negb (existsb (Nat.eqb x) r) && nodupb r end.

Definition model_pairs (c : case11) : list (nat * nat) := true_pairs (m_ref c) (m_im c) (model_offset c) (m_tol c).

Definition agree11 (c : case11) : bool :=
  let impl := combine (m_refidx c) (m_imidx c) in
  let spec := model_pairs c in
  Nat.eqb (List.length (m_refidx c)) (List.length (m_imidx c)) &&
  (if m_use2d c then r_consistent (as_case12e c) else true) &&
  forallb (fun i => Nat.ltb i (List.length (m_ref c))) (m_refidx c) &&
  forallb (fun k => Nat.ltb k (List.length (m_im c))) (m_imidx c) &&
  nodupb (m_refidx c) && nodupb (m_imidx c) &&
  forallb (fun p => pmem p spec) impl && forallb (fun p => pmem p impl) spec.

Definition show11 (c : case11) := (model_offset c, model_pairs c).
