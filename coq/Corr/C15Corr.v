(* correspondence predicates for C15: imalign._max_overlap_pair, _max_overlap_image and the grouping order of
   align_wcs.  Footprints are axis-aligned rectangles with dyadic corners (duck-typed objects in the harness);
   the overlap areas are RE-COMPUTED here from the corners, in exact arithmetic.  Images are named by their
   position in the list handed to the implementation. *)
From Coq Require Import QArith List Bool Arith.
From TW Require Import CorrUtil OverlapModel.
Import ListNotations.
Open Scope Q_scope.

Record rect := { rx0 : Q; rx1 : Q; ry0 : Q; ry1 : Q }.
Definition rect0 : rect := {| rx0 := 0; rx1 := 0; ry0 := 0; ry1 := 0 |}.
Definition pos_part (a : Q) : Q := if Qle_bool a 0 then 0 else a.
Definition inter_area (r s : rect) : Q :=
  Qred (pos_part (Qmin (rx1 r) (rx1 s) - Qmax (rx0 r) (rx0 s)) *
        pos_part (Qmin (ry1 r) (ry1 s) - Qmax (ry0 r) (ry0 s))).

(* table of all pairwise areas, computed once per case *)
Definition area_table (rs : list rect) : list (list Q) := map (fun r => map (inter_area r) rs) rs.
Definition ov_of (t : list (list Q)) (i j : nat) : Q := nth j (nth i t []) 0.

Definition opt_nat_eqb (a b : option nat) : bool :=
  match a, b with Some x, Some y => Nat.eqb x y | None, None => true | _, _ => false end.
Definition opt_q_eqb (a b : option Q) : bool :=
  match a, b with Some x, Some y => Qeq_bool x y | None, None => true | _, _ => false end.
Definition mem (k : nat) (l : list nat) : bool := existsb (Nat.eqb k) l.
Fixpoint nodupb (l : list nat) : bool :=
  match l with [] => true | a :: t => negb (mem a t) && nodupb t end.

(* same members, same sequence of keys: equal up to the order among images of EQUAL overlap with the reference *)
Definition same_up_to_ties (key : nat -> Q) (a b : list nat) : bool :=
  Nat.eqb (length a) (length b) && forallb (fun k => mem k b) a && nodupb b &&
  list_eqb Qeq_bool (map key a) (map key b).

(* ---- _max_overlap_pair ---- *)
Record case15p := { c_rects : list rect; c_enforce : bool;
                    c_ref : option nat; c_sec : option nat; c_area : option Q; c_rest : list nat }.

Definition model15p (c : case15p) : pick :=
  let t := area_table (c_rects c) in
  max_overlap_pair (length (c_rects c)) (omat (ov_of t)) (c_enforce c).

Definition agree15p (c : case15p) : bool :=
  let t := area_table (c_rects c) in
  let n := length (c_rects c) in
  let p := max_overlap_pair n (omat (ov_of t)) (c_enforce c) in
  opt_nat_eqb (p_ref p) (c_ref c) && opt_nat_eqb (p_sec p) (c_sec c) && opt_q_eqb (p_area p) (c_area c) &&
  (if Nat.leb n 2 || c_enforce c then list_eqb Nat.eqb (p_rest p) (c_rest c)
   else match p_ref p with
        | Some r => same_up_to_ties (ov_of t r) (p_rest p) (c_rest c)
        | None => false
        end).
Definition show15p (c : case15p) := (model15p c, area_table (c_rects c)).

(* ---- _max_overlap_image ---- *)
Record case15i := { i_refr : rect; i_rects : list rect; i_enforce : bool;
                    i_idx : option nat; i_ar : option Q; i_rs : list nat }.
Definition model15i (c : case15i) : ipick :=
  max_overlap_image (i_enforce c) (map (inter_area (i_refr c)) (i_rects c)).
Definition agree15i (c : case15i) : bool :=
  let p := model15i c in
  opt_nat_eqb (i_img p) (i_idx c) && opt_q_eqb (i_area p) (i_ar c) && list_eqb Nat.eqb (i_rest p) (i_rs c).
Definition show15i (c : case15i) := (model15i c, map (inter_area (i_refr c)) (i_rects c)).

(* ---- grouping order of align_wcs under enforce_user_order ----
   g_order = members (input positions) of the reference group, then of every group in the order in which the
   implementation aligned them *)
Record case15g := { g_gids : list (option nat); g_order : list (list nat) }.
Definition agree15g (c : case15g) : bool := list_eqb (list_eqb Nat.eqb) (user_order (g_gids c)) (g_order c).
Definition show15g (c : case15g) := user_order (g_gids c).
