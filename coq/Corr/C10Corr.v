(* correspondence predicate for C10: reported rotation / scale / skew / statistics vs the fitted matrix,
   evaluated in exact rational arithmetic on the implementation's reported values *)
From Coq Require Import QArith Qabs List Bool Arith.
From TW Require Import CorrUtil GJModel LSQ LinearFit Clip FloorSqrt ClipModel.
Import ListNotations.
Open Scope Q_scope.

Record case10 := {
  d_geom : geom;
  d_m : list Q;        (* m00 m01 m10 m11 *)
  d_rot : list Q;      (* rotx roty <rot> proper_rot skew   (degrees) *)
  d_scale : list Q;    (* sx sy <scale> *)
  d_proper : bool;
  d_trig : list Q;     (* cos rotx, sin rotx, cos roty, sin roty, cos proper_rot, sin proper_rot (libm of the reported angles) *)
  d_xy : list (Q * Q); d_uv : list (Q * Q);   (* retained points, original coordinates *)
  d_wxy : option (list Q); d_wuv : option (list Q);   (* weights of the retained points *)
  d_cen : Q * Q; d_shift : Q * Q;             (* reported centre and shift *)
  d_res : list (Q * Q);                       (* reported residuals *)
  d_stats : list Q                            (* rmse mae std *)
}.

Definition t28 : Q := 1 # 268435456.
Definition t24 : Q := 1 # 16777216.
Definition t36 : Q := 1 # 68719476736.

Definition in_range (a : Q) : bool := Qleb (-180) a && Qleb a 180.

Definition decomp_ok (c : case10) : bool :=
  match d_m c, d_rot c, d_scale c, d_trig c with
  | [m00; m01; m10; m11], [rx; ry; rot; prot; skew], [sx; sy; s], [cx; snx; cy; sny; cp; snp] =>
      let det := m00 * m11 - m01 * m10 in
      let mx := Qmax 1 (Qmax (Qmax (Qabs m00) (Qabs m01)) (Qmax (Qabs m10) (Qabs m11))) in
      let tm := t28 * mx in
      match d_geom c with
      | GShift =>
          Qeq_bool rx 0 && Qeq_bool ry 0 && Qeq_bool rot 0 && Qeq_bool prot 0 && Qeq_bool skew 0 &&
          Qeq_bool sx 1 && Qeq_bool sy 1 && Qeq_bool s 1 &&
          Qeq_bool m00 1 && Qeq_bool m01 0 && Qeq_bool m10 0 && Qeq_bool m11 1 && d_proper c
      | g =>
          (* matrix = [[sx cos rx, sy sin ry], [-sx sin rx, sy cos ry]] *)
          qclose tm (sx * cx) m00 && qclose tm (- sx * snx) m10 &&
          qclose tm (sy * sny) m01 && qclose tm (sy * cy) m11 &&
          (* libm sanity *)
          qclose t28 (cx * cx + snx * snx) 1 && qclose t28 (cy * cy + sny * sny) 1 &&
          (* <scale> = sqrt |det| ; per-axis scales *)
          qclose (t24 * mx * mx) (s * s) (Qabs det) &&
          Qleb 0 sx && Qleb 0 sy && Qleb 0 s &&
          (match g with
           | GGeneral => qclose (t24 * mx * mx) (sx * sx) (m00 * m00 + m10 * m10) &&
                         qclose (t24 * mx * mx) (sy * sy) (m01 * m01 + m11 * m11)
           | _ => Qeq_bool sx s && Qeq_bool sy s
           end) &&
          (* proper exactly when det > 0 *)
          Bool.eqb (d_proper c) (Qltb 0 det) &&
          (* ranges *)
          in_range rx && in_range ry && in_range rot && in_range prot && Qleb (-180) skew && Qleb skew 180 &&
          (* skew = ry - rx wrapped by whole turns; <rot> = mean of rx, ry *)
          (let isrs := match g with GGeneral => false | _ => true end in
           if isrs && d_proper c
           then Qeq_bool rx prot && Qeq_bool ry prot && Qeq_bool rot prot && Qeq_bool skew 0
           else
             (qclose t24 skew (ry - rx) || qclose t24 skew (ry - rx - 360) || qclose t24 skew (ry - rx + 360)) &&
             qclose t24 rot ((rx + ry) / 2)) &&
          (* proper_rot: rotation of the matrix with the reflection undone:
             atan2(w01 - sdet*w10, w00 + sdet*w11) with w = matrix / scales *)
          (let sd := if Qltb det 0 then -1 else 1 in
           let yy := m01 / sy - sd * (m10 / sx) in
           let xx := m00 / sx + sd * (m11 / sy) in
           Qleb (Qabs (cp * yy - snp * xx)) (t24 * 4) && Qleb (- (t24 * 4)) (cp * xx + snp * yy))
      end
  | _, _, _, _ => false
  end.

(* residuals equal xy - (F (uv - c) + s + c) on the retained points *)
Fixpoint resid_ok (tol : Q) (m : list Q) (cen sh : Q * Q) (xy uv res : list (Q * Q)) : bool :=
  match m, xy, uv, res with
  | [m00; m01; m10; m11], (x, y) :: xy', (u, v) :: uv', (r0, r1) :: res' =>
      let u' := u - fst cen in let v' := v - snd cen in
      qclose tol r0 (x - (m00 * u' + m01 * v' + fst sh + fst cen)) &&
      qclose tol r1 (y - (m10 * u' + m11 * v' + snd sh + snd cen)) &&
      resid_ok tol m cen sh xy' uv' res'
  | _, [], [], [] => true
  | _, _, _, _ => false
  end.

Definition zero_fit : fitp := {| f00 := 0; f01 := 0; f10_ := 0; f11_ := 0; fs0 := 0; fs1 := 0 |}.

Definition stats_from_resids (c : case10) : bool :=
  let n := length (d_res c) in
  let wopt := comb (d_wxy c) (d_wuv c) in
  let w := match wopt with None => repeat 1 n | Some ws => ws end in
  let weighted := match wopt with None => false | Some _ => true end in
  let pts := map (fun r : Q * Q => {| qx := fst r; qy := snd r; qu := 0; qv := 0 |}) (d_res c) in
  let pw := combine pts w in
  let sc := fold_right (fun r acc => Qmax (Qmax (Qabs (fst r)) (Qabs (snd r))) acc) 0 (d_xy c) in
  let eps2 := Qred (t36 * Qmax 1 sc * (t36 * Qmax 1 sc)) in
  match d_stats c with
  | [rmse; mae; std] =>
      if Nat.eqb n 0 then true else
      let r := fst (stat2_encl SRmse weighted zero_fit pw) in
      let s := fst (stat2_encl SStd weighted zero_fit pw) in
      let a := stat2_encl SMae weighted zero_fit pw in
      qclose (t24 * r + eps2) (rmse * rmse) r &&
      qclose (t24 * s + eps2) (std * std) s &&
      Qleb (fst a * (1 - t24) - eps2) (mae * mae) && Qleb (mae * mae) (snd a * (1 + t24) + eps2)
  | _ => false
  end.

Definition agree10 (c : case10) : bool :=
  let sc := fold_right (fun r acc => Qmax (Qmax (Qabs (fst r)) (Qabs (snd r))) acc) 1 (d_xy c ++ d_uv c) in
  decomp_ok c &&
  resid_ok (t28 * sc * 4) (d_m c) (d_cen c) (d_shift c) (d_xy c) (d_uv c) (d_res c) &&
  stats_from_resids c.

Definition show10 (c : case10) := (decomp_ok c, stats_from_resids c).
