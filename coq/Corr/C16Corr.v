(* correspondence predicate for C16: tweakwcs.wcsimage.convex_hull(x, y, wcs=None, min_separation) *)
From Coq Require Import QArith Qabs List Bool Arith.
From TW Require Import CorrUtil HullModel HullFull HullLiteral.
Import ListNotations.
Open Scope Q_scope.

(* inputs + the IMPLEMENTATION's outputs: raised (ValueError) or the two returned vertex arrays *)
Record case16 := { h_xs : list Q; h_ys : list Q; h_sep : option Q;
                   h_raised : bool; h_vx : list Q; h_vy : list Q }.

Definition same_pts (a b : list pt) : bool :=
  list_eqb Qeq_bool (map fst a) (map fst b) && list_eqb Qeq_bool (map snd a) (map snd b).

(* exact comparison: equal lists of rationals (no tolerance: on dyadic input every float operation of
   convex_hull is exact). Both forms of the model are evaluated: the structural one the theorems are about
   (convex_hull_model) and the literal index-list transcription of the merging loop (convex_hull_literal);
   they must agree with each other and with the implementation. *)
Definition agree16 (c : case16) : bool :=
  match convex_hull_model (h_xs c) (h_ys c) (h_sep c), convex_hull_literal (h_xs c) (h_ys c) (h_sep c) with
  | None, None => h_raised c
  | Some h, Some hl =>
      negb (h_raised c) && same_pts h hl &&
      list_eqb Qeq_bool (map fst h) (h_vx c) && list_eqb Qeq_bool (map snd h) (h_vy c)
  | _, _ => false
  end.

Definition show16 (c : case16) :=
  (convex_hull_model (h_xs c) (h_ys c) (h_sep c), convex_hull_literal (h_xs c) (h_ys c) (h_sep c)).
