(* C08 - fits are equivariant under relabelling and changes of coordinates *)
From Coq Require Import QArith List Bool Arith Permutation.
From TW Require Import GJModel LSQ Rscale Shift Weights Clip ClipPerm Equivariance Unique EquivSim EquivScaleW Rscale2 EquivTranslate EquivSimGeneral.
Import ListNotations.
Open Scope Q_scope.

(* --- permuting the point pairs --- *)
Theorem C08_objective_perm : forall l l' a b c d e g, Permutation l l' ->
  ssr_tot l a b c d e g == ssr_tot l' a b c d e g.
Proof. exact ssr_tot_perm. Qed.
Theorem C08_general_fit_perm : forall l l' p q, Permutation l l' ->
  fit_general l' = FitOk p q -> (forall z, In z l -> 0 <= pw z) ->
  forall c', ssr l px p <= ssr l px c' /\ ssr l py q <= ssr l py c'.
Proof. exact general_fit_perm. Qed.
(* parameter level for the general family (uses uniqueness of the optimum for non-collinear data) *)
Theorem C08_general_fit_perm_params : forall l l' p q p' q' a b c,
  Permutation l l' -> (forall z, In z l -> 0 <= pw z) ->
  fit_general l = FitOk p q -> fit_general l' = FitOk p' q' ->
  In a l -> In b l -> In c l -> 0 < pw a -> 0 < pw b -> 0 < pw c -> noncollinear3 a b c ->
  (qnth p' 0 == qnth p 0 /\ qnth p' 1 == qnth p 1 /\ qnth p' 2 == qnth p 2) /\
  (qnth q' 0 == qnth q 0 /\ qnth q' 1 == qnth q 1 /\ qnth q' 2 == qnth q 2).
Proof. exact general_fit_perm_params. Qed.
Print Assumptions C08_general_fit_perm_params.
(* parameter level for the similarity family (uses uniqueness when the cross determinant does not vanish) *)
Theorem C08_rscale_fit_perm_params : forall l l', Permutation l l' -> 0 < sw l -> 0 < q2 l -> ~ detc l == 0 ->
  sflip (model l') = sflip (model l) /\ sa (model l') == sa (model l) /\ sb_ (model l') == sb_ (model l) /\
  s1 (model l') == s1 (model l) /\ s2 (model l') == s2 (model l).
Proof. exact rscale_fit_perm_params. Qed.
Print Assumptions C08_rscale_fit_perm_params.
Theorem C08_shift_fit_perm : forall l l', Permutation l l' ->
  fst (fit_shift l) == fst (fit_shift l') /\ snd (fit_shift l) == snd (fit_shift l').
Proof. exact shift_fit_perm. Qed.
Theorem C08_similarity_moments_perm : forall l l', Permutation l l' ->
  sw l == sw l' /\ su l == su l' /\ sv l == sv l' /\ sx l == sx l' /\ sy l == sy l' /\
  suu l == suu l' /\ svv l == svv l' /\ sxu l == sxu l' /\ sxv l == sxv l' /\ syu l == syu l' /\ syv l == syv l'.
Proof. exact rscale_moments_perm. Qed.
Print Assumptions C08_general_fit_perm.
Print Assumptions C08_shift_fit_perm.
Print Assumptions C08_similarity_moments_perm.

(* the clipping loop commutes with the relabelling: for every fit / cut-off test that are themselves
   relabelling-equivariant, fitmask is permuted, fit and eff_nclip are unchanged - every nclip, sigma, accum *)
Theorem C08_clipping_perm : forall n pi, Permutation pi (seq 0 n) ->
  forall fitres (fit fit' : mask -> fitres) (below below' : fitres -> nat -> bool) minobj,
  (forall m, length m = n -> fit' (perm_mask pi m) = fit m) ->
  (forall r k, (k < n)%nat -> below' r k = below r (nth k pi 0%nat)) ->
  forall wmask accum nclip, length wmask = n ->
  iter_fit n fitres fit' below' minobj (perm_mask pi wmask) accum nclip
  = pstate pi fitres (iter_fit n fitres fit below minobj wmask accum nclip).
Proof. exact iter_fit_perm. Qed.
Print Assumptions C08_clipping_perm.

(* --- multiplying all weights by k > 0: objective scales by k (same minimisers), rmse unchanged --- *)
Theorem C08_weight_scale_objective : forall k l a b c d e g,
  ssr_tot (map (scale_w k) l) a b c d e g == k * ssr_tot l a b c d e g.
Proof. exact ssr_tot_scale_w. Qed.
Theorem C08_weight_scale_shift : forall k l, 0 < k -> 0 < sumQ pw l ->
  fst (fit_shift (map (scale_w k) l)) == fst (fit_shift l) /\
  snd (fit_shift (map (scale_w k) l)) == snd (fit_shift l).
Proof. exact shift_fit_scale_w. Qed.
(* parameter level for the similarity family: same branch, matrix and shift after scaling all weights *)
Theorem C08_weight_scale_similarity_params : forall k l, 0 < k -> 0 < sw l -> 0 < q2 l -> ~ detc l == 0 ->
  let m' := model (map (scale_w k) l) in
  sflip m' = sflip (model l) /\ sa m' == sa (model l) /\ sb_ m' == sb_ (model l) /\
  s1 m' == s1 (model l) /\ s2 m' == s2 (model l).
Proof. exact rscale_fit_scale_w_params. Qed.
Print Assumptions C08_weight_scale_similarity_params.
Theorem C08_weight_scale_rmse : forall k l a b c d e g, 0 < k -> 0 < sw l ->
  ssr_tot (map (scale_w k) l) a b c d e g / sw (map (scale_w k) l) == ssr_tot l a b c d e g / sw l.
Proof. exact rmse2_scale_w. Qed.
Print Assumptions C08_weight_scale_objective.
Print Assumptions C08_weight_scale_rmse.

(* --- translation of both coordinate sets / choice of the rotation centre --- *)
Theorem C08_translation : forall t1 t2 l a b c d e g,
  ssr_tot (map (map_pts (fun z => (fst z + t1, snd z + t2))) l) a b c d
          (e + t1 - (a * t1 + b * t2)) (g + t2 - (c * t1 + d * t2))
  == ssr_tot l a b c d e g.
Proof. exact ssr_tot_translate. Qed.
Theorem C08_centre : forall cx cy l a b c d e g,
  ssr_tot (map (map_pts (fun z => (fst z - cx, snd z - cy))) l) a b c d e g
  == ssr_tot l a b c d (e + cx - (a * cx + b * cy)) (g + cy - (c * cx + d * cy)).
Proof. exact ssr_tot_centre. Qed.
Print Assumptions C08_translation.
Print Assumptions C08_centre.

(* parameter level for the general family: translating both coordinate sets by t (equivalently choosing another
   rotation centre, t = -c) leaves the matrix unchanged and moves the shift by t - F t, i.e. the effective map
   xy ~ F uv + s_eff is the same *)
Theorem C08_translation_general_params : forall t1 t2 l p q p' q' a b c,
  (forall z, In z l -> 0 <= pw z) ->
  fit_general l = FitOk p q -> fit_general (map (tr t1 t2) l) = FitOk p' q' ->
  In a l -> In b l -> In c l -> 0 < pw a -> 0 < pw b -> 0 < pw c -> noncollinear3 a b c ->
  (qnth p' 0 == qnth p 0 /\ qnth p' 1 == qnth p 1 /\
   qnth p' 2 == qnth p 2 + t1 - (qnth p 0 * t1 + qnth p 1 * t2)) /\
  (qnth q' 0 == qnth q 0 /\ qnth q' 1 == qnth q 1 /\
   qnth q' 2 == qnth q 2 + t2 - (qnth q 0 * t1 + qnth q 1 * t2)).
Proof. exact general_fit_translate_params. Qed.
Print Assumptions C08_translation_general_params.

(* --- rotation x uniform scale (and reflections) of both coordinate sets: the conjugated map has its
       objective scaled by k^2 (same minimisers up to conjugation) --- *)
Theorem C08_similarity : forall (refl : bool) m n l a b c d e g, ~ (m * m + n * n == 0) ->
  let k2 := m * m + n * n in
  let '(a', b', c', d') :=
     if refl return (Q * Q * Q * Q)%type
     then ((m * (a * m + b * n) + n * (c * m + d * n)) / k2, (m * (a * n - b * m) + n * (c * n - d * m)) / k2,
           (n * (a * m + b * n) - m * (c * m + d * n)) / k2, (n * (a * n - b * m) - m * (c * n - d * m)) / k2)
     else ((m * (a * m + b * n) + n * (c * m + d * n)) / k2, (m * (- a * n + b * m) + n * (- c * n + d * m)) / k2,
           (- n * (a * m + b * n) + m * (c * m + d * n)) / k2, (- n * (- a * n + b * m) + m * (- c * n + d * m)) / k2) in
  let e' := fst (simT refl m n (e, g)) in let g' := snd (simT refl m n (e, g)) in
  ssr_tot (map (map_pts (simT refl m n)) l) a' b' c' d' e' g' == k2 * ssr_tot l a b c d e g.
Proof. exact ssr_tot_similarity. Qed.
Print Assumptions C08_similarity.

(* parameter level for the general family: the fit of similarity-transformed data IS the conjugate T F T^-1 with
   shift T s (cj below spells out the six parameters) *)
Theorem C08_similarity_general_params : forall refl m n l p q p' q' a b c,
  ~ (m * m + n * n == 0) ->
  (forall z, In z l -> 0 <= pw z) ->
  fit_general l = FitOk p q -> fit_general (map (sim refl m n) l) = FitOk p' q' ->
  In a l -> In b l -> In c l -> 0 < pw a -> 0 < pw b -> 0 < pw c -> noncollinear3 a b c ->
  let '(a', b', c', d', e', g') :=
      cj refl m n (qnth p 0) (qnth p 1) (qnth q 0) (qnth q 1) (qnth p 2) (qnth q 2) in
  (qnth p' 0 == a' /\ qnth p' 1 == b' /\ qnth p' 2 == e') /\
  (qnth q' 0 == c' /\ qnth q' 1 == d' /\ qnth q' 2 == g').
Proof. exact general_fit_similarity_params. Qed.
Print Assumptions C08_similarity_general_params.

(* Uniqueness of the minimiser (Props/C06: C06_general_unique, C06_rscale_unique) turns the objective-level
   statements into equalities of the fitted parameters; this is carried out above for permutations (general and
   similarity families), positive weight scaling (similarity family), translations / centres and similarity
   transforms (general family). The remaining combinations are covered numerically by the correspondence
   (metamorphic pairs on the implementation + agreement of every run with the exact model). *)

(* non-vacuity *)
Example C08_perm_witness :
  perm_mask [2; 0; 1]%nat [true; false; true] = [true; true; false] /\ Permutation [2; 0; 1]%nat (seq 0 3).
Proof. split; [reflexivity|]. simpl. apply (Permutation_cons_app [0%nat; 1%nat] []). apply Permutation_refl. Qed.
