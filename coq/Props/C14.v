(* C14 - images aligned together agree on the sky; the reference catalog grows soundly.
   Statements only; proofs live in Proofs/Align{Groups,Loop,Thm,WorldP,Triangle}.v.  Models: Model/AlignModel.v
   (bookkeeping of the reference catalog as a list of blocks = who contributed how many rows, and its id column)
   and Model/AlignWorld.v (the scripted world of the harness: rows carry source identities).  Tied to
   tweakwcs.imalign.align_wcs / RefCatalog.expand_catalog by the per-run correspondence Corr/C14Corr.v. *)
From Coq Require Import List Bool Arith ZArith.
From TW Require Import AlignModel AlignWorld LegacyAlign AlignGroups AlignLoop AlignThm AlignWorldP AlignTriangle
     AlignExamples.
Import ListNotations.

(* loop invariant: whatever group is processed next, the ids and the blocks present before the step are an
   unchanged prefix, in order, afterwards *)
Theorem C14_step_keeps_prefix : forall o orc g s,
  firstn (length (ls_ids s)) (ls_ids (step o orc g s)) = ls_ids s /\
  firstn (length (ls_ref s)) (ls_ref (step o orc g s)) = ls_ref s.
Proof. exact step_keeps_prefix. Qed.
Print Assumptions C14_step_keeps_prefix.

(* returned catalog: the original ids (the caller's, or those of the reference image) are an unchanged prefix in
   order; the k appended ids are max+1 .. max+k (consecutive above the previous maximum, across all expansions),
   fresh; without expand_refcat nothing is appended *)
Theorem C14_ids_prefix_fresh_consecutive : forall ims o orc, r_exc (align ims o orc) = None ->
  exists k, firstn (length (ids0 ims o orc)) (r_ids (align ims o orc)) = ids0 ims o orc /\
            length (r_ids (align ims o orc)) = length (ids0 ims o orc) + k /\
            (forall j, j < k -> nth (length (ids0 ims o orc) + j) (r_ids (align ims o orc)) 0%Z =
                                (maxid (ids0 ims o orc) + 1 + Z.of_nat j)%Z) /\
            (NoDup (ids0 ims o orc) -> NoDup (r_ids (align ims o orc))) /\
            (o_expand o = false -> k = 0).
Proof. exact ids_prefix_fresh. Qed.
Print Assumptions C14_ids_prefix_fresh_consecutive.

(* a block of rows is appended only with expand_refcat, only from a group that ended SUCCESS or that FAILED (too few
   matches, or the fit raised) with zero overlap with the reference AS IT WAS THEN (`pre` = the blocks preceding it), and it holds exactly the rows the
   matcher left unmatched then *)
Theorem C14_appended_only_success_or_no_overlap : forall ims o orc, r_exc (align ims o orc) = None ->
  forall pre b post, r_ref (align ims o orc) = pre ++ b :: post -> pre <> [] ->
    exists g, c_from b = Some g /\ In g (groups ims) /\ o_expand o = true /\
      ((outcome orc g pre = Matched (c_rows b) /\ forall i, In i g -> st_of (align ims o orc) i = Success) \/
       (mres_ok (outcome orc g pre) = false /\ mres_unm (outcome orc g pre) = c_rows b /\
        area0 orc g pre = true /\
        forall i, In i g -> st_of (align ims o orc) i = Failed (fail_reason (outcome orc g pre)))).
Proof. exact appended_justified. Qed.
Print Assumptions C14_appended_only_success_or_no_overlap.

(* each group contributes at most one block (and the caller's catalog / the reference image exactly the first) *)
Theorem C14_each_group_once : forall ims o orc, r_exc (align ims o orc) = None ->
  NoDup (map c_from (r_ref (align ims o orc))).
Proof. exact each_group_once. Qed.
Print Assumptions C14_each_group_once.

Theorem C14_no_expand_never_extended : forall ims o orc, r_exc (align ims o orc) = None -> o_expand o = false ->
  r_ref (align ims o orc) = [origin ims o orc] /\ r_ids (align ims o orc) = ids0 ims o orc.
Proof. exact no_expand_never_extended. Qed.
Print Assumptions C14_no_expand_never_extended.

(* rows, in the scripted world: rows already present stay an unchanged prefix; an appended row belongs to the
   contributing group and its source was NOT in the reference then; if no group lists a source twice, no source
   occurs twice in the returned catalog *)
Theorem C14_rows_prefix : forall W rs rs', exists tl, sids_of W (rs ++ rs') = sids_of W rs ++ tl.
Proof. exact sids_prefix. Qed.
Print Assumptions C14_rows_prefix.
Theorem C14_appended_rows_unmatched : forall W rs g k s,
  In s (block_sids W (sids_of W rs) {| c_from := Some g; c_rows := k |}) ->
  In s (wrows W g) /\ ~ In s (sids_of W rs).
Proof. exact appended_rows_unmatched. Qed.
Print Assumptions C14_appended_rows_unmatched.
Theorem C14_each_source_once : forall W o, r_exc (run_world W o) = None -> wellformed W -> NoDup (final_sids W o).
Proof. exact each_source_once. Qed.
Print Assumptions C14_each_source_once.

(* FULL (not provable in this model; MEASURED by the second stream of harness/pC14.py with the real XYXYMatch):
     for every mosaic of 2..6 overlapping images with per-image WCS errors, after align_wcs any physical source
     seen in two aligned images (or in an aligned image and the reference) has the same sky position from both
     to within the noise-free tolerance.
   What is proved is the only exact ingredient: agreement of each image with the reference within e (property
   C01, measured) gives agreement of any two images within 2e, per coordinate. *)
Theorem C14_sky_agreement_partial : forall a b r e,     (* within x y e := |x - y| <= e  over Q; twice e := 2 e *)
  within a r e -> within b r e -> within a b (twice e).
Proof. exact agree_via_reference. Qed.
Print Assumptions C14_sky_agreement_partial.

(* ---------------- non-vacuity ---------------- *)
(* three images, caller's catalog with ids 7,3,9; image 0 succeeds (2 unmatched rows), image 1 fails inside the
   footprint (nothing appended), image 2 fails with zero overlap (its 4 rows are appended) *)
Example C14_growth_witness :
  let R := align ex14_ims (ok_opts (RefTable true [7; 3; 9]%Z) true true) ex14_orc in
  r_exc R = None /\ r_st R = [Success; Failed 1; Failed 1] /\
  r_ref R = [ {| c_from := None; c_rows := 3 |}; {| c_from := Some [0]; c_rows := 2 |};
              {| c_from := Some [2]; c_rows := 4 |} ] /\
  r_ids R = [7; 3; 9; 10; 11; 12; 13; 14; 15]%Z.
Proof. vm_compute. repeat split. Qed.
Example C14_no_expand_witness :
  let R := align ex14_ims (ok_opts (RefTable true [7; 3; 9]%Z) false true) ex14_orc in
  r_exc R = None /\ r_ref R = [ {| c_from := None; c_rows := 3 |} ] /\ r_ids R = [7; 3; 9]%Z.
Proof. vm_compute. repeat split. Qed.
(* scripted world: reference image 0 sees sources 1,2,3; image 1 sees 2,3,4,5 (2 matches >= minobj 2): 4,5 appended
   with ids 4,5; image 2 sees 5,6 (1 match < 2: FAILED, inside the field: nothing appended) *)
Example C14_world_witness :
  let R := run_world ex14_world (ok_opts RefNone true true) in
  r_exc R = None /\ r_st R = [Reference; Success; Failed 1] /\
  final_sids ex14_world (ok_opts RefNone true true) = [1; 2; 3; 4; 5]%Z /\ r_ids R = [1; 2; 3; 4; 5]%Z.
Proof. vm_compute. repeat split. Qed.

(* ---------------- the defect repaired by F5 (a8a1a5a), against the frozen pre-fix model ---------------- *)
(* user order, expand_refcat, caller's catalog, ONE image that fails to align although it overlaps the reference:
   the old code appended its 7 unmatched rows (area was None); the repaired model appends nothing *)
Theorem C14_refuted_before_fix_F5 : exists ims o orc pre g k post,
  r_exc (align_legacy true false false false ims o orc) = None /\
  r_ref (align_legacy true false false false ims o orc) = pre ++ {| c_from := Some g; c_rows := k |} :: post /\
  pre <> [] /\ outcome orc g pre = Fails k /\ area0 orc g pre = false /\
  r_ref (align ims o orc) = pre.
Proof.
  exists [ {| gid := None; nonempty := true |} ], (ok_opts (RefTable true [1; 2; 3]%Z) true true),
         {| pick_ref := fun _ => 0; pick := fun _ _ => 0; outcome := fun _ _ => Fails 7;
            area0 := fun _ _ => false; gids := fun _ => [] |},
         [ {| c_from := None; c_rows := 3 |} ], [0], 7, [].
  split; [vm_compute; reflexivity|]. split; [vm_compute; reflexivity|]. split; [discriminate|].
  split; [reflexivity|]. split; [reflexivity| vm_compute; reflexivity].
Qed.
Print Assumptions C14_refuted_before_fix_F5.
