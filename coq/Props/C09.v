(* C09 - zero-weight sources never influence a fit; weights reach the right sources *)
From Coq Require Import QArith List Bool Arith.
From TW Require Import GJModel LSQ Rscale Shift Weights LinearFit ZeroWeight ZeroWeightSim Unique.
Import ListNotations.
Open Scope Q_scope.

(* every objective function ignores zero-weight pairs, WHATEVER their coordinates are *)
Theorem C09_objective_general : forall l (t : pr -> Q) c, ssr l t c == ssr (filter nz l) t c.
Proof. exact ssr_general_ignores_zero_weight. Qed.
Theorem C09_objective_similarity : forall l t, ssr_sim l t == ssr_sim (filter nz l) t.
Proof. exact ssr_sim_ignores_zero_weight. Qed.
Theorem C09_objective_shift : forall l s, ssr_shift s l == ssr_shift s (filter nz l).
Proof. exact ssr_shift_ignores_zero_weight. Qed.
Print Assumptions C09_objective_general.
Print Assumptions C09_objective_similarity.
Print Assumptions C09_objective_shift.

(* the fit of the data without the zero-weight pairs is an optimum of the full problem *)
Theorem C09_general_fit_unaffected : forall l p q,
  fit_general (filter nz l) = FitOk p q -> (forall z, In z l -> 0 <= pw z) ->
  forall c', ssr l px p <= ssr l px c' /\ ssr l py q <= ssr l py c'.
Proof. exact general_fit_unaffected. Qed.
Print Assumptions C09_general_fit_unaffected.

(* ... and at parameter level (via uniqueness of the optimum): the fit of the data without the zero-weight pairs
   has the same matrix and shift as the fit of the full data, for the general and the similarity families *)
Theorem C09_general_fit_params_unaffected : forall l p q p' q' a b c,
  (forall z, In z l -> 0 <= pw z) ->
  fit_general l = FitOk p q -> fit_general (filter nz l) = FitOk p' q' ->
  In a l -> In b l -> In c l -> 0 < pw a -> 0 < pw b -> 0 < pw c -> noncollinear3 a b c ->
  (qnth p' 0 == qnth p 0 /\ qnth p' 1 == qnth p 1 /\ qnth p' 2 == qnth p 2) /\
  (qnth q' 0 == qnth q 0 /\ qnth q' 1 == qnth q 1 /\ qnth q' 2 == qnth q 2).
Proof. exact general_fit_zero_weight_params. Qed.
Print Assumptions C09_general_fit_params_unaffected.

Theorem C09_similarity_fit_params_unaffected : forall l, 0 < sw l -> 0 < q2 l -> ~ detc l == 0 ->
  let m' := model (filter nz l) in
  sflip m' = sflip (model l) /\ sa m' == sa (model l) /\ sb_ m' == sb_ (model l) /\
  s1 m' == s1 (model l) /\ s2 m' == s2 (model l).
Proof. exact rscale_fit_zero_weight_params. Qed.
Print Assumptions C09_similarity_fit_params_unaffected.

Theorem C09_shift_fit_unaffected : forall l,
  fst (fit_shift l) == fst (fit_shift (filter nz l)) /\ snd (fit_shift l) == snd (fit_shift (filter nz l)).
Proof. exact shift_fit_unaffected. Qed.
Print Assumptions C09_shift_fit_unaffected.

(* iter_linear_fit: the whole result is unchanged when coordinates of sources that are not positively
   weighted in both catalogs are replaced by anything *)
Theorem C09_iter_fit_ignores_masked : forall g p p' wxy wuv,
  length p = length p' ->
  (forall i d, nth i (wmask (length p) wxy wuv) false = true -> nth i p d = nth i p' d) ->
  fit_iter0 g p wxy wuv = fit_iter0 g p' wxy wuv.
Proof. exact iter_fit_ignores_masked. Qed.
Print Assumptions C09_iter_fit_ignores_masked.

(* ... and such sources are reported unused *)
Theorem C09_fitmask_false : forall n wxy wuv i,
  (exists ws, (wxy = Some ws \/ wuv = Some ws) /\ nth i ws 0 <= 0) ->
  nth i (wmask n wxy wuv) false = false.
Proof. exact fitmask_false_for_nonpositive_weight. Qed.
Print Assumptions C09_fitmask_false.

(* 1/w = 1/w_image + 1/w_reference for positive weights; 0 if either is not positive *)
Theorem C09_harmonic : forall a b, 0 < a -> 0 < b -> / comb1 a b == / a + / b.
Proof. exact comb1_harmonic. Qed.
Theorem C09_nonpositive_gives_zero : forall a b, a <= 0 \/ b <= 0 -> comb1 a b = 0.
Proof. exact comb1_nonpositive. Qed.
Print Assumptions C09_harmonic.
Print Assumptions C09_nonpositive_gives_zero.

(* weights of member catalogs are carried to the rows of the concatenated group catalog *)
Theorem C09_concat_index : forall (ls : list (list Q)) j i,
  (j < length ls)%nat -> (i < length (nth j ls []))%nat ->
  nth (offsets ls j + i) (concat ls) 0 = nth i (nth j ls []) 0.
Proof. exact concat_index. Qed.
Print Assumptions C09_concat_index.

(* non-vacuity: a corrupted zero-weight source, both through the mask and through the sums *)
Example C09_witness :
  let p  := [ {| qx := 1; qy := 2; qu := 0; qv := 0 |}; {| qx := 2; qy := 2; qu := 1; qv := 0 |};
              {| qx := 1; qy := 3; qu := 0; qv := 1 |}; {| qx := 7; qy := 7; qu := 3; qv := 3 |} ] in
  let p' := [ {| qx := 1; qy := 2; qu := 0; qv := 0 |}; {| qx := 2; qy := 2; qu := 1; qv := 0 |};
              {| qx := 1; qy := 3; qu := 0; qv := 1 |}; {| qx := 1099511627776; qy := -5; qu := 9; qv := 9 |} ] in
  fit_iter0 GGeneral p (Some [1; 1; 2; 0]) None = fit_iter0 GGeneral p' (Some [1; 1; 2; 0]) None /\
  fit_iter0 GGeneral p (Some [1; 1; 2; 0]) None = inl (OutAffine 1 0 0 1 1 2).
Proof. vm_compute. split; reflexivity. Qed.
