(* C20 - tangent-plane pixel scale equals the local scale of the detector-to-plane map.
   Statements only; proofs in Proofs/CorrFits.v, CorrGwcs.v; model Model/CorrModel.v (pscale_sq = pscale^2, shoelace).
   The square root itself is not taken in the model: all statements are about pscale^2 = area of the projected pixel. *)
From Coq Require Import QArith Qcanon List.
From Coq Require Qcabs.
From TW Require Import CorrModel LegacyCorr CorrAlgebra CorrGwcsState CorrGwcs CorrFits.
Import ListNotations.
Open Scope Qc_scope.

(* for an affine detector -> tangent-plane map p |-> J.p + b the shoelace area of the unit pixel centred at ANY (x, y)
   is |det J|, i.e. tanp_pixel_scale(x, y)^2 = |det Jacobian| *)
Theorem C20_area_of_affine_image_is_abs_det :
  forall (J : mat) (b : pt) (x y : Qc),
  pscale_sq (fun p : pt => padd (mapp J p) b) (fun c => c) x y = Qcabs.Qcabs (mdet J).
Proof. exact pscale_sq_affine. Qed.
Print Assumptions C20_area_of_affine_image_is_abs_det.

(* the scale follows corrections that rescale the plane: gWCS, every reachable state, any detector position, any
   (also non-affine) detector -> v2v3 map: pscale^2 is multiplied by |det M| *)
Theorem C20_gwcs_scale_follows_correction :
  forall (X : Type) (F Fi : nat -> X -> X) (T : X -> pt) (Ti : pt -> X) (k ki : Qc),
  k * ki = 1 ->
  forall (w : wcs) (info : ang) (h : list op) (st : gst) (M : mat) (s : pt) (st' : gst) (mk' : pt -> X) (x y : Qc),
  reach k w info h st -> gset k st M s = Some st' ->
  pscale_sq (g_d2t X F Fi T Ti ki tan_frame st') mk' x y
  = Qcabs.Qcabs (mdet M) * pscale_sq (g_d2t X F Fi T Ti ki tan_frame st) mk' x y.
Proof. exact gwcs_C20_follows. Qed.
Print Assumptions C20_gwcs_scale_follows_correction.

(* any four corner images: composing the plane with (M, s) multiplies the area by |det M| *)
Theorem C20_area_scales_by_abs_det :
  forall (M : mat) (s q0 q1 q2 q3 : pt),
  shoelace (padd (mapp M q0) s) (padd (mapp M q1) s) (padd (mapp M q2) s) (padd (mapp M q3) s)
  = Qcabs.Qcabs (mdet M) * shoelace q0 q1 q2 q3.
Proof. exact shoelace_scales. Qed.
Print Assumptions C20_area_scales_by_abs_det.

(* FITS: the tangent plane is the (distortion-corrected) pixel grid: corrections do not change the scale, and an
   undistorted WCS has scale exactly 1 pixel *)
Theorem C20_fits_scale_unchanged_by_correction :
  forall (proj proji : pt -> pt -> pt) (dist : pt -> pt) (w : fwcs) (M : mat) (s : pt) (ref : option plane) (x y : Qc),
  pscale_sq (f_d2t dist (fset proj proji w M s ref)) (fun c => c) x y = pscale_sq (f_d2t dist w) (fun c => c) x y.
Proof. exact fits_C20_unchanged. Qed.
Print Assumptions C20_fits_scale_unchanged_by_correction.
Theorem C20_fits_undistorted_scale_is_one :
  forall (w : fwcs) (x y : Qc), pscale_sq (f_d2t (fun p => p) w) (fun c => c) x y = 1.
Proof. exact fits_C20_undistorted. Qed.
Print Assumptions C20_fits_undistorted_scale_is_one.

(* FULL (measured by harness/pC20.py): for a non-affine detector -> plane map (SIP, gnomonic projection of the mock
   pipeline) tanp_pixel_scale(x,y) = sqrt |det Jacobian(x,y)| up to the third derivatives of the map over one pixel
   (<= 1e-6 relative for FITS with SIP, <= 1e-8 for the mock gWCS); the square root; the declared units. *)
Theorem C20_partial :
  forall (J : mat) (b : pt) (x y : Qc),
  pscale_sq (fun p : pt => padd (mapp J p) b) (fun c => c) x y = Qcabs.Qcabs (mdet J).
Proof. exact pscale_sq_affine. Qed.
Print Assumptions C20_partial.

(* non-vacuity: a sheared, scaled, reflected map *)
Example C20_witness :
  pscale_sq (fun p : pt => padd (mapp {| m11 := c2; m12 := 1; m21 := 1; m22 := - c2 |} p) (c10, 1)) (fun c => c) c100 (half)
  = c4 + 1.
Proof. apply Qc_is_canon. vm_compute. reflexivity. Qed.
