(* C11 - matching: theorems about the SPECIFICATION matcher (the set of pairs within the tolerance after removing the
   offset). The matcher itself (stsci.stimage.xyxymatch, C code) is outside the proof; XYXYMatch / match2ref are tied
   to this specification by the per-run correspondence (Corr/C11Corr.v). *)
From Coq Require Import QArith Qabs List Bool Arith Lia.
From TW Require Import Match MatchProof.
Import ListNotations.
Open Scope Q_scope.

(* membership: exactly the in-range pairs whose residual is within the tolerance *)
Theorem C11_spec_matcher_characterisation_partial :
  forall ref im off tol i k,
  In (i, k) (true_pairs ref im off tol) <->
  (i < length ref)%nat /\ (k < length im)%nat /\ resid2 off (rnth ref i) (rnth im k) <= tol * tol.
Proof. exact true_pairs_spec. Qed.
Print Assumptions C11_spec_matcher_characterisation_partial.

(* under unambiguity (true pairs within tol, every other pair beyond tol) the result is exactly the ground truth:
   no false pair, no missing pair *)
Theorem C11_exactly_the_true_pairs_partial :
  forall ref im off tol truth, unambiguous ref im off tol truth ->
  forall i k, In (i, k) (true_pairs ref im off tol) <-> In (i, k) truth.
Proof. exact spec_equals_truth. Qed.
Print Assumptions C11_exactly_the_true_pairs_partial.

(* it is a partial bijection, all indices in range, no pair / reference index / image index repeated *)
Theorem C11_partial_bijection_partial :
  forall ref im off tol truth, unambiguous ref im off tol truth -> partial_bijection truth ->
  partial_bijection (true_pairs ref im off tol).
Proof. exact spec_partial_bijection. Qed.
Print Assumptions C11_partial_bijection_partial.

Theorem C11_indices_in_range_partial :
  forall ref im off tol i k, In (i, k) (true_pairs ref im off tol) -> (i < length ref)%nat /\ (k < length im)%nat.
Proof. exact spec_in_range. Qed.
Print Assumptions C11_indices_in_range_partial.

Theorem C11_no_repeats_partial :
  forall ref im off tol, partial_bijection (true_pairs ref im off tol) ->
  NoDup (map fst (true_pairs ref im off tol)) /\ NoDup (map snd (true_pairs ref im off tol)).
Proof. exact spec_no_repeats. Qed.
Print Assumptions C11_no_repeats_partial.

Theorem C11_pairs_listed_once_partial : forall ref im off tol, NoDup (true_pairs ref im off tol).
Proof. exact true_pairs_NoDup. Qed.
Print Assumptions C11_pairs_listed_once_partial.

(* row order: rows (a, b) of re-ordered catalogs are matched iff the rows (s a, t b) they came from are *)
Theorem C11_row_order_independent_partial :
  forall ref im off tol s t a b,
  (forall x, In x s -> (x < length ref)%nat) -> (forall x, In x t -> (x < length im)%nat) ->
  (a < length s)%nat -> (b < length t)%nat ->
  (In (a, b) (true_pairs (reorder ref s) (reorder im t) off tol) <->
   In (nth a s 0%nat, nth b t 0%nat) (true_pairs ref im off tol)).
Proof. exact true_pairs_row_order_independent. Qed.
Print Assumptions C11_row_order_independent_partial.

(* with C12: an offset estimate within half a bin of the true shift keeps every true pair within tol >= pscale and
   every pair separated by more than tol + pscale/2 (on some axis) beyond it: unambiguity is preserved
   (this is what defect F3 broke: its estimate is up to a full bin off) *)
Theorem C11_unambiguous_after_histogram_alignment_partial :
  forall ref im sx sy ex ey pscale tol truth,
  Qabs (ex - sx) <= pscale * (1#2) -> Qabs (ey - sy) <= pscale * (1#2) -> 0 <= pscale -> pscale <= tol ->
  (forall i k, In (i, k) truth -> (i < length ref)%nat /\ (k < length im)%nat /\
       fst (rnth im k) == fst (rnth ref i) + sx /\ snd (rnth im k) == snd (rnth ref i) + sy) ->
  (forall i k, (i < length ref)%nat -> (k < length im)%nat -> ~ In (i, k) truth ->
       tol + pscale * (1#2) < Qabs (fst (rnth im k) - sx - fst (rnth ref i)) \/
       tol + pscale * (1#2) < Qabs (snd (rnth im k) - sy - snd (rnth ref i))) ->
  unambiguous ref im (ex, ey) tol truth.
Proof. exact unambiguous_after_histogram. Qed.
Print Assumptions C11_unambiguous_after_histogram_alignment_partial.

(* FULL (not proved: the matcher is external C code): for every pair of catalogs that is unambiguous w.r.t. the offset
   used, XYXYMatch(refcat, imcat) returns index arrays (r, m) of equal length such that
   { (r[t], m[t]) } = truth, with no repeats, for any pscale, with or without use2dhist, invariant under row
   permutations. The theorems above prove this for the specification matcher `true_pairs`; XYXYMatch and
   WCSGroupCatalog.match2ref are tied to `true_pairs` by correspondence on every run. *)

(* ---- non-vacuity ---- *)
Example C11_witness :
  let ref := [(0, 0); (10, 0); (0, 10); (30, 30)] in
  let im := [(21#2, 1#2); (1#2, 21#2); (1#2, 1#2); (50, 50); (70, 5)] in
  let truth := [(0, 2); (1, 0); (2, 1)]%nat in
  true_pairs ref im (1#4, 3#4) 1 = truth /\ unambiguous ref im (1#4, 3#4) 1 truth /\ partial_bijection truth.
Proof.
  cbv zeta. split; [vm_compute; reflexivity|]. split; [split|split].
  - intros i k [[= <- <-]|[[= <- <-]|[[= <- <-]|[]]]]; vm_compute; repeat split; try lia; discriminate.
  - intros i k Hi Hk Hn.
    do 4 (destruct i as [|i]; [do 5 (destruct k as [|k]; [try (vm_compute; reflexivity); exfalso; apply Hn; simpl; tauto|]); simpl in Hk; lia|]).
    simpl in Hi; lia.
  - intros i k k' [[= <- <-]|[[= <- <-]|[[= <- <-]|[]]]] [[= <-]|[[= <-]|[[= <-]|[]]]]; congruence.
  - intros i i' k [[= <- <-]|[[= <- <-]|[[= <- <-]|[]]]] [[= <- ]|[[= <- ]|[[= <- ]|[]]]]; congruence.
Qed.

(* re-ordering the rows re-labels the same set of matches *)
Example C11_reorder_witness :
  let ref := [(0, 0); (10, 0); (0, 10); (30, 30)] in
  let im := [(21#2, 1#2); (1#2, 21#2); (1#2, 1#2); (50, 50); (70, 5)] in
  true_pairs (reorder ref [3; 1; 0; 2]%nat) (reorder im [4; 2; 0; 1; 3]%nat) (1#4, 3#4) 1 = [(1, 2); (2, 1); (3, 3)]%nat.
Proof. vm_compute. reflexivity. Qed.
