(* C10 - reported rotation, scale, skew agree with the fitted matrix (theorems over R: they depend on the
   standard library's real-number axioms, listed by Print Assumptions below) *)
From Coq Require Import Reals.
From TW Require Import Atan2 Decomp Atan2Inv DecompSim.
Open Scope R_scope.

(* matrix = [[sx cos rx, sy sin ry], [-sx sin rx, sy cos ry]] for the reported rot and scale
   (build_fit_matrix applied to the decomposition returns the matrix), for every matrix with non-zero columns *)
Theorem C10_build_fit_matrix_inverts_decomposition : forall p0 p1 q0 q1,
  (p0 <> 0 \/ q0 <> 0) -> (p1 <> 0 \/ q1 <> 0) ->
  gsx p0 q0 * cos (grotx p0 q0) = p0 /\ - gsx p0 q0 * sin (grotx p0 q0) = q0 /\
  gsy p1 q1 * sin (groty p1 q1) = p1 /\ gsy p1 q1 * cos (groty p1 q1) = q1.
Proof. exact build_matrix_identity. Qed.
Print Assumptions C10_build_fit_matrix_inverts_decomposition.

(* all angles within [-180, 180] degrees *)
Theorem C10_angles_in_range : forall p0 p1 q0 q1,
  -180 <= deg (grotx p0 q0) <= 180 /\ -180 <= deg (groty p1 q1) <= 180 /\
  -180 <= (deg (grotx p0 q0) + deg (groty p1 q1)) / 2 <= 180.
Proof. exact angles_in_range. Qed.
Print Assumptions C10_angles_in_range.

(* skew = ry - rx wrapped to [-180, 180) by a whole number of turns *)
Theorem C10_skew : forall rotx roty,
  -180 <= skew rotx roty < 180 /\ exists k : Z, skew rotx roty = roty - rotx - 360 * IZR (1 + k).
Proof. exact skew_spec. Qed.
Print Assumptions C10_skew.

(* <scale> = sqrt |det| *)
Theorem C10_mean_scale : forall p0 p1 q0 q1,
  mean_scale p0 p1 q0 q1 * mean_scale p0 p1 q0 q1 = Rabs (det2 p0 p1 q0 q1).
Proof. exact mean_scale_sq. Qed.
Print Assumptions C10_mean_scale.

(* for similarity matrices (rshift / rscale fits, proper or improper) sx = sy = <scale> *)
Theorem C10_similarity_scales : forall a b, (a <> 0 \/ b <> 0) ->
  mean_scale a b (- b) a = hyp a (- b) /\ mean_scale a b b (- a) = hyp a b.
Proof. exact similarity_scales. Qed.
Print Assumptions C10_similarity_scales.

(* build_fit_matrix is also the LEFT inverse of the decomposition: decomposing the matrix built from
   (rx, ry, sx, sy) with positive scales and angles in (-180, 180] degrees returns exactly these values *)
Theorem C10_decomposition_inverts_build_fit_matrix : forall rx ry sx sy,
  0 < sx -> 0 < sy -> - PI < rx <= PI -> - PI < ry <= PI ->
  let p0 := sx * cos rx in let q0 := - sx * sin rx in
  let p1 := sy * sin ry in let q1 := sy * cos ry in
  gsx p0 q0 = sx /\ gsy p1 q1 = sy /\ grotx p0 q0 = rx /\ groty p1 q1 = ry.
Proof. exact decomposition_of_built_matrix. Qed.
Print Assumptions C10_decomposition_inverts_build_fit_matrix.

(* similarity fits (rshift / rscale), proper: the "proper rotation" shortcut of _build_fit
   (atan2 (w01 - sdet w10) (w00 + sdet w11), sdet = 1) equals both rotx and roty of the general decomposition *)
Theorem C10_proper_similarity_rotation : forall a b s, 0 < s ->
  let w00 := a / s in let w01 := b / s in let w10 := - b / s in let w11 := a / s in
  atan2 (w01 - 1 * w10) (w00 + 1 * w11) = atan2 (- w10) w00 /\
  atan2 (w01 - 1 * w10) (w00 + 1 * w11) = atan2 w01 w11.
Proof. exact proper_similarity_rotation. Qed.
Print Assumptions C10_proper_similarity_rotation.

(* similarity fits, reflected ([[a, b], [b, -a]]): rx and ry are half a turn apart and the reported skew is -180
   (the end of [-180, 180] produced by numpy's floor-mod; +180 is the same angle) *)
Theorem C10_improper_similarity_skew : forall a b s, 0 < s -> (a <> 0 \/ b <> 0) ->
  let w00 := a / s in let w01 := b / s in let w10 := b / s in let w11 := - a / s in
  skew (deg (atan2 (- w10) w00)) (deg (atan2 w01 w11)) = -180.
Proof. exact improper_similarity_skew. Qed.
Print Assumptions C10_improper_similarity_skew.

(* ---- statistics (over Q; ClipModel.stat2_encl is the executable model of _compute_stat that the C07/C10
        correspondence evaluates against the implementation's reported rmse / mae / std) ---- *)
From Coq Require Import QArith List.
From TW Require Import LinearFit ClipModel Stats.
Import ListNotations.
Close Scope R_scope.
Open Scope Q_scope.

(* rmse^2 = sum w |r|^2 / sum w *)
Theorem C10_rmse2 : forall f pw weighted,
  fst (stat2_encl SRmse weighted f pw) == psum (fun a => snd a * r2 f (fst a)) pw / psum snd pw /\
  snd (stat2_encl SRmse weighted f pw) == psum (fun a => snd a * r2 f (fst a)) pw / psum snd pw.
Proof. exact rmse2_value. Qed.
Print Assumptions C10_rmse2.

(* std^2 = (rmse^2 - |weighted mean residual|^2) / (1 - sum w^2 / W^2) with reliability weights ... *)
Theorem C10_std2_weighted : forall f pw, ~ psum snd pw == 0 -> (2 <= length pw)%nat ->
  let W := psum snd pw in
  let mx := psum (fun a => snd a * rx f (fst a)) pw / W in
  let my := psum (fun a => snd a * ry f (fst a)) pw / W in
  fst (stat2_encl SStd true f pw) ==
  (psum (fun a => snd a * r2 f (fst a)) pw / W - (mx * mx + my * my)) / (1 - psum (fun a => snd a * snd a) pw / (W * W)).
Proof. exact std2_weighted. Qed.
Print Assumptions C10_std2_weighted.

(* ... a denominator that is positive whenever the formula is used (two or more positively weighted points):
   the totalised division of the model hides no division by zero *)
Theorem C10_std2_denominator_positive : forall pw : list (pt4 * Q),
  (forall a, In a pw -> 0 < snd a) -> (2 <= length pw)%nat ->
  0 < 1 - psum (fun a => snd a * snd a) pw / (psum snd pw * psum snd pw).
Proof. exact std2_weighted_denominator. Qed.
Print Assumptions C10_std2_denominator_positive.

(* ... and the population form without weights *)
Theorem C10_std2_unweighted : forall f pw, ~ psum snd pw == 0 ->
  let W := psum snd pw in
  let mx := psum (fun a => snd a * rx f (fst a)) pw / W in
  let my := psum (fun a => snd a * ry f (fst a)) pw / W in
  fst (stat2_encl SStd false f pw) == psum (fun a => snd a * r2 f (fst a)) pw / W - (mx * mx + my * my).
Proof. exact std2_unweighted. Qed.
Print Assumptions C10_std2_unweighted.

(* mae: the rational enclosure used by the correspondence is ordered, and mae <= rmse (lower end; Cauchy-Schwarz) *)
Theorem C10_mae_enclosure_ordered : forall weighted f pw, (forall a, In a pw -> 0 <= snd a) ->
  fst (stat2_encl SMae weighted f pw) <= snd (stat2_encl SMae weighted f pw).
Proof. exact mae_enclosure_ordered. Qed.
Print Assumptions C10_mae_enclosure_ordered.
Theorem C10_mae_at_most_rmse : forall weighted f pw, (forall a, In a pw -> 0 <= snd a) -> 0 < psum snd pw ->
  fst (stat2_encl SMae weighted f pw) <= fst (stat2_encl SRmse weighted f pw).
Proof. exact mae_lower_end_at_most_rmse. Qed.
Print Assumptions C10_mae_at_most_rmse.

(* constant weights are not "no weights" for std: with all weights equal to c > 0 the weighted (reliability-weights)
   estimator is n / (n - 1) times the unweighted population estimator of the same residuals, while rmse is the same *)
Theorem C10_std2_constant_weights : forall c f pw, 0 < c -> (2 <= length pw)%nat ->
  (forall a, In a pw -> snd a == c) ->
  fst (stat2_encl SStd true f pw) == qlen pw / (qlen pw - 1) * fst (stat2_encl SStd false f (unit_w pw)).
Proof. exact std2_constant_weights. Qed.
Print Assumptions C10_std2_constant_weights.
Theorem C10_rmse2_constant_weights : forall c f pw weighted, 0 < c -> (1 <= length pw)%nat ->
  (forall a, In a pw -> snd a == c) ->
  fst (stat2_encl SRmse weighted f pw) == fst (stat2_encl SRmse false f (unit_w pw)).
Proof. exact rmse2_constant_weights. Qed.
Print Assumptions C10_rmse2_constant_weights.

(* non-vacuity: residuals (3,4) and (0,0) with weights 1, 1: rmse^2 = 25/2, mae in [5/2, 5/2], weighted std^2 = 25/2 *)
Example C10_stats_witness :
  let f := {| f00 := 1; f01 := 0; f10_ := 0; f11_ := 1; fs0 := 0; fs1 := 0 |} in
  let pw := [({| qx := 3; qy := 4; qu := 0; qv := 0 |}, 1); ({| qx := 1; qy := 1; qu := 1; qv := 1 |}, 1)] in
  stat2_encl SRmse true f pw = (25 # 2, 25 # 2) /\ stat2_encl SMae true f pw = (25 # 4, 25 # 4) /\
  stat2_encl SStd true f pw = (25 # 2, 25 # 2).
Proof. vm_compute. repeat split. Qed.
