(* C10 - reported rotation, scale, skew agree with the fitted matrix (theorems over R: they depend on the
   standard library's real-number axioms, listed by Print Assumptions below) *)
From Coq Require Import Reals.
From TW Require Import Atan2 Decomp Atan2Inv.
Open Scope R_scope.

(* matrix = [[sx cos rx, sy sin ry], [-sx sin rx, sy cos ry]] for the reported rot and scale
   (build_fit_matrix applied to the decomposition returns the matrix), for every matrix with non-zero columns *)
Theorem C10_build_fit_matrix_inverts_decomposition : forall p0 p1 q0 q1,
  (p0 <> 0 \/ q0 <> 0) -> (p1 <> 0 \/ q1 <> 0) ->
  gsx p0 q0 * cos (grotx p0 q0) = p0 /\ - gsx p0 q0 * sin (grotx p0 q0) = q0 /\
  gsy p1 q1 * sin (groty p1 q1) = p1 /\ gsy p1 q1 * cos (groty p1 q1) = q1.
Proof. exact build_matrix_identity. Qed.
Print Assumptions C10_build_fit_matrix_inverts_decomposition.

(* all angles within [-180, 180] degrees *)
Theorem C10_angles_in_range : forall p0 p1 q0 q1,
  -180 <= deg (grotx p0 q0) <= 180 /\ -180 <= deg (groty p1 q1) <= 180 /\
  -180 <= (deg (grotx p0 q0) + deg (groty p1 q1)) / 2 <= 180.
Proof. exact angles_in_range. Qed.
Print Assumptions C10_angles_in_range.

(* skew = ry - rx wrapped to [-180, 180) by a whole number of turns *)
Theorem C10_skew : forall rotx roty,
  -180 <= skew rotx roty < 180 /\ exists k : Z, skew rotx roty = roty - rotx - 360 * IZR (1 + k).
Proof. exact skew_spec. Qed.
Print Assumptions C10_skew.

(* <scale> = sqrt |det| *)
Theorem C10_mean_scale : forall p0 p1 q0 q1,
  mean_scale p0 p1 q0 q1 * mean_scale p0 p1 q0 q1 = Rabs (det2 p0 p1 q0 q1).
Proof. exact mean_scale_sq. Qed.
Print Assumptions C10_mean_scale.

(* for similarity matrices (rshift / rscale fits, proper or improper) sx = sy = <scale> *)
Theorem C10_similarity_scales : forall a b, (a <> 0 \/ b <> 0) ->
  mean_scale a b (- b) a = hyp a (- b) /\ mean_scale a b b (- a) = hyp a b.
Proof. exact similarity_scales. Qed.
Print Assumptions C10_similarity_scales.

(* build_fit_matrix is also the LEFT inverse of the decomposition: decomposing the matrix built from
   (rx, ry, sx, sy) with positive scales and angles in (-180, 180] degrees returns exactly these values *)
Theorem C10_decomposition_inverts_build_fit_matrix : forall rx ry sx sy,
  0 < sx -> 0 < sy -> - PI < rx <= PI -> - PI < ry <= PI ->
  let p0 := sx * cos rx in let q0 := - sx * sin rx in
  let p1 := sy * sin ry in let q1 := sy * cos ry in
  gsx p0 q0 = sx /\ gsy p1 q1 = sy /\ grotx p0 q0 = rx /\ groty p1 q1 = ry.
Proof. exact decomposition_of_built_matrix. Qed.
Print Assumptions C10_decomposition_inverts_build_fit_matrix.
