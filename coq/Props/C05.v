(* C05 - the sky positions produced by an alignment do not depend on the tangent plane the fit was carried out
   in, and all members of a group receive one and the same sky-level correction.
   Abstract corrector model: external transforms are Section variables with inverse-pair hypotheses; the
   plane-to-plane maps are assumed affine (exact when the planes share the tangent point; otherwise the
   deviation is the first-order reprojection term, which is measured - see the FULL comments). *)
From Coq Require Import QArith Qcanon List Bool.
From TW Require Import LSQ Rscale Rscale2 Shift LinearFit AlignFit AlignFitQ Corrector AlignFitProofs LegacyAlignFit.
Import ListNotations.

(* ---------- rational level: what set_correction(ref_tpwcs) and _tp2tp compute ---------- *)
(* matrix' = r.M.r^-1, shift' = r.s - M'.t + t  IS  the conjugate R o G o R^-1 *)
Theorem C05_conjugation_formula : forall (R G : qaff) (v : Q * Q), ~ (qdet R == 0)%Q ->
  peq (qapp (qconj R G) v) (qapp R (qapp G (qapp (qinv R) v))).
Proof. exact qconj_spec. Qed.
Print Assumptions C05_conjugation_formula.

(* _tp2tp recovers an affine plane-to-plane map exactly from its four probe points, for any probe scale *)
Theorem C05_tp2tp_exact : forall (R : qaff) (s : Q) (P0 P1 P2 P3 : Q * Q), ~ (s == 0)%Q ->
  peq P0 (qapp R (probe s 0)) -> peq P1 (qapp R (probe s 1)) -> peq P2 (qapp R (probe s 2)) ->
  peq P3 (qapp R (probe s 3)) ->
  let X := tp2tp P0 P1 P2 P3 s in
  (g00 X == g00 R /\ g01 X == g01 R /\ g10 X == g10 R /\ g11 X == g11 R /\ h0 X == h0 R /\ h1 X == h1 R)%Q.
Proof. exact tp2tp_affine. Qed.
Print Assumptions C05_tp2tp_exact.

Open Scope Qc_scope.

(* ---------- a group of gWCS members corrected through one reference plane ---------- *)
Section Group.
Variable Sky : Type.
Variable Bw2t : Sky -> pt.    (* ref_tpwcs.world_to_tanp *)
Variable Bt2w : pt -> Sky.    (* ref_tpwcs.tanp_to_world *)
Hypothesis B_wt : forall t, Bw2t (Bt2w t) = t.
Hypothesis B_tw : forall w, Bt2w (Bw2t w) = w.
Variables I Det V : Type.     (* I: the members of the group (any number) *)
Variable D : I -> Det -> V.
Variable T : I -> V -> pt.    (* own tangent planes: distinct tangent points / orientations / scales *)
Variable Ti : I -> pt -> V.
Variable S : I -> V -> Sky.
Variable Si : I -> Sky -> V.
Hypothesis Ti_T : forall i v, Ti i (T i v) = v.
Hypothesis S_Si : forall i w, S i (Si i w) = w.
Variable R : I -> aff.        (* _tp2tp(ref_tpwcs, member i) *)
Hypothesis HR : forall i t, T i (Si i (Bt2w t)) = app (R i) t.
Hypothesis detR : forall i, det (R i) <> 0.

(* every member, in every state (any earlier corrections A i), every pixel: the correction seen in the reference
   plane is the fitted map F itself *)
Theorem C05_member_correction_in_ref_plane : forall (A : I -> aff) (F : aff) (i : I) (p : Det),
  Bw2t (gd2w Sky I Det V D T Ti S (apply_affine I R A F) i p) = app F (Bw2t (gd2w Sky I Det V D T Ti S A i p)).
Proof. exact (group_C02 Sky Bw2t Bt2w B_wt I Det V D T Ti S Si Ti_T S_Si R HR detR). Qed.

(* all members receive ONE sky-level map: skymap F mentions the reference plane and F only (rigid group motion) *)
Theorem C05_one_skymap_for_all_members : forall (A : I -> aff) (F : aff) (i : I) (p : Det),
  gd2w Sky I Det V D T Ti S (apply_affine I R A F) i p
  = skymap Sky Bw2t Bt2w F (gd2w Sky I Det V D T Ti S A i p).
Proof. exact (group_same_skymap Sky Bw2t Bt2w B_wt B_tw I Det V D T Ti S Si Ti_T S_Si R HR detR). Qed.

(* the sources of every member land on the reference when the group's true error is a single affine map *)
Theorem C05_all_members_land : forall (g : geom) (A : I -> aff) (cat : list (src Sky I Det)) (G : aff) (F : qaff),
  error_is Sky Bw2t I Det V D T Ti S A cat G -> in_family g G ->
  fit_aff g (pairs Sky Bw2t I Det V D T Ti S A cat) = Some F ->
  (forall s, In s cat -> (0 < s_w Sky I Det s)%Q ->
     gd2w Sky I Det V D T Ti S (apply_affine I R A (c_of_q F)) (s_mem Sky I Det s) (s_pix Sky I Det s)
       = s_ref Sky I Det s /\
     Bw2t (gd2w Sky I Det V D T Ti S (apply_affine I R A (c_of_q F)) (s_mem Sky I Det s) (s_pix Sky I Det s))
       = Bw2t (s_ref Sky I Det s)) /\
  (ssr_q (pairs Sky Bw2t I Det V D T Ti S A cat) F == 0)%Q.
Proof. exact (C01_group_exact Sky Bw2t Bt2w B_wt B_tw I Det V D T Ti S Si Ti_T S_Si R HR detR). Qed.
End Group.
Print Assumptions C05_member_correction_in_ref_plane.
Print Assumptions C05_one_skymap_for_all_members.
Print Assumptions C05_all_members_land.

(* ---------- two reference planes ---------- *)
(* FULL (measured by harness/pC05.py, not provable in this model): for gnomonic planes whose tangent points are
   `sep` [rad] apart the plane-to-plane map is projective, not affine; the sky positions produced by alignments
   carried out in the two planes then differ by at most
        10 * corr * sep * L   [rad]   + rounding floor
   (corr = largest displacement of a source, L = largest distance of an evaluated position from any tangent
   point involved), and FITS members add their own second-order re-linearisation term (C01).  With sep = 0
   (rotated / scaled / shifted planes with a common tangent point) the map IS affine and the statement below
   applies as it stands. *)
Section TwoPlanes.
Variable Sky : Type.
Variables (w2t1 : Sky -> pt) (t2w1 : pt -> Sky) (w2t2 : Sky -> pt) (t2w2 : pt -> Sky).
Hypothesis tw1 : forall w, t2w1 (w2t1 w) = w.
Hypothesis tw2 : forall w, t2w2 (w2t2 w) = w.
Variable R : aff.             (* plane 1 -> plane 2 *)
Hypothesis H12 : forall t, w2t2 (t2w1 t) = app R t.
Hypothesis detR : det R <> 0.

(* an error that is the affine map G in plane 1 is the affine map R o G o R^-1 in plane 2 ... *)
Theorem C05_error_in_other_plane_partial : forall (G : aff) (r c : Sky),
  w2t1 r = app G (w2t1 c) -> w2t2 r = app (conj_code R G) (w2t2 c).
Proof. exact (pairs_conj Sky w2t1 t2w1 w2t2 tw1 R H12 detR). Qed.

(* ... and applying it through plane 2 is the same sky-level map as applying G through plane 1 *)
Theorem C05_same_skymap_through_either_plane_partial : forall (G : aff) (w : Sky),
  skymap Sky w2t2 t2w2 (conj_code R G) w = skymap Sky w2t1 t2w1 G w.
Proof. exact (skymap_conj Sky w2t1 t2w1 w2t2 t2w2 tw1 tw2 R H12 detR). Qed.

(* plane independence: whatever map F2 the fit carried out in plane 2 returns, if it reproduces three sources
   that are not collinear in plane 2 (the general fit does: C01_fit_reproduces) it IS the conjugate of the true
   error, and the sky-level correction equals the one obtained by working in plane 1 - at every sky position *)
Theorem C05_plane_independence_partial : forall (G F2 : aff) (c1 c2 c3 r1 r2 r3 : Sky),
  w2t1 r1 = app G (w2t1 c1) -> w2t1 r2 = app G (w2t1 c2) -> w2t1 r3 = app G (w2t1 c3) ->
  app F2 (w2t2 c1) = w2t2 r1 -> app F2 (w2t2 c2) = w2t2 r2 -> app F2 (w2t2 c3) = w2t2 r3 ->
  (fst (w2t2 c2) - fst (w2t2 c1)) * (snd (w2t2 c3) - snd (w2t2 c1))
    - (fst (w2t2 c3) - fst (w2t2 c1)) * (snd (w2t2 c2) - snd (w2t2 c1)) <> 0 ->
  F2 = conj_code R G /\ forall w, skymap Sky w2t2 t2w2 F2 w = skymap Sky w2t1 t2w1 G w.
Proof. exact (plane_independent Sky w2t1 t2w1 w2t2 t2w2 tw1 tw2 R H12 detR). Qed.
End TwoPlanes.
Print Assumptions C05_error_in_other_plane_partial.
Print Assumptions C05_same_skymap_through_either_plane_partial.
Print Assumptions C05_plane_independence_partial.

(* the literal (matrix', shift') of JWSTWCSCorrector.set_correction is the conjugate *)
Theorem C05_conj_code_is_conjugation : forall (R G : aff) (v : pt), det R <> 0 ->
  app (conj_code R G) v = app R (app G (app (inva R) v)).
Proof. exact conj_code_spec. Qed.
Print Assumptions C05_conj_code_is_conjugation.

(* ---------- FITS members, flat-sky instance: any flat reference plane gives the same sky-level map ---------- *)
(* FULL: for TAN planes the corrected FITS WCS deviates from skymap G by the second-order term of C01 plus the
   first-order plane-to-plane term above; measured. *)
Theorem C05_fits_flat_any_plane_partial : forall (Bm : aff) (hx hy : Qc) (st : fits) (G : aff) (t : pt),
  det (cd st) <> 0 -> det Bm <> 0 -> det G <> 0 -> hx <> 0 -> hy <> 0 ->
  app (inva Bm) (ft2w (fits_set_correction Bm hx hy st G) t) = app G (app (inva Bm) (ft2w st t)).
Proof. exact fits_flat_C02. Qed.
Print Assumptions C05_fits_flat_any_plane_partial.

(* ---------- non-vacuity witnesses ---------- *)
Open Scope Q_scope.
Definition wR : qaff := {| g00 := 3 # 2; g01 := -1 # 4; g10 := 1 # 2; g11 := 5 # 4; h0 := 7; h1 := -3 # 1 |}.
Definition wG5 : qaff := {| g00 := 33 # 32; g01 := 1 # 64; g10 := -1 # 32; g11 := 31 # 32; h0 := 5 # 2; h1 := -1 # 4 |}.
Definition wS : Q := 11 # 100.
(* _tp2tp returns wR from the images of its probe points; the conjugate computed by set_correction acts as
   R o G o R^-1 on sample points; the conjugate of the identity is the identity *)
Example C05_witness_tp2tp :
  tp2tp (qapp wR (probe wS 0)) (qapp wR (probe wS 1)) (qapp wR (probe wS 2)) (qapp wR (probe wS 3)) wS = wR.
Proof. vm_compute. reflexivity. Qed.
Example C05_witness_conj :
  forallb (fun v => let a := qapp (qconj wR wG5) v in let b := qapp wR (qapp wG5 (qapp (qinv wR) v)) in
                    Qeq_bool (fst a) (fst b) && Qeq_bool (snd a) (snd b))
          [(0, 0); (1, 0); (0, 1); (-7 # 3, 1000 # 7)] = true
  /\ qconj wR qid = qid /\ negb (Qeq_bool (qdet wR) 0) = true
  /\ negb (Qeq_bool (g01 (qconj wR wG5)) (g01 wG5)) = true.
Proof. vm_compute. repeat split; reflexivity. Qed.

(* a two-member group (distinct own planes cR1, cR2 relative to the reference plane, different histories),
   identity sky: both members receive the same sky-level map *)
Open Scope Qc_scope.
Definition cR1 : aff := c_of_q wR.
Definition cR2 : aff := {| a11 := 0; a12 := 1 + 1; a21 := - (1); a22 := 0; b1 := 1; b2 := 1 |}.
Definition cA1 : aff := {| a11 := 1; a12 := 1; a21 := 0; a22 := 1; b1 := 1; b2 := 0 |}.
Definition cA2 : aff := {| a11 := 1 + 1; a12 := 0; a21 := 1; a22 := 1; b1 := 0; b2 := 1 |}.
Definition cF : aff := c_of_q wG5.
Definition memR (i : bool) : aff := if i then cR1 else cR2.
Definition memA (i : bool) : aff := if i then cA1 else cA2.
(* member i: own plane coordinates t = R_i (sky), i.e. T = app (R i), Ti = app (inva (R i)), S = Si = id *)
Definition wd2w (A : bool -> aff) (i : bool) (p : pt) : pt :=
  gd2w pt bool pt pt (fun _ v => v) (fun i v => app (memR i) v) (fun i t => app (inva (memR i)) t) (fun _ v => v) A i p.
Example C05_witness_group :
  forallb (fun ip : bool * pt =>
             let '(i, p) := ip in
             let new := wd2w (apply_affine bool memR memA cF) i p in
             let expected := skymap pt (fun w => w) (fun t => t) cF (wd2w memA i p) in
             Qeq_bool (fst new) (fst expected) && Qeq_bool (snd new) (snd expected))
          [(true, (0, 0)); (true, (1, 1 + 1)); (false, (0, 0)); (false, (1 + 1 + 1, - (1)))] = true.
Proof. vm_compute. reflexivity. Qed.

(* ---------- the code before repair c5e1453 (F7): a member with an earlier correction A is moved by
   A o F instead of F o A ---------- *)
Theorem C05_refuted_before_fix_F7 : exists (A F : aff) (t0 : pt),
  leg_member_after A F t0 <> leg_member_expected A F t0.
Proof.
  exists cA1, cA2, (1, 0). vm_compute. intro H. inversion H.
Qed.
Print Assumptions C05_refuted_before_fix_F7.
