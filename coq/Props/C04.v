(* C04 - corrections compose as an affine group and histories are replayable.
   Statements only; proofs in Proofs/CorrGwcs.v, CorrGwcsState.v, CorrFits.v; model Model/CorrModel.v. *)
From Coq Require Import QArith Qcanon List.
From TW Require Import CorrModel LegacyCorr CorrAlgebra CorrGwcsState CorrGwcs CorrFits.
Import ListNotations.
Open Scope Qc_scope.

(* gWCS, own plane (fixed on the sky), in EVERY state reachable by any history:
   identity correction leaves the sky mapping unchanged; (M,s) followed by (M^-1, -M^-1 s) restores it;
   (M1,s1) then (M2,s2) = (M2.M1, M2.s1 + s2): same accumulated affine, same sky mapping *)
Theorem C04_gwcs_group_laws_own_plane :
  forall (X : Type) (F : nat -> X -> X) (T : X -> pt) (Ti : pt -> X) (k : Qc), (forall x, Ti (T x) = x) ->
  forall (w : wcs) (info : ang) (h : list op) (st : gst), reach k w info h st ->
  (exists st', gset k st mid (0, 0) = Some st' /\ forall p, g_d2w X F T Ti st' p = g_d2w X F T Ti st p) /\
  (forall M s st1, gset k st M s = Some st1 ->
     exists st2, gset k st1 (minv M) (pneg (mapp (minv M) s)) = Some st2 /\
                 forall p, g_d2w X F T Ti st2 p = g_d2w X F T Ti st p) /\
  (forall M1 s1 st1 M2 s2 st2, gset k st M1 s1 = Some st1 -> gset k st1 M2 s2 = Some st2 ->
     exists st12, gset k st (mmul M2 M1) (padd (mapp M2 s1) s2) = Some st12 /\
                  g_aff st12 = g_aff st2 /\ forall p, g_d2w X F T Ti st12 p = g_d2w X F T Ti st2 p).
Proof. exact gwcs_C04_group. Qed.
Print Assumptions C04_gwcs_group_laws_own_plane.

(* gWCS, one fixed reference plane with affine plane-to-plane map G: (M1,s1) then (M2,s2) = (M2.M1, M2.s1 + s2) *)
Theorem C04_gwcs_compose_reference_plane :
  forall (X : Type) (F : nat -> X -> X) (T : X -> pt) (Ti : pt -> X) (k ki : Qc), (forall x, Ti (T x) = x) -> k * ki = 1 ->
  forall (w : wcs) (info : ang) (h : list op) (st : gst) (G : aff) (M1 : mat) (s1 : pt) (st1 : gst) (M2 : mat) (s2 : pt) (st2 : gst),
  reach k w info h st -> gset_ref k st G M1 s1 = Some st1 -> gset_ref k st1 G M2 s2 = Some st2 ->
  exists st12, gset_ref k st G (mmul M2 M1) (padd (mapp M2 s1) s2) = Some st12 /\
               forall p, g_d2w X F T Ti st12 p = g_d2w X F T Ti st2 p.
Proof. exact gwcs_C04_compose_ref. Qed.
Print Assumptions C04_gwcs_compose_reference_plane.

(* the reference plane of the second correction is the same as that of the first: no operation moves the gWCS
   tangent plane on the sky *)
Theorem C04_gwcs_plane_fixed_on_sky :
  forall (X : Type) (F Fi : nat -> X -> X) (T : X -> pt) (Ti : pt -> X) (k ki : Qc),
  (forall t, T (Ti t) = t) -> (forall x, Ti (T x) = x) ->
  forall (w : wcs) (info : ang) (h : list op) (st : gst) (o : op) (st' : gst) (x : X) (t : pt),
  reach k w info h st -> gstep k st o = Some st' ->
  g_w2t X F Fi T Ti ki tan_frame st' x = g_w2t X F Fi T Ti ki tan_frame st x /\
  g_t2w X F Fi T Ti k tan_frame st' t = g_t2w X F Fi T Ti k tan_frame st t.
Proof. exact gwcs_plane_fixed. Qed.
Print Assumptions C04_gwcs_plane_fixed_on_sky.

(* a corrector rebuilt from the corrected WCS: the constructor accepts it, yields the same state (only its notion of
   "original WCS" is the corrected one) and every continuation h' of the history gives equivalent states with the same
   sky mapping and tangent-plane conversions *)
Theorem C04_gwcs_rewrap_continues_history :
  forall (X : Type) (F Fi : nat -> X -> X) (T : X -> pt) (Ti : pt -> X) (k ki : Qc),
  forall (w : wcs) (info : ang) (h : list op) (st : gst), reach k w info h st ->
  exists sr, ginit (g_wcs st) (g_info st) = Some sr /\ eqv st sr /\ g_owcs sr = g_wcs st /\
    forall h' st', grun k st h' = Some st' -> exists sr', grun k sr h' = Some sr' /\ eqv st' sr' /\
      (forall p, g_d2w X F T Ti st' p = g_d2w X F T Ti sr' p) /\
      (forall x, g_w2t X F Fi T Ti ki tan_frame st' x = g_w2t X F Fi T Ti ki tan_frame sr' x) /\
      (forall p, g_d2t X F Fi T Ti ki tan_frame st' p = g_d2t X F Fi T Ti ki tan_frame sr' p).
Proof. exact gwcs_C04_rewrap. Qed.
Print Assumptions C04_gwcs_rewrap_continues_history.

(* exactly one correction frame however many corrections were applied (induction over the history), never more than
   one; the caller's WCS is never written by set_correction / copy *)
Theorem C04_gwcs_one_correction_frame_original_untouched :
  forall (k : Qc) (w : wcs) (info : ang) (h : list op) (st : gst), reach k w info h st ->
  (count Fcorr (frames (g_wcs st)) <= 1)%nat /\
  (existsb is_correction h = true -> count Fcorr (frames (g_wcs st)) = 1%nat) /\
  (~ In OpRewrap h -> g_owcs st = w).
Proof. exact gwcs_C04_bookkeeping. Qed.
Print Assumptions C04_gwcs_one_correction_frame_original_untouched.

(* FITS, flat instance, own plane (fixed on the detector): identity; inverse; (M1,s1) then (M2,s2) = (M1.M2, M1.s2 + s1) *)
Theorem C04_fits_flat_group_laws_own_plane_partial :
  forall (w : fwcs), mdet (f_cd w) <> 0 ->
  (forall v, f_t2w flat_proj (fset flat_proj flat_proji w mid (0, 0) None) v = f_t2w flat_proj w v) /\
  (forall M s, mdet M <> 0 ->
     forall v, f_t2w flat_proj (fset flat_proj flat_proji (fset flat_proj flat_proji w M s None) (minv M) (pneg (mapp (minv M) s)) None) v
             = f_t2w flat_proj w v) /\
  (forall M1 s1 M2 s2, mdet M1 <> 0 -> mdet M2 <> 0 ->
     forall v, f_t2w flat_proj (fset flat_proj flat_proji (fset flat_proj flat_proji w M1 s1 None) M2 s2 None) v
             = f_t2w flat_proj (fset flat_proj flat_proji w (mmul M1 M2) (padd (mapp M1 s2) s1) None) v).
Proof. exact fits_flat_C04_group. Qed.
Print Assumptions C04_fits_flat_group_laws_own_plane_partial.

(* FITS, flat instance: any history of regular corrections in the own plane = one affine map, composed in FITS order;
   the linear part stays regular, so the history can always be continued *)
Theorem C04_fits_flat_every_history_partial :
  forall (h : list (mat * pt)) (w : fwcs), mdet (f_cd w) <> 0 -> Forall (fun ms => mdet (fst ms) <> 0) h ->
  (forall v, f_t2w flat_proj (frun flat_proj flat_proji w h) v = f_t2w flat_proj w (app (fits_total h) v)) /\
  mdet (f_cd (frun flat_proj flat_proji w h)) <> 0.
Proof. exact fits_flat_history. Qed.
Print Assumptions C04_fits_flat_every_history_partial.

(* FULL (the FITS `_partial` theorems are for the flat instance; measured by harness/pC04.py, not expressible): for a true TAN projection the FITS laws hold within the
   second-order reprojection bound of C02; "copies are independent" and "the caller's FITS WCS object is never modified"
   are statements about Python object identity (the model is purely functional: OpCopy returns the same value). *)

(* before fix F7: two corrections through one fixed reference plane differed from their product.  The legacy _tp2tp saw
   the image plane through the already applied affine (G1 = shear_x instead of the identity) *)
Example C04_refuted_before_fix_F7 :
  match demo_st0, demo_st1 with
  | Some st0, Some st1 =>
      let G1 := tp2tp (fun v => leg_w2t st1 (fix_t2w st0 v)) 1 in
      match gset_ref 1 st1 G1 shear_y (0, 0), gset 1 st0 (mmul shear_y shear_x) (0, 0) with
      | Some st2, Some st12 => leg_d2w st2 (1, 0) <> leg_d2w st12 (1, 0)
      | _, _ => False
      end
  | _, _ => False
  end.
Proof. vm_compute. intro H. inversion H. Qed.
(* with the current tangent-plane definition the same scenario composes correctly *)
Example C04_witness_fixed :
  match demo_st0, demo_st1 with
  | Some st0, Some st1 =>
      let G1 := tp2tp (fun v => fix_w2t st1 (fix_t2w st0 v)) 1 in
      match gset_ref 1 st1 G1 shear_y (0, 0), gset 1 st0 (mmul shear_y shear_x) (0, 0) with
      | Some st2, Some st12 => leg_d2w st2 (1, 0) = leg_d2w st12 (1, 0)
      | _, _ => False
      end
  | _, _ => False
  end.
Proof. vm_compute. f_equal; apply Qc_is_canon; reflexivity. Qed.
(* non-vacuity: a reachable state after a history with copy, re-wrapping and a reference-plane correction has exactly
   one correction frame; the FITS order differs from the gWCS order on non-commuting matrices *)
Example C04_witness_frames :
  match demo_run with Some st => frames (g_wcs st) = [Fdet; Fv2v3; Fvacorr; Fcorr; Fworld] | None => False end.
Proof. vm_compute. reflexivity. Qed.
Example C04_witness_orders_differ : mmul shear_x shear_y <> mmul shear_y shear_x.
Proof. vm_compute. intro H. inversion H. Qed.
