(* C03 - detector, tangent-plane and world transforms of a corrector are coherent.
   Statements only; proofs in Proofs/CorrGwcs.v, CorrFits.v; model Model/CorrModel.v.
   Shapes of inputs / outputs (scalars, n-d arrays) are not expressible in the model: measured by harness/pC03.py. *)
From Coq Require Import QArith Qcanon List.
From TW Require Import CorrModel LegacyCorr CorrAlgebra CorrGwcsState CorrGwcs CorrFits.
Import ListNotations.
Open Scope Qc_scope.

(* gWCS: invariant over histories.  In EVERY state reachable from the constructor by any history of corrections (own
   plane / reference plane), copies and re-wrappings, given that the opaque pipeline models and v2v3 <-> tangent plane
   are mutually inverse pairs and _ARCSEC2RAD * _RAD2ARCSEC = 1: the six conversions are mutual inverses and commute *)
Theorem C03_gwcs_coherent_in_every_reachable_state_partial :
  forall (X : Type) (F Fi : nat -> X -> X) (T : X -> pt) (Ti : pt -> X) (k ki : Qc),
  (forall n x, F n (Fi n x) = x) -> (forall n x, Fi n (F n x) = x) ->
  (forall t, T (Ti t) = t) -> (forall x, Ti (T x) = x) -> k * ki = 1 ->
  forall (w : wcs) (info : ang) (h : list op) (st : gst), reach k w info h st ->
  (forall p, g_w2d X Fi T Ti st (g_d2w X F T Ti st p) = p) /\
  (forall x, g_d2w X F T Ti st (g_w2d X Fi T Ti st x) = x) /\
  (forall p, g_t2d X F Fi T Ti k tan_frame st (g_d2t X F Fi T Ti ki tan_frame st p) = p) /\
  (forall t, g_d2t X F Fi T Ti ki tan_frame st (g_t2d X F Fi T Ti k tan_frame st t) = t) /\
  (forall x, g_t2w X F Fi T Ti k tan_frame st (g_w2t X F Fi T Ti ki tan_frame st x) = x) /\
  (forall t, g_w2t X F Fi T Ti ki tan_frame st (g_t2w X F Fi T Ti k tan_frame st t) = t) /\
  (forall p, g_t2w X F Fi T Ti k tan_frame st (g_d2t X F Fi T Ti ki tan_frame st p) = g_d2w X F T Ti st p) /\
  (forall p, g_w2t X F Fi T Ti ki tan_frame st (g_d2w X F T Ti st p) = g_d2t X F Fi T Ti ki tan_frame st p) /\
  (forall t, g_d2w X F T Ti st (g_t2d X F Fi T Ti k tan_frame st t) = g_t2w X F Fi T Ti k tan_frame st t).
Proof. exact gwcs_C03. Qed.
Print Assumptions C03_gwcs_coherent_in_every_reachable_state_partial.

(* what makes it an invariant: the state keeps its shape (one correction step whose stored inverse is the inverse of a
   regular matrix) under every operation -- det (M.A) = det M . det A *)
Theorem C03_gwcs_invariant_preserved :
  forall (k : Qc) (pre : wcs) (f : fname) (t0 : trf) (post : wcs) (wl : fname) (h : list op) (st st' : gst),
  wfz pre f t0 post wl -> shape pre f t0 post wl st -> grun k st h = Some st' -> shape pre f t0 post wl st'.
Proof. exact (fun k pre f t0 post wl h st st' => grun_shape k pre f t0 post wl h st st'). Qed.
Print Assumptions C03_gwcs_invariant_preserved.
Theorem C03_det_multiplicative : forall M s A, adet (combine_fwd M s A) = mdet M * adet A.
Proof. exact adet_combine. Qed.
Print Assumptions C03_det_multiplicative.

(* FITS: in any state whose linear matrix is regular, for every projection family (proj, proji) and distortion
   (dist, disti) that are mutually inverse pairs *)
Theorem C03_fits_coherent_any_projection_partial :
  forall (proj proji : pt -> pt -> pt) (dist disti : pt -> pt),
  (forall c v, proji c (proj c v) = v) -> (forall c s, proj c (proji c s) = s) ->
  (forall p, disti (dist p) = p) -> (forall v, dist (disti v) = v) ->
  forall w : fwcs, mdet (f_cd w) <> 0 ->
  (forall p, f_w2d proji disti w (f_d2w proj dist w p) = p) /\ (forall s, f_d2w proj dist w (f_w2d proji disti w s) = s) /\
  (forall p, f_t2d disti w (f_d2t dist w p) = p) /\ (forall v, f_d2t dist w (f_t2d disti w v) = v) /\
  (forall s, f_t2w proj w (f_w2t proji w s) = s) /\ (forall v, f_w2t proji w (f_t2w proj w v) = v) /\
  (forall p, f_t2w proj w (f_d2t dist w p) = f_d2w proj dist w p) /\
  (forall p, f_w2t proji w (f_d2w proj dist w p) = f_d2t dist w p).
Proof. exact fits_C03_any_state. Qed.
Print Assumptions C03_fits_coherent_any_projection_partial.

(* FITS, flat instance: invariant over histories (the matrix stays regular after every list of regular corrections) *)
Theorem C03_fits_flat_coherent_after_every_history_partial :
  forall (h : list (mat * pt)) (w : fwcs) (dist disti : pt -> pt),
  mdet (f_cd w) <> 0 -> Forall (fun ms => mdet (fst ms) <> 0) h ->
  (forall p, disti (dist p) = p) -> (forall v, dist (disti v) = v) ->
  let w' := frun flat_proj flat_proji w h in
  (forall p, f_w2d flat_proji disti w' (f_d2w flat_proj dist w' p) = p) /\
  (forall s, f_d2w flat_proj dist w' (f_w2d flat_proji disti w' s) = s) /\
  (forall p, f_t2d disti w' (f_d2t dist w' p) = p) /\ (forall v, f_d2t dist w' (f_t2d disti w' v) = v) /\
  (forall s, f_t2w flat_proj w' (f_w2t flat_proji w' s) = s) /\ (forall v, f_w2t flat_proji w' (f_t2w flat_proj w' v) = v) /\
  (forall p, f_t2w flat_proj w' (f_d2t dist w' p) = f_d2w flat_proj dist w' p) /\
  (forall p, f_w2t flat_proji w' (f_d2w flat_proj dist w' p) = f_d2t dist w' p).
Proof. exact fits_flat_C03_every_history. Qed.
Print Assumptions C03_fits_flat_coherent_after_every_history_partial.

(* FULL (the `_partial` theorems above are pointwise): "... This holds for scalar and array inputs of any shape, and output
   shape follows input shape" is a statement about numpy broadcasting in astropy / gwcs, not expressible in the model;
   measured on shapes (), (1,), (n,), (n,m), (a,b,c), (0,).  For FITS with a true celestial projection the regularity of
   the matrix after a history is measured (proved in the flat instance). *)

(* non-vacuity: a reachable state (history with copy, re-wrapping, reference-plane correction) on concrete transforms *)
Example C03_witness :
  match demo_run with
  | Some st => fix_w2t st (leg_d2w st (1, 1)) = fix_d2t st (1, 1) /\ fix_t2w st (fix_d2t st (1, 1)) = leg_d2w st (1, 1)
  | None => False
  end.
Proof. vm_compute. split; f_equal; apply Qc_is_canon; reflexivity. Qed.
