(* C12 - histogram offset estimate and sub-bin peak locator: property theorems (statements only) *)
From Coq Require Import QArith Qabs ZArith List Bool.
From TW Require Import GJModel Peak Hist LegacyHist PeakBounds PeakVertex PeakLSQ HistProof.
Import ListNotations.
Open Scope Q_scope.

(* (i) shifted copies, only true pairs (common offset (sx, sy)) inside the search box: the estimate is within half a
   bin of the true shift on each axis, x with x and y with y; for every pscale > 0, every r (the quotient
   searchrad / pscale as the code computed it), every lstsq oracle. *)
Theorem C12_estimate_within_half_bin :
  forall (solver : list (Z * Z * Z) -> option coef6) img ref r pscale sx sy, 0 < pscale ->
  (forall p q, In p img -> In q ref -> inbox r (delta_of pscale p q) = true ->
               fst p - fst q == sx /\ snd p - snd q == sy) ->
  (exists p q, In p img /\ In q ref /\ inbox r (delta_of pscale p q) = true) ->
  let e := estimate_with solver img ref r pscale in
  Qabs (fst e - sx) <= pscale * (1#2) /\ Qabs (snd e - sy) <= pscale * (1#2).
Proof. exact estimate_half_bin. Qed.
Print Assumptions C12_estimate_within_half_bin.

(* every true pair with |shift| <= searchrad on both axes IS inside the search box (so the existence hypothesis above
   holds for all shifts on and off bin centres), for the exact quotient and for any rounding of it *)
Theorem C12_true_pair_in_search_box :
  forall r searchrad pscale p q sx sy, 0 < pscale ->
  fst p - fst q == sx -> snd p - snd q == sy -> Qabs sx <= searchrad -> Qabs sy <= searchrad ->
  searchrad / pscale < r + (1#2) -> inbox r (delta_of pscale p q) = true.
Proof. exact true_pair_in_box. Qed.
Print Assumptions C12_true_pair_in_search_box.

(* (ii) no pair inside the search box: (0, 0) *)
Theorem C12_estimate_zero_when_none_in_range :
  forall (solver : list (Z * Z * Z) -> option coef6) img ref r pscale,
  (forall p q, In p img -> In q ref -> inbox r (delta_of pscale p q) = false) ->
  estimate_with solver img ref r pscale = (0, 0).
Proof. exact estimate_none_in_range. Qed.
Print Assumptions C12_estimate_zero_when_none_in_range.

(* crowded fields: with two or more occupied bins, for EVERY coefficient oracle the estimate is (0,0) (error exit) or
   lies in the five-bin fit box that contains the highest bin (first maximum): less than 5 bins from its centre *)
Theorem C12_estimate_crowded_in_fit_box :
  forall (solver : list (Z * Z * Z) -> option coef6) img ref r pscale, 0 < pscale ->
  let n := (2 * half_bins r + 1)%Z in
  let zp := xy_2dhist r (scale_pts pscale img) (scale_pts pscale ref) in
  (2 <= length (nonzero_cells n zp))%nat ->
  exists jmax imax,
    (0 <= jmax < n)%Z /\ (0 <= imax < n)%Z /\ (1 <= val zp jmax imax)%Z /\
    (forall j i, (0 <= j < n)%Z -> (0 <= i < n)%Z -> (val zp j i <= val zp jmax imax)%Z) /\
    let e := estimate_with solver img ref r pscale in
    (fst e == 0 /\ snd e == 0) \/
    (Qabs (fst e - pscale * (inject_Z imax - inject_Z (half_bins r))) <= pscale * 4 /\
     Qabs (snd e - pscale * (inject_Z jmax - inject_Z (half_bins r))) <= pscale * 4).
Proof. exact estimate_crowded. Qed.
Print Assumptions C12_estimate_crowded_in_fit_box.

(* the KD-tree pre-selection (ball of radius (r + 1/2) sqrt 2) never removes a pair of the search box *)
Theorem C12_search_box_inside_preselection_ball :
  forall r d, inbox r d = true -> fst d * fst d + snd d * snd d <= 2 * ((r + (1#2)) * (r + (1#2))).
Proof. exact inbox_in_ball. Qed.
Print Assumptions C12_search_box_inside_preselection_ball.

(* (iii) peak locator, for EVERY coefficient oracle, every non-negative integer histogram (any shape ny x nx >= 1),
   every mask and every peak_fit_box >= 1: the fit box is a non-empty sub-rectangle of the histogram, the returned
   point lies inside the fit box and inside [0, nx-1] x [0, ny-1], the status is in the documented vocabulary. *)
Theorem C12_peak_inside_histogram_and_box :
  forall (solver : list (Z * Z * Z) -> option coef6) ny nx h m b,
  (1 <= nx)%Z -> (1 <= ny)%Z -> (1 <= b)%Z -> Forall (Forall (fun v => (0 <= v)%Z)) h ->
  let p := find_peak_with solver ny nx h m b in
  (0 <= p_x1 p < p_x2 p)%Z /\ (p_x2 p <= nx)%Z /\ (0 <= p_y1 p < p_y2 p)%Z /\ (p_y2 p <= ny)%Z /\
  (inject_Z (p_x1 p) <= p_x p <= inject_Z (p_x2 p) - 1 /\ inject_Z (p_y1 p) <= p_y p <= inject_Z (p_y2 p) - 1) /\
  (0 <= p_x p <= inject_Z nx - 1) /\ (0 <= p_y p <= inject_Z ny - 1) /\
  In (status_str (p_st p)) vocabulary.
Proof. exact (fun solver ny nx h m b Hx Hy Hb F => find_peak_bounds solver ny nx h m b Hx Hy Hb (nonneg_of_forall h F)). Qed.
Print Assumptions C12_peak_inside_histogram_and_box.

(* the fit box contains the first maximum of the masked data and is at most peak_fit_box wide *)
Theorem C12_peak_box_contains_maximum :
  forall (solver : list (Z * Z * Z) -> option coef6) ny nx h m b jmax imax, (1 <= b)%Z ->
  argmax_first h (masked_cells ny nx m) = Some (jmax, imax) -> (1 <= val h jmax imax)%Z ->
  let p := find_peak_with solver ny nx h m b in
  (p_x1 p <= imax < p_x2 p)%Z /\ (p_x2 p - p_x1 p <= b)%Z /\
  (p_y1 p <= jmax < p_y2 p)%Z /\ (p_y2 p - p_y1 p <= b)%Z.
Proof. exact find_peak_near_max. Qed.
Print Assumptions C12_peak_box_contains_maximum.

(* (iv) the vertex formula is exact for a paraboloid p0 + a (x-xv)^2 + b (x-xv)(y-yv) + c (y-yv)^2 with 4ac - b^2 > 0,
   and it is the stationary point of any fitted quadratic *)
Theorem C12_vertex_formula_exact :
  forall p0 a b c xv yv, 0 < 4 * a * c - b * b ->
  vertex_x (paraboloid_coef p0 a b c xv yv) == xv /\ vertex_y (paraboloid_coef p0 a b c xv yv) == yv.
Proof. exact vertex_exact. Qed.
Print Assumptions C12_vertex_formula_exact.

Theorem C12_vertex_is_stationary_point :
  forall cf, ~ fit_det cf == 0 ->
  c10 cf + c11 cf * vertex_y cf + 2 * c20 cf * vertex_x cf == 0 /\
  c01 cf + c11 cf * vertex_x cf + 2 * c02 cf * vertex_y cf == 0.
Proof. exact vertex_stationary. Qed.
Print Assumptions C12_vertex_is_stationary_point.

(* the post-fit stage, given the coefficients of a concave paraboloid whose vertex lies in the fit box, returns
   SUCCESS and exactly the vertex (in array coordinates) *)
Theorem C12_peak_success_at_paraboloid_vertex :
  forall p0 a b c xv yv pts x1 x2 y1 y2, a < 0 -> 0 < 4 * a * c - b * b ->
  1 <= xv <= inject_Z (x2 - x1) -> 1 <= yv <= inject_Z (y2 - y1) ->
  let r := finish (Some (paraboloid_coef p0 a b c xv yv)) pts x1 x2 y1 y2 in
  fst (fst r) == xv + inject_Z x1 - 1 /\ snd (fst r) == yv + inject_Z y1 - 1 /\ snd r = Success.
Proof. exact finish_paraboloid. Qed.
Print Assumptions C12_peak_success_at_paraboloid_vertex.

(* the exact least-squares solution used for execution recovers the coefficients of any quadratic that interpolates
   the data (numpy.linalg.lstsq itself stays an oracle, see the bounds theorem) *)
Theorem C12_lsq_exact_on_interpolated_data :
  forall pts c cf, interpolates c pts -> lsq6 pts = LCoef cf ->
  c00 cf == c00 c /\ c10 cf == c10 c /\ c01 cf == c01 c /\ c11 cf == c11 c /\ c20 cf == c20 c /\ c02 cf == c02 c.
Proof. exact lsq6_exact_recovery. Qed.
Print Assumptions C12_lsq_exact_on_interpolated_data.

(* end to end on the executable model: the fit points sample a concave paraboloid (integer-valued samples: the model's
   histograms are integer), full-rank design, vertex inside the fit box => SUCCESS exactly at the vertex.
   FULL (not stated): the same for real-valued samples and for the coefficients numpy.linalg.lstsq returns in binary64;
   the harness measures that (|x - xv| <= 1e-9) on integer-valued paraboloids with rational vertices. *)
Theorem C12_peak_locates_paraboloid_vertex_partial :
  forall ny nx h m bx x1 x2 y1 y2 pts p0 a b c xv yv,
  stage1_of ny nx h m bx = NeedFit x1 x2 y1 y2 pts ->
  interpolates (paraboloid_coef p0 a b c xv yv) pts ->
  lsq6 pts <> LRankDef ->
  a < 0 -> 0 < 4 * a * c - b * b ->
  1 <= xv <= inject_Z (x2 - x1) -> 1 <= yv <= inject_Z (y2 - y1) ->
  exists p, find_peak_exec ny nx h m bx = Some p /\ p_st p = Success /\
            p_x p == xv + inject_Z x1 - 1 /\ p_y p == yv + inject_Z y1 - 1 /\
            p_x1 p = x1 /\ p_x2 p = x2 /\ p_y1 p = y1 /\ p_y2 p = y2.
Proof. exact find_peak_paraboloid. Qed.
Print Assumptions C12_peak_locates_paraboloid_vertex_partial.

(* (v) the bin -> offset conversion used before fix F3 violates the half-bin bound on an input of the domain *)
Theorem C12_refuted_before_fix_F3 :
  exists img ref searchrad pscale sx sy,
    0 < pscale /\
    (forall p q, In p img -> In q ref -> inbox (searchrad / pscale) (delta_of pscale p q) = true ->
                 fst p - fst q == sx /\ snd p - snd q == sy) /\
    (exists p q, In p img /\ In q ref /\ inbox (searchrad / pscale) (delta_of pscale p q) = true) /\
    let e := legacy_estimate_with (fun _ => None) img ref searchrad pscale in
    pscale * (1#2) < Qabs (fst e - sx).
Proof. exact legacy_estimate_refuted. Qed.
Print Assumptions C12_refuted_before_fix_F3.

(* ---- non-vacuity ---- *)
(* two sources shifted by (0.7, -0.4) = (2.33, -1.33) bins, pscale 0.3, searchrad 1: hypotheses hold, estimate (0.6,-0.3) *)
Example C12_half_bin_witness :
  let img := [(7#10, -(4#10)); (207#10, 96#10)] in let ref := [(0, 0); (20, 10)] in
  (forall p q, In p img -> In q ref -> inbox (10#3) (delta_of (3#10) p q) = true ->
               fst p - fst q == (7#10) /\ snd p - snd q == -(4#10)) /\
  (exists p q, In p img /\ In q ref /\ inbox (10#3) (delta_of (3#10) p q) = true) /\
  estimate_exec img ref (10#3) (3#10) = Some (6#10, -(3#10)).
Proof.
  cbv zeta. split; [|split].
  - intros p q [<-|[<-|[]]] [<-|[<-|[]]] H; vm_compute in H; try discriminate; split; reflexivity.
  - exists (7#10, -(4#10)), (0, 0). split; [left; reflexivity|]. split; [left; reflexivity| vm_compute; reflexivity].
  - vm_compute. reflexivity.
Qed.

Example C12_none_in_range_witness :
  estimate_exec [(5, 0); (25, 10)] [(0, 0); (20, 10)] 3 1 = Some (0, 0) /\
  (forall p q, In p [(5, 0); (25, 10)] -> In q [(0, 0); (20, 10)] -> inbox 3 (delta_of 1 p q) = false).
Proof.
  split; [vm_compute; reflexivity|].
  intros p q [<-|[<-|[]]] [<-|[<-|[]]]; vm_compute; reflexivity.
Qed.

(* integer-valued concave paraboloid 200 - 2 (2i-7)^2 - (2i-7)(2j-5) - 3 (2j-5)^2 on 7x7, vertex (7/2, 5/2):
   SUCCESS exactly at the vertex with the exact least-squares coefficients, full 5x5 box *)
Definition para77 : hist :=
  map (fun j => map (fun i => 200 - 2 * (2*i-7) * (2*i-7) - (2*i-7) * (2*j-5) - 3 * (2*j-5) * (2*j-5))%Z (zrange 0 7)) (zrange 0 7).
Example C12_paraboloid_witness :
  find_peak_exec 7 7 para77 (all_true 7 7) 5 =
  Some {| p_x := 7#2; p_y := 5#2; p_st := Success; p_y1 := 0; p_y2 := 5; p_x1 := 2; p_x2 := 7 |}.
Proof. vm_compute. reflexivity. Qed.

(* the hypotheses of C12_peak_locates_paraboloid_vertex_partial are satisfiable: para77 in the relative coordinates of
   its fit box is 200 - 8 (x - 5/2)^2 - 4 (x - 5/2)(y - 7/2) - 12 (y - 7/2)^2 *)
Example C12_paraboloid_hypotheses_witness :
  let pts := fitpts para77 (all_true 7 7) 2 7 0 5 in
  stage1_of 7 7 para77 (all_true 7 7) 5 = NeedFit 2 7 0 5 pts /\
  interpolates (paraboloid_coef 200 (-8) (-4) (-12) (5#2) (7#2)) pts /\
  lsq6 pts <> LRankDef.
Proof.
  cbv zeta. split; [vm_compute; reflexivity|]. split.
  - intros p Hp. vm_compute in Hp. repeat (destruct Hp as [<-|Hp]; [vm_compute; reflexivity|]). destruct Hp.
  - vm_compute. discriminate.
Qed.

(* the other exits are reachable *)
Example C12_exits_witness :
  option_map p_st (find_peak_exec 3 3 [[0;0;0];[0;0;0];[0;0;0]]%Z (all_true 3 3) 3) = Some ErrNoData /\
  option_map p_st (find_peak_exec 3 3 [[5;0;0];[0;0;0];[0;0;0]]%Z (all_true 3 3) 3) = Some WarnEdge /\
  option_map p_st (find_peak_exec 3 3 [[0;0;0];[0;5;1];[0;0;0]]%Z (mask_pos [[0;0;0];[0;5;1];[0;0;0]]%Z) 3) = Some WarnCoM /\
  option_map p_st (find_peak_exec 3 3 [[1;1;1];[1;2;1];[1;1;9]]%Z [[true;true;true];[true;true;true];[true;true;false]] 3) = Some Success /\
  option_map p_st (find_peak_exec 3 3 [[3;0;3];[0;4;0];[3;0;3]]%Z (all_true 3 3) 3) = Some WarnBadFit.
Proof. vm_compute. repeat split; reflexivity. Qed.

(* crowded histogram: at least two occupied bins, estimate through the peak fit *)
Example C12_crowded_witness :
  let img := [(1, 1); (11, 1); (21, 2); (2, 1)] in let ref := [(0, 0); (10, 0); (20, 0)] in
  (2 <= length (nonzero_cells 7 (xy_2dhist 3 (scale_pts 1 img) (scale_pts 1 ref))))%nat /\
  estimate_exit img ref 3 1 = ExitPeak.
Proof. vm_compute. split; [repeat constructor| reflexivity]. Qed.
