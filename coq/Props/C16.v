(* C16 - convex hulls and footprints: property theorems (statements only; proofs live in Proofs/).
   convex_hull_model (coq/Model/HullFull.v) mirrors tweakwcs.wcsimage.convex_hull(x, y, wcs=None, min_separation)
   line by line on rational points: sorted(set(zip)), both monotone chains with `<= 0` pops, lower[:-1] + upper,
   the 0- and 1-point exits, the (repaired: F10, F14) merging loop.
   Notation: cr o a b = 2-D cross product (a-o) x (b-o);  lt / le = lexicographic order on points;
   edges l = directed edges of consecutive entries; lturns l = every consecutive triple turns strictly left;
   nocl s l = no two adjacent entries within s in BOTH coordinates; subseq = subsequence. *)
From Coq Require Import QArith Qabs List Bool Arith.
From TW Require Import HullModel HullGeo HullProof HullUpper HullFull HullLiteral LegacyHull HullFront HullClosed
  HullMerge HullTurns HullSpec HullLiteralEq FootBox FootBoxProof.
From TW Require Import SkyRot.
Import ListNotations.
Open Scope Q_scope.

(* every vertex returned (with or without merging) is one of the input points *)
Theorem C16_hull_vertices_are_input_points : forall xs ys ms h v,
  convex_hull_model xs ys ms = Some h -> In v h -> In v (combine xs ys).
Proof. exact chm_vertices_are_input. Qed.
Print Assumptions C16_hull_vertices_are_input_points.

(* the polygon starts and closes at the lexicographically smallest input point (with or without merging) *)
Theorem C16_hull_starts_and_closes_at_lexmin : forall xs ys ms h,
  convex_hull_model xs ys ms = Some h -> h <> [] ->
  exists p0, (In p0 (combine xs ys) /\ forall q, In q (combine xs ys) -> le p0 q) /\
             hd d0 h = p0 /\ last h d0 = p0.
Proof. exact chm_ends. Qed.
Print Assumptions C16_hull_starts_and_closes_at_lexmin.

(* containment: every input point is on or to the left of every directed edge of the (unmerged) hull,
   for every list of points (duplicates, collinear runs, ties in x included) *)
Theorem C16_hull_contains_every_input_point : forall xs ys h q,
  convex_hull_model xs ys None = Some h -> In q (combine xs ys) ->
  forall a b, In (a, b) (edges h) -> 0 <= cr a b q.
Proof. exact chm_contains. Qed.
Print Assumptions C16_hull_contains_every_input_point.

(* counter-clockwise and strictly convex: unless all input points are collinear, every consecutive triple of
   the closed polygon - cyclically, i.e. including the triple around the start vertex - turns strictly left
   (so no collinear or repeated vertex is kept: the vertices are exactly the extreme points) *)
Theorem C16_hull_strictly_convex_ccw : forall xs ys h,
  (exists p q r, In p (combine xs ys) /\ In q (combine xs ys) /\ In r (combine xs ys) /\ ~ cr p q r == 0) ->
  convex_hull_model xs ys None = Some h -> lturns (h ++ firstn 1 (tl h)).
Proof. exact chm_strictly_convex. Qed.
Print Assumptions C16_hull_strictly_convex_ccw.

(* merging: the result is a subsequence of the unmerged hull, keeps the start vertex and stays closed, and
   either only [start; closing] is left or NO two adjacent vertices are within min_separation in both
   coordinates *)
Theorem C16_merge_min_separation : forall xs ys s h0 h,
  convex_hull_model xs ys None = Some h0 -> convex_hull_model xs ys (Some s) = Some h ->
  subseq h h0 /\ hd d0 h = hd d0 h0 /\ last h d0 = last h0 d0 /\
  ((length h <= 2)%nat \/ nocl s h).
Proof. exact chm_merge. Qed.
Print Assumptions C16_merge_min_separation.

(* total for every input and every non-negative (or absent) min_separation; negative => ValueError *)
Theorem C16_hull_total : forall xs ys ms, (forall s, ms = Some s -> 0 <= s) ->
  exists h, convex_hull_model xs ys ms = Some h.
Proof. exact chm_total. Qed.
Print Assumptions C16_hull_total.
Theorem C16_negative_min_separation_rejected : forall xs ys s, s < 0 -> convex_hull_model xs ys (Some s) = None.
Proof. exact chm_neg. Qed.
Print Assumptions C16_negative_min_separation_rejected.

(* the literal transcription of the merging statements with the index list `idx` (pop(k), idx[k + 1], the
   while loop; Model/HullLiteral.v) returns exactly what the structural model returns, for every input: the
   theorems above therefore hold for the literal transcription too *)
Theorem C16_literal_transcription_equals_model : forall xs ys ms,
  convex_hull_literal xs ys ms = convex_hull_model xs ys ms.
Proof. exact convex_hull_literal_eq. Qed.
Print Assumptions C16_literal_transcription_equals_model.

(* front end: sorted(set(zip(x, y))) is strictly sorted with the same members *)
Theorem C16_front_end_sorted_same_members : forall pts,
  Sorted.StronglySorted lt (sort_set pts) /\ (forall x, In x (sort_set pts) -> In x pts) /\
  (forall q, In q pts -> exists q', In q' (sort_set pts) /\ eqp q q').
Proof. exact (fun pts => conj (sort_set_sorted pts) (conj (sort_set_sub pts) (sort_set_complete pts))). Qed.
Print Assumptions C16_front_end_sorted_same_members.

(* RefCatalog boxes (after F6), in the tangent plane, for the exact unit direction v: the two-source box is
   closed and both sources are strictly inside (strictly right of each of the four clockwise edges); the
   distances to the sides are exactly tol (lemmas box2_back_p0 ... in Proofs/FootBoxProof.v) *)
Theorem C16_two_source_box_contains_sources : forall x0 y0 vx vy L t,
  vx * vx + vy * vy == 1 -> 0 <= L -> 0 < t ->
  let p0 := (x0, y0) in let p1 := (x0 + L * vx, y0 + L * vy) in
  let bx := box2 p0 p1 (vx, vy) t in
  nth_pt bx 4 = nth_pt bx 0 /\
  forall i, (i < 4)%nat -> cr (nth_pt bx i) (nth_pt bx (S i)) p0 < 0 /\ cr (nth_pt bx i) (nth_pt bx (S i)) p1 < 0.
Proof. exact box2_contains_sources. Qed.
Print Assumptions C16_two_source_box_contains_sources.
Theorem C16_one_source_box_extends_tol : forall x y t, 0 < t ->
  let bx := box1 (x, y) t in
  nth_pt bx 4 = nth_pt bx 0 /\
  forall i, (i < 4)%nat -> cr (nth_pt bx i) (nth_pt bx (S i)) (x, y) == - ((2 * t) * t).
Proof. exact box1_contains_source. Qed.
Print Assumptions C16_one_source_box_extends_tol.
(* NOT modelled (measured by the harness on the implementation only): the conversion of footprint_tol from
   arcsec to radians (other half of F6), the rotation to the ad-hoc tangent plane (F11), spherical polygons,
   intersection areas. *)

(* ---- non-vacuity: concrete runs of the model *)
(* 3x3 lattice + duplicates: boundary mid-points and the centre are dropped, CCW from (0,0), closed *)
Example C16_lattice_witness :
  convex_hull_model [0;1;2;2;2;1;0;0;1;2;0] [0;0;0;1;2;2;2;1;1;2;0] None
  = Some [(0,0); (2,0); (2,2); (0,2); (0,0)].
Proof. vm_compute. reflexivity. Qed.
Example C16_noncollinear_witness :
  exists p q r, In p (combine [0;1;2;2;2;1;0;0;1;2;0] [0;0;0;1;2;2;2;1;1;2;0]) /\
                In q (combine [0;1;2;2;2;1;0;0;1;2;0] [0;0;0;1;2;2;2;1;1;2;0]) /\
                In r (combine [0;1;2;2;2;1;0;0;1;2;0] [0;0;0;1;2;2;2;1;1;2;0]) /\ ~ cr p q r == 0.
Proof. exists (0,0), (1,0), (2,1). simpl. repeat split; auto 12. vm_compute. discriminate. Qed.
Example C16_small_input_witness :
  convex_hull_model [] [] (Some 1) = Some [] /\
  convex_hull_model [3;3] [4;4] (Some 1) = Some [(3,4)] /\
  convex_hull_model [0;1;2] [0;1;2] None = Some [(0,0); (2,2); (0,0)] /\
  convex_hull_model [0;0;0] [2;0;1] None = Some [(0,0); (0,2); (0,0)].
Proof. vm_compute. repeat split; reflexivity. Qed.
(* merging: vertex 1 next to the start (F10), a vertex whose neighbour was already removed (F14), and a run
   next to the start that needs the start step twice *)
Example C16_merge_witness :
  convex_hull_model [0;1;10;5] [0;-1;0;10] (Some 2) = Some [(0,0); (10,0); (5,10); (0,0)] /\
  convex_hull_model [4;7;8;8] [2;-4;1;6] (Some 4) = Some [(4,2); (7,-4); (4,2)] /\
  convex_hull_model [0;1;3;4] [0;-3;1#2;30] (Some 3) = Some [(0,0); (4,30); (0,0)] /\
  nocl 2 [(0,0); (10,0); (5,10); (0,0)].
Proof. vm_compute. repeat split; reflexivity. Qed.
Example C16_box_witness :
  box2 (0,0) (4,0) (1,0) 1 = [(-1,-1); (-1,1); (5,1); (5,-1); (-1,-1)] /\ 1 * 1 + 0 * 0 == 1.
Proof. split; [vm_compute; reflexivity| reflexivity]. Qed.

(* ---- the defects of the pre-fix code stay machine-checked (frozen loops in Model/LegacyHull.v) *)
(* F10: vertex 1 is within min_separation of the start vertex and is never merged *)
Theorem C16_refuted_before_fix_F10 : exists xs ys s h,
  convex_hull_pre_F10 xs ys (Some s) = Some h /\ (2 < length h)%nat /\ ~ nocl s h.
Proof.
  exists [0;1;10;5], [0;-1;0;10], 2, [(0,0); (1,-1); (10,0); (5,10); (0,0)].
  split; [vm_compute; reflexivity|]. split; [vm_compute; auto|].
  intros [H _]. vm_compute in H. discriminate.
Qed.
Print Assumptions C16_refuted_before_fix_F10.
(* F14: (8,6) is removed (next to the closing vertex), (8,1) was compared with the removed (8,6) only and
   stays adjacent to (4,2) although |dx| = 4 <= 4 and |dy| = 1 <= 4 *)
Theorem C16_refuted_before_fix_F14 : exists xs ys s h,
  convex_hull_pre_F14 xs ys (Some s) = Some h /\ (2 < length h)%nat /\ ~ nocl s h.
Proof.
  exists [4;7;8;8], [2;-4;1;6], 4, [(4,2); (7,-4); (8,1); (4,2)].
  split; [vm_compute; reflexivity|]. split; [vm_compute; auto|].
  intros [_ [_ [H _]]]. vm_compute in H. discriminate.
Qed.
Print Assumptions C16_refuted_before_fix_F14.
(* F14, second half: the start step ran at most once *)
Theorem C16_refuted_before_fix_F14_start_step : exists xs ys s h,
  convex_hull_pre_F14 xs ys (Some s) = Some h /\ (2 < length h)%nat /\ ~ nocl s h.
Proof.
  exists [0;1;3;4], [0;-3;1#2;30], 3, [(0,0); (3,1#2); (4,30); (0,0)].
  split; [vm_compute; reflexivity|]. split; [vm_compute; auto|].
  intros [H _]. vm_compute in H. discriminate.
Qed.
Print Assumptions C16_refuted_before_fix_F14_start_step.
(* F6 (direction half): with the transposed direction an axis-aligned pair 4 tol apart is NOT inside the box:
   source p0 = (0,0) is strictly LEFT of the (clockwise) edge 1 -> 2 *)
Theorem C16_refuted_before_fix_F6 : exists p0 p1 v t,
  fst v * fst v + snd v * snd v == 1 /\ 0 < t /\
  let bx := box2_pre_F6 p0 p1 v t in 0 < cr (nth_pt bx 1) (nth_pt bx 2) p0.
Proof. exists (0,0), (4,0), (1,0), 1. vm_compute. repeat split; reflexivity. Qed.
Print Assumptions C16_refuted_before_fix_F6.


(* --- the ad-hoc tangent plane of RefCatalog (rotation order after fix dfbfda6, F11) --- *)
Theorem C16_refcat_rotation_mean_to_axis : forall c1 s1 c2 s2, c1 * c1 + s1 * s1 == 1 -> c2 * c2 + s2 * s2 == 1 ->
  eq3 (euler c1 s1 c2 s2 (dirv c1 s1 c2 s2)) (1, 0, 0).
Proof. exact euler_mean_to_x. Qed.
Print Assumptions C16_refcat_rotation_mean_to_axis.
Theorem C16_refcat_rotation_front_hemisphere : forall c1 s1 c2 s2 p,
  fst (fst (euler c1 s1 c2 s2 p)) == dot (dirv c1 s1 c2 s2) p.
Proof. exact euler_front_hemisphere. Qed.
Print Assumptions C16_refcat_rotation_front_hemisphere.
Theorem C16_refcat_rotation_orthogonal : forall c1 s1 c2 s2 p q, c1 * c1 + s1 * s1 == 1 -> c2 * c2 + s2 * s2 == 1 ->
  dot (euler c1 s1 c2 s2 p) (euler c1 s1 c2 s2 q) == dot p q.
Proof. exact euler_orthogonal. Qed.
Print Assumptions C16_refcat_rotation_orthogonal.
Theorem C16_refuted_before_fix_F11 : exists c1 s1 c2 s2, c1 * c1 + s1 * s1 == 1 /\ c2 * c2 + s2 * s2 == 1 /\
  ~ eq3 (legacy_euler c1 s1 c2 s2 (dirv c1 s1 c2 s2)) (1, 0, 0).
Proof. exact legacy_euler_refuted. Qed.
