(* C18 - correcting a FITS WCS changes only CRVAL and the linear matrix.
   Statements only; proofs in Proofs/CorrFits.v; model Model/CorrModel.v (record fwcs, fset, frun).
   Header I/O (to_header / from header) and the ValueError exits of the constructor are astropy / wcslib behaviour and
   are measured by harness/pC18.py. *)
From Coq Require Import QArith Qcanon List.
From TW Require Import CorrModel CorrAlgebra CorrFits.
Import ListNotations.
Open Scope Qc_scope.

(* record update: for every projection family, every reference plane and every correction, set_correction leaves
   CRPIX, CDELT, the CD-versus-PC representation, the pixel shape, CTYPE, SIP and all other attributes untouched *)
Theorem C18_only_crval_and_matrix_change :
  forall (proj proji : pt -> pt -> pt) (w : fwcs) (M : mat) (s : pt) (ref : option plane),
  let w' := fset proj proji w M s ref in
  f_crpix w' = f_crpix w /\ f_cdelt w' = f_cdelt w /\ f_haspc w' = f_haspc w /\ f_naxis w' = f_naxis w /\
  f_ctype w' = f_ctype w /\ f_sip w' = f_sip w /\ f_aux w' = f_aux w.
Proof. exact fset_preserves. Qed.
Print Assumptions C18_only_crval_and_matrix_change.

(* the same after every history of corrections (induction over the list) *)
Theorem C18_preserved_over_every_history :
  forall (proj proji : pt -> pt -> pt) (h : list (mat * pt)) (w : fwcs),
  let w' := frun proj proji w h in
  f_crpix w' = f_crpix w /\ f_cdelt w' = f_cdelt w /\ f_haspc w' = f_haspc w /\ f_naxis w' = f_naxis w /\
  f_ctype w' = f_ctype w /\ f_sip w' = f_sip w /\ f_aux w' = f_aux w.
Proof. exact frun_preserves. Qed.
Print Assumptions C18_preserved_over_every_history.

(* the stored matrix (PC or CD, whichever the WCS has) is multiplied by one matrix U on the right, and the effective
   CD matrix diag(cdelt).pc is multiplied by the same U:  diag(cdelt).(pc.U) = (diag(cdelt).pc).U *)
Theorem C18_matrix_update_is_right_multiplication :
  forall (proj proji : pt -> pt -> pt) (w : fwcs) (M : mat) (s : pt) (ref : option plane),
  exists U, f_lin (fset proj proji w M s ref) = mmul (f_lin w) U /\ f_cd (fset proj proji w M s ref) = mmul (f_cd w) U.
Proof. exact fset_lin. Qed.
Print Assumptions C18_matrix_update_is_right_multiplication.
Theorem C18_cdelt_commutes_with_update : forall (d : pt) (p U : mat), dmul d (mmul p U) = mmul (dmul d p) U.
Proof. exact dmul_mmul. Qed.
Print Assumptions C18_cdelt_commutes_with_update.

(* two WCSs with the same effective CD matrix, CRVAL, CRPIX and shape -- in particular a CD header and its PC+CDELT
   twin -- get the same corrected CD matrix, the same CRVAL and the same plane-to-sky map, for EVERY projection family *)
Theorem C18_cd_and_pc_twins_agree :
  forall (proj proji : pt -> pt -> pt) (a b : fwcs) (M : mat) (s : pt),
  f_cd a = f_cd b -> f_crval a = f_crval b -> f_crpix a = f_crpix b -> f_naxis a = f_naxis b ->
  f_cd (fset proj proji a M s None) = f_cd (fset proj proji b M s None) /\
  f_crval (fset proj proji a M s None) = f_crval (fset proj proji b M s None) /\
  forall v, f_t2w proj (fset proj proji a M s None) v = f_t2w proj (fset proj proji b M s None) v.
Proof. exact fits_twins. Qed.
Print Assumptions C18_cd_and_pc_twins_agree.

(* FULL (measured): "the corrected WCS survives a header round trip" and "non-celestial / missing WCS are rejected with
   ValueError" concern astropy.wcs I/O and the constructor's use of wcs.is_celestial; the content of SIP / lookup tables
   is opaque data (f_sip, f_aux) in the model. *)

(* non-vacuity: a PC+CDELT WCS and its CD twin, corrected by a shear with shift, in the flat instance *)
Definition twin_pc : fwcs :=
  {| f_crpix := (c10, c10); f_crval := (c100, c10); f_lin := {| m11 := 0; m12 := 1; m21 := - (1); m22 := 0 |};
     f_cdelt := (half, c2); f_haspc := true; f_naxis := (c100 * c10, c100 * c10); f_ctype := 1%nat; f_sip := [c2]; f_aux := [] |}.
Definition twin_cd : fwcs :=
  {| f_crpix := (c10, c10); f_crval := (c100, c10); f_lin := {| m11 := 0; m12 := half; m21 := - c2; m22 := 0 |};
     f_cdelt := (1, 1); f_haspc := false; f_naxis := (c100 * c10, c100 * c10); f_ctype := 1%nat; f_sip := [c2]; f_aux := [] |}.
Example C18_witness_twins :
  f_cd twin_pc = f_cd twin_cd /\
  f_haspc (fset flat_proj flat_proji twin_pc {| m11 := 1; m12 := half; m21 := 0; m22 := 1 |} (c2, 1) None) = true /\
  f_lin (fset flat_proj flat_proji twin_pc {| m11 := 1; m12 := half; m21 := 0; m22 := 1 |} (c2, 1) None) <> f_lin twin_pc /\
  f_crval (fset flat_proj flat_proji twin_pc {| m11 := 1; m12 := half; m21 := 0; m22 := 1 |} (c2, 1) None) <> f_crval twin_pc.
Proof.
  split; [unfold f_cd, twin_pc, twin_cd, dmul; cbn; f_equal; apply Qc_is_canon; reflexivity|].
  split; [reflexivity|]. split; vm_compute; intro H; inversion H.
Qed.
