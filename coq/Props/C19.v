(* C19 - no mutation of caller data: property theorems (statements only; proofs live in Proofs/OwnerSound.v).

   PARTIAL at proof level.  What is proved: soundness of the ownership checker that is evaluated, on every
   run, on the IR terms regenerated from the current source of the array-level entry points
   (iter_linear_fit, fit_shifts, fit_rscale, fit_rshift, fit_general, _compute_stat, _build_fit,
   build_fit_matrix, inv, convex_hull, _xy_2dhist, _estimate_2dhist_shift, _find_peak).
   The object-level entry points and repeatability are monitored on the implementation (harness/pC19.py). *)
(* FULL: for every API entry point incl. fit_wcs, align_wcs, XYXYMatch.__call__, set_correction, and every
      call sequence of length 1..3 on the same objects: all caller-owned arrays, tables, the reference
      catalog, ref_tpwcs and each corrector's original WCS are bit-identical after the call, and repeated
      calls give identical results. *)
From Coq Require Import List Bool Arith NArith.
From TW Require Import OwnerIR OwnerSound.
Import ListNotations.

(* If the checker accepts a translated function, then NO run of its statements - any order, any
   multiplicity, any resolution of may-alias, any behaviour of helper calls within their summaries -
   writes a location owned by the caller. *)
Theorem C19_checker_sound : forall params p (owned : loc -> Prop) s0 s',
  check params p = true ->
  (forall x l, env s0 x = Some l -> owned l -> In x params) ->
  (forall l, owned l -> (l < next s0)%nat) -> written s0 = [] ->
  run p s0 s' -> forall l, In l (written s') -> ~ owned l.
Proof. exact check_sound. Qed.
Print Assumptions C19_checker_sound.

(* Helper summaries are obligations on the helper's own body: whatever it writes is the object of a
   parameter listed in W, or was allocated by the helper. *)
Theorem C19_summary_sound : forall params W p s0 s',
  check_summary params W p = true ->
  (forall x l, env s0 x = Some l -> In x params) -> written s0 = [] ->
  run p s0 s' ->
  forall l, In l (written s') -> (exists w, In w W /\ env s0 w = Some l) \/ (next s0 <= l)%nat.
Proof. exact summary_sound. Qed.
Print Assumptions C19_summary_sound.

(* ... and therefore a whole run of the helper on the caller's objects is one CallW step of the caller *)
Theorem C19_call_abstraction : forall params W body (s0 s' : state) (xs : list var) (s : state),
  check_summary params W body = true ->
  (forall x l, env s0 x = Some l -> In x params) -> written s0 = [] -> wf s0 ->
  next s0 = next s ->
  (forall w l, In w W -> env s0 w = Some l -> exists x, In x xs /\ env s x = Some l) ->
  run body s0 s' ->
  step (CallW xs) s {| env := env s; next := (next s + (next s' - next s0))%nat;
                       written := written s' ++ written s |}.
Proof. exact call_abstraction. Qed.
Print Assumptions C19_call_abstraction.

(* ---------- non-vacuity ---------- *)
(* iter_linear_fit-like fragment.  0 = parameter xy;  1: xy = np.array(xy, dtype=longdouble);
   2: mask = np.ones(..);  3: t = xy[mask] (view or copy of 1);  xy[mask] -= c;  t *= 2   -> accepted *)
Definition frag_safe : prog :=
  [Assign 1 Fresh; Assign 2 Fresh; Assign 3 (MayAlias [1; 2]); Write 1; Write 3]%N.
Example C19_safe_program_accepted : check [0%N] frag_safe = true.
Proof. vm_compute. reflexivity. Qed.

(* the same with  xy = np.asarray(xy, dtype=longdouble)  (MayAlias)  and  xy[mask] -= c   -> rejected *)
Definition frag_unsafe : prog := [Assign 1 (MayAlias [0]); Assign 2 Fresh; Write 1]%N.
Example C19_unsafe_program_rejected :
  check [0%N] frag_unsafe = false /\ bad_writes [0%N] frag_unsafe = [1%N].
Proof. vm_compute. split; reflexivity. Qed.

(* ... and the rejection is not spurious: a concrete run of the semantics writes the caller's object
   (location 7, bound to parameter 0, nothing else allocated below 8) *)
Definition st0 : state :=
  {| env := fun x => if N.eqb x 0 then Some 7%nat else None; next := 8%nat; written := [] |}.
Example C19_unsafe_program_writes_caller_object :
  exists s', run frag_unsafe st0 s' /\ In 7%nat (written s') /\
             env st0 0%N = Some 7%nat /\ (7 < next st0)%nat /\ written st0 = [].
Proof.
  eexists. split.
  - eapply r_cons with (st := Assign 1%N (MayAlias [0%N])).
    + left. reflexivity.
    + eapply s_alias with (y := 0%N) (l := 7%nat); [right; reflexivity | left; reflexivity | reflexivity].
    + eapply r_cons with (st := Write 1%N).
      * right. right. left. reflexivity.
      * eapply s_write with (l := 7%nat). reflexivity.
      * apply r_nil.
  - simpl. repeat split; auto with arith.
Qed.

(* helper summaries: _compute_stat(fit, residuals, weights) writes its first parameter (fit['rmse'] = ..) *)
Definition helper_body : prog := [Assign 3 Fresh; Write 0; Write 3]%N.
Example C19_summary_witness :
  check_summary [0; 1; 2]%N [0%N] helper_body = true /\ check [0; 1; 2]%N helper_body = false.
Proof. vm_compute. split; reflexivity. Qed.
(* caller: fit = _build_fit(..) (fresh); _compute_stat(fit, ..) accepted; _compute_stat(param, ..) rejected *)
Example C19_call_witness :
  check [0%N] [Assign 1 Fresh; CallW [1]]%N = true /\
  check [0%N] [Assign 1 (Alias [0]); CallW [1]]%N = false.
Proof. vm_compute. split; reflexivity. Qed.
