(* C17 - matrix inversion: property theorems (statements only; proofs live in Proofs/) *)
From Coq Require Import QArith List Arith.
From TW Require Import GJModel GJSum GJProof3 GJProof5 GJComplete GJConverse3 LSQ LSQDegenerate.
Import ListNotations.
Open Scope Q_scope.

(* inv_gj mirrors tweakwcs.linalg.inv in exact arithmetic, for every order n *)
Theorem C17_inv_left_inverse : forall n a x, square n a -> inv_gj a = Ok x ->
  forall i l, (i < n)%nat -> (l < n)%nat ->
    vsum (seq 0 n) (fun j => mnth x i j * mnth a j l) == delta i l.
Proof. exact inv_gj_left_inverse. Qed.
Print Assumptions C17_inv_left_inverse.

Theorem C17_inv_right_inverse : forall n a x, square n a -> inv_gj a = Ok x ->
  forall i l, (i < n)%nat -> (l < n)%nat ->
    vsum (seq 0 n) (fun j => mnth a i j * mnth x j l) == delta i l.
Proof. exact inv_gj_right_inverse. Qed.
Print Assumptions C17_inv_right_inverse.

(* loud on singular input: any matrix with a non-trivial null vector is reported Singular *)
Theorem C17_inv_complete : forall n a (v : nat -> Q), square n a ->
  (forall i, (i < n)%nat -> vsum (seq 0 n) (fun j => mnth a i j * v j) == 0) ->
  (exists k, (k < n)%nat /\ ~ v k == 0) ->
  inv_gj a = Singular.
Proof. exact inv_gj_null_vector_singular. Qed.
Print Assumptions C17_inv_complete.

(* ... and ONLY then: a Singular verdict comes with an explicit non-trivial null vector of the input *)
Theorem C17_inv_singular_only_for_singular : forall n a, square n a -> inv_gj a = Singular ->
  exists w : nat -> Q, (exists x, (x < n)%nat /\ ~ w x == 0) /\
    forall i, (i < n)%nat -> vsum (seq 0 n) (fun j => mnth a i j * w j) == 0.
Proof. exact inv_gj_singular_has_null_vector. Qed.
Print Assumptions C17_inv_singular_only_for_singular.

(* total on regular input: a square matrix without non-trivial null vector is inverted (for every order) *)
Theorem C17_inv_total_on_regular : forall n a, square n a ->
  (forall w : nat -> Q, (forall i, (i < n)%nat -> vsum (seq 0 n) (fun j => mnth a i j * w j) == 0) ->
                        forall x, (x < n)%nat -> w x == 0) ->
  exists X, inv_gj a = Ok X.
Proof. exact inv_gj_total_on_regular. Qed.
Print Assumptions C17_inv_total_on_regular.

(* a regular result is only produced for square input *)
Theorem C17_inv_ok_only_square : forall a x, inv_gj a = Ok x -> square (length a) a.
Proof. exact inv_gj_ok_square. Qed.
Print Assumptions C17_inv_ok_only_square.

(* collinear / coincident (weighted) sources: the general fit reports a singular system *)
Theorem C17_collinear_raises : forall l a b c,
  (~ a == 0 \/ ~ b == 0 \/ ~ c == 0) ->
  (forall p, In p l -> pw p * (a * pu p + b * pv p + c) == 0) ->
  fit_general l = FitSingular.
Proof. exact fit_general_degenerate. Qed.
Print Assumptions C17_collinear_raises.

(* non-vacuity: a concrete regular matrix is inverted, a concrete singular one is rejected *)
Example C17_regular_witness :
  inv_gj [[0; 2]; [1; 1]] = Ok [[-1#2; 1]; [1#2; 0]] /\ square 2 [[0; 2]; [1; 1]].
Proof. split; [vm_compute; reflexivity| split; [reflexivity| intros r [<-|[<-|[]]]; reflexivity]]. Qed.
Example C17_singular_witness : inv_gj [[1; 2]; [2; 4]] = Singular.
Proof. vm_compute. reflexivity. Qed.
Example C17_collinear_witness :
  fit_general [ {| px := 0; py := 0; pu := 0; pv := 0; pw := 1 |};
                {| px := 1; py := 1; pu := 1; pv := 2; pw := 1 |};
                {| px := 2; py := 5; pu := 2; pv := 4; pw := 1 |} ] = FitSingular.
Proof. vm_compute. reflexivity. Qed.
