(* C06 - single-shot fits are the weighted least-squares optimum of their family *)
From Coq Require Import QArith List Arith Bool.
From TW Require Import GJModel LSQ Rscale Rscale2 Shift Recovery LinearFit Legacy Unique UniqueSim GeneralTotal.
Import ListNotations.
Open Scope Q_scope.

(* shift: the weighted mean displacement minimises the weighted SSR over all shifts *)
Theorem C06_shift_optimal : forall l s',
  (forall p, In p l -> 0 <= pw p) -> 0 < sumQ pw l ->
  ssr_shift (fit_shift l) l <= ssr_shift s' l.
Proof. exact fit_shift_optimal. Qed.
Print Assumptions C06_shift_optimal.

(* general affine: the solution through the Gauss-Jordan inverse of the moment matrix minimises the
   weighted SSR in x and in y over all coefficient triples, for every list and all non-negative weights *)
Theorem C06_general_optimal : forall l p q,
  fit_general l = FitOk p q -> (forall z, In z l -> 0 <= pw z) ->
  forall c', ssr l px p <= ssr l px c' /\ ssr l py q <= ssr l py c'.
Proof. exact fit_general_optimal. Qed.
Print Assumptions C06_general_optimal.

(* similarity incl. reflections (scale fitted): optimal over BOTH branches of the family *)
Theorem C06_rscale_optimal : forall l, 0 < sw l -> 0 < q2 l ->
  forall t, ssr_sim l (model l) <= ssr_sim l t.
Proof. exact rscale_optimal. Qed.
Print Assumptions C06_rscale_optimal.

(* ... and whichever admissible branch an implementation takes when the cross determinant is 0 *)
Theorem C06_rscale_optimal_any_branch : forall l, 0 < sw l -> forall f, 0 < q2 l -> okflip l f ->
  forall t, ssr_sim l (model_f l f (dn l f / q2 l) (nm l f / q2 l)) <= ssr_sim l t.
Proof. exact rscale_optimal_f. Qed.
Print Assumptions C06_rscale_optimal_any_branch.

(* rotation + shift at unit scale: any unit vector positively collinear with the moment direction is
   optimal among all unit-scale members of the family (proper and improper) *)
Theorem C06_rshift_optimal : forall l, 0 < sw l -> forall f c s, okflip l f ->
  c * c + s * s == 1 -> c * nm l f == s * dn l f -> 0 <= c * dn l f + s * nm l f ->
  forall t, sq (sa t) + sq (sb_ t) == 1 -> ssr_sim l (model_f l f c s) <= ssr_sim l t.
Proof. exact rshift_optimal_f. Qed.
Print Assumptions C06_rshift_optimal.

(* exact recovery of noise-free data, point by point *)
Theorem C06_general_exact_recovery : forall l, (forall z, In z l -> 0 <= pw z) -> forall p q c d,
  fit_general l = FitOk p q ->
  (forall z, In z l -> px z == qnth c 0 * pu z + qnth c 1 * pv z + qnth c 2) ->
  (forall z, In z l -> py z == qnth d 0 * pu z + qnth d 1 * pv z + qnth d 2) ->
  forall z, In z l -> 0 < pw z ->
    px z == qnth p 0 * pu z + qnth p 1 * pv z + qnth p 2 /\
    py z == qnth q 0 * pu z + qnth q 1 * pv z + qnth q 2.
Proof. exact general_exact_recovery. Qed.
Print Assumptions C06_general_exact_recovery.

Theorem C06_rscale_exact_recovery : forall l, 0 < sw l -> (forall z, In z l -> 0 <= pw z) -> 0 < q2 l ->
  forall t0,
  (forall z, In z l -> px z == sa t0 * pu z + sb_ t0 * pv z + s1 t0 /\
                       py z == f10 t0 * pu z + f11 t0 * pv z + s2 t0) ->
  forall z, In z l -> 0 < pw z ->
    px z == sa (model l) * pu z + sb_ (model l) * pv z + s1 (model l) /\
    py z == f10 (model l) * pu z + f11 (model l) * pv z + s2 (model l).
Proof. exact rscale_exact_recovery. Qed.
Print Assumptions C06_rscale_exact_recovery.

(* totality: data containing three positively weighted non-collinear sources are always fitted *)
Theorem C06_general_total : forall l a b c, (forall z, In z l -> 0 <= pw z) ->
  In a l -> In b l -> In c l -> 0 < pw a -> 0 < pw b -> 0 < pw c -> noncollinear3 a b c ->
  exists p q, fit_general l = FitOk p q.
Proof. exact fit_general_total. Qed.
Print Assumptions C06_general_total.

(* uniqueness: for data containing three positively weighted non-collinear sources, any coefficient triple that
   does as well as the general fit IS the general fit (so "agrees with an independent exact solution") *)
Theorem C06_general_unique : forall l, (forall z, In z l -> 0 <= pw z) -> forall p q a b c,
  fit_general l = FitOk p q ->
  In a l -> In b l -> In c l -> 0 < pw a -> 0 < pw b -> 0 < pw c -> noncollinear3 a b c ->
  forall c', (ssr l px c' <= ssr l px p -> qnth c' 0 == qnth p 0 /\ qnth c' 1 == qnth p 1 /\ qnth c' 2 == qnth p 2) /\
             (ssr l py c' <= ssr l py q -> qnth c' 0 == qnth q 0 /\ qnth c' 1 == qnth q 1 /\ qnth c' 2 == qnth q 2).
Proof. exact general_fit_unique. Qed.
Print Assumptions C06_general_unique.

(* ... and for the similarity family when the centred cross determinant does not vanish (i.e. the data tell a
   rotation from a reflection): any member doing as well as the fit has the fit's branch, matrix and shift *)
Theorem C06_rscale_unique : forall l, 0 < sw l -> 0 < q2 l -> forall t, ~ detc l == 0 ->
  ssr_sim l t <= ssr_sim l (model l) ->
  sflip t = flip l /\ sa t == sa (model l) /\ sb_ t == sb_ (model l) /\
  s1 t == s1 (model l) /\ s2 t == s2 (model l).
Proof. exact rscale_unique. Qed.
Print Assumptions C06_rscale_unique.

(* non-vacuity and the special-angle inputs of finding F1: exact 45 degree x sqrt 2 lattice *)
Definition lat45 : list pr :=
  map (fun uv : Q * Q => {| px := fst uv + snd uv; py := snd uv - fst uv; pu := fst uv; pv := snd uv; pw := 1 |})
      [(0, 0); (1, 0); (0, 1); (1, 1); (2, 1)].
Example C06_rscale_45deg :
  fit_rscale_out lat45 = OutAffine 1 1 (-1) 1 0 0 /\ 0 < sw lat45 /\ 0 < q2 lat45.
Proof. vm_compute. repeat split; reflexivity. Qed.
Example C06_general_45deg : fit_general_out lat45 = OutAffine 1 1 (-1) 1 0 0.
Proof. vm_compute. reflexivity. Qed.

(* the code before fix 0cfae33 (F1) was not optimal on this input *)
Theorem C06_refuted_before_fix_F1 : exists l, 0 < sw l /\ 0 < q2 l /\
  ssr_sim l (model l) < ssr_sim l (legacy_rscale_F1 l).
Proof. exists lat45. vm_compute. repeat split; reflexivity. Qed.

(* the code before fix 060c4f2 (F12): weighted two-point fit, collinear uv *)
Definition two_pt : list pr :=
  [ {| px := 0; py := 3; pu := 2; pv := 2; pw := 1 |}; {| px := -2; py := 5; pu := 4; pv := 4; pw := 2 |} ].
Theorem C06_refuted_before_fix_F12 : exists l, 0 < sw l /\ 0 < q2 l /\
  ssr_sim l (model l) < ssr_sim l (legacy_rscale_F12 l).
Proof. exists two_pt. vm_compute. repeat split; reflexivity. Qed.

(* --- the trigonometric formulation of the code equals the rational normal form of the model (over R; these two
       theorems depend on the standard library's real-number axioms, listed by Print Assumptions) --- *)
From Coq Require Import Reals.
From TW Require Import Atan2 RscaleBridge.

(* fit_rscale: theta = arctan2(num, den) (+ 360 deg if negative), mag = (den cos theta + num sin theta) / su2v2:
   mag cos theta = den / su2v2 and mag sin theta = num / su2v2, i.e. the matrix entries ma, mb of the model *)
Theorem C06_rscale_code_form_is_model_form : forall num den q2 : R, (den <> 0 \/ num <> 0)%R -> (0 < q2)%R ->
  (s_num num den / q2 * cos (theta num den) = den / q2 /\ s_num num den / q2 * sin (theta num den) = num / q2)%R.
Proof. exact rscale_trig_form. Qed.
Print Assumptions C06_rscale_code_form_is_model_form.

(* fit_rshift (scale fixed to 1): (cos theta, sin theta) is a unit vector positively collinear with (den, num) -
   exactly the hypotheses under which C06_rshift_optimal proves optimality *)
Theorem C06_rshift_code_form_meets_optimality_hypotheses : forall num den : R, (den <> 0 \/ num <> 0)%R ->
  (cos (theta num den) * cos (theta num den) + sin (theta num den) * sin (theta num den) = 1 /\
   cos (theta num den) * num = sin (theta num den) * den /\
   0 <= cos (theta num den) * den + sin (theta num den) * num)%R.
Proof. exact rshift_trig_form. Qed.
Print Assumptions C06_rshift_code_form_meets_optimality_hypotheses.
