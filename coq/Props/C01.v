(* C01 - an exact affine error is recovered by the fit and removed by the applied correction:
   "exact recovery o applied correction" in the abstract corrector model (external transforms = Section
   variables with inverse-pair hypotheses), for every fit family, every weighting, every correction history. *)
From Coq Require Import QArith Qcanon List Bool.
From TW Require Import LSQ Rscale Rscale2 Shift LinearFit AlignFit AlignFitQ Corrector AlignFitProofs LegacyAlignFit.
Import ListNotations.

(* ---------- rational level: the fit reproduces noise-free data of a family member, reported rmse = 0 ---------- *)
Theorem C01_fit_reproduces : forall (g : geom) (l : list pr) (F G : qaff),
  (forall z, In z l -> (0 <= pw z)%Q) -> fit_aff g l = Some F -> generated_by G l ->
  match g with GShift => is_shift G | GRscale => is_sim G | _ => True end ->
  reproduces F l.
Proof. exact fit_aff_reproduces. Qed.
Print Assumptions C01_fit_reproduces.

Theorem C01_reported_rmse_zero : forall (F : qaff) (l : list pr),
  (forall z, In z l -> (0 <= pw z)%Q) -> reproduces F l -> (ssr_q l F == 0)%Q.
Proof. exact reproduces_ssr_zero. Qed.
Print Assumptions C01_reported_rmse_zero.

(* rshift (unit scale): any output meeting the specification of fit_rshift reproduces the data *)
Theorem C01_rshift_reproduces : forall l, (0 < sw l)%Q -> (forall z, In z l -> (0 <= pw z)%Q) -> forall f c s,
  okflip l f -> (c * c + s * s == 1)%Q -> (c * nm l f == s * dn l f)%Q -> (0 <= c * dn l f + s * nm l f)%Q ->
  forall t0, (sq (sa t0) + sq (sb_ t0) == 1)%Q ->
  (forall z, In z l -> (px z == sa t0 * pu z + sb_ t0 * pv z + s1 t0)%Q /\
                       (py z == f10 t0 * pu z + f11 t0 * pv z + s2 t0)%Q) ->
  let m := model_f l f c s in
  forall z, In z l -> (0 < pw z)%Q ->
    (px z == sa m * pu z + sb_ m * pv z + s1 m)%Q /\ (py z == f10 m * pu z + f11 m * pv z + s2 m)%Q.
Proof. exact rshift_exact_recovery. Qed.
Print Assumptions C01_rshift_reproduces.

Open Scope Qc_scope.

(* ---------- JWST gWCS corrector, own tangent plane (fit_wcs / align_wcs without ref_tpwcs), ANY history ---------- *)
Section GWCS_own.
Variables Det V Sky : Type.
Variable D : Det -> V.        (* detector -> v2v3 *)
Variable T : V -> pt.         (* v2v3 -> tangent plane *)
Variable Ti : pt -> V.
Variable S : V -> Sky.        (* v2v3corr -> world *)
Variable Si : Sky -> V.
Hypothesis T_Ti : forall t, T (Ti t) = t.
Hypothesis Ti_T : forall v, Ti (T v) = v.
Hypothesis S_Si : forall w, S (Si w) = w.
Hypothesis Si_S : forall v, Si (S v) = v.

(* hs: the list of earlier corrections (0, 1, 2, ... alignments); cat: (pixel, matched reference sky position,
   effective weight); G: the true affine error in the image's tangent plane, a member of the family g.
   If the fit of family g on the positively weighted pairs succeeds (data not degenerate) with result F, then
   after set_correction(F) the corrected WCS maps every positively weighted catalog pixel EXACTLY onto its
   reference position, the residual measured through the corrected WCS in the tangent plane is zero, and the
   reported sum of squared residuals (rmse^2 * total weight) is zero. *)
Theorem C01_gwcs_exact : forall (g : geom) (hs : list aff) (cat : list (own_src Det Sky)) (G : aff) (F : qaff),
  let A := history hs in
  (forall s, In s cat -> (0 < o_w Det Sky s)%Q ->
     w2t V Sky T Si A (o_ref Det Sky s) = app G (d2t Det V D T A (o_pix Det Sky s))) ->
  in_family g G ->
  fit_aff g (own_pairs Det V Sky D T Ti S Si A cat) = Some F ->
  (forall s, In s cat -> (0 < o_w Det Sky s)%Q ->
     d2w Det V Sky D T Ti S (set_correction A (c_of_q F)) (o_pix Det Sky s) = o_ref Det Sky s /\
     w2t V Sky T Si A (d2w Det V Sky D T Ti S (set_correction A (c_of_q F)) (o_pix Det Sky s))
       = w2t V Sky T Si A (o_ref Det Sky s)) /\
  (ssr_q (own_pairs Det V Sky D T Ti S Si A cat) F == 0)%Q.
Proof. exact (C01_gwcs_own Det V Sky D T Ti S Si T_Ti Ti_T S_Si Si_S). Qed.
End GWCS_own.
Print Assumptions C01_gwcs_exact.

(* ---------- gWCS members aligned through a reference plane (ref_tpwcs, groups) ---------- *)
Section GWCS_ref.
Variable Sky : Type.
Variable Bw2t : Sky -> pt.    (* ref_tpwcs.world_to_tanp *)
Variable Bt2w : pt -> Sky.    (* ref_tpwcs.tanp_to_world *)
Hypothesis B_wt : forall t, Bw2t (Bt2w t) = t.
Hypothesis B_tw : forall w, Bt2w (Bw2t w) = w.
Variables I Det V : Type.
Variable D : I -> Det -> V.
Variable T : I -> V -> pt.
Variable Ti : I -> pt -> V.
Variable S : I -> V -> Sky.
Variable Si : I -> Sky -> V.
Hypothesis Ti_T : forall i v, Ti i (T i v) = v.
Hypothesis S_Si : forall i w, S i (Si i w) = w.
Variable R : I -> aff.        (* _tp2tp(ref_tpwcs, member i), the plane-to-plane map being affine *)
Hypothesis HR : forall i t, T i (Si i (Bt2w t)) = app (R i) t.
Hypothesis detR : forall i, det (R i) <> 0.

Theorem C01_gwcs_ref_exact : forall (g : geom) (A : I -> aff) (cat : list (src Sky I Det)) (G : aff) (F : qaff),
  error_is Sky Bw2t I Det V D T Ti S A cat G -> in_family g G ->
  fit_aff g (pairs Sky Bw2t I Det V D T Ti S A cat) = Some F ->
  (forall s, In s cat -> (0 < s_w Sky I Det s)%Q ->
     gd2w Sky I Det V D T Ti S (apply_affine I R A (c_of_q F)) (s_mem Sky I Det s) (s_pix Sky I Det s)
       = s_ref Sky I Det s /\
     Bw2t (gd2w Sky I Det V D T Ti S (apply_affine I R A (c_of_q F)) (s_mem Sky I Det s) (s_pix Sky I Det s))
       = Bw2t (s_ref Sky I Det s)) /\
  (ssr_q (pairs Sky Bw2t I Det V D T Ti S A cat) F == 0)%Q.
Proof. exact (C01_group_exact Sky Bw2t Bt2w B_wt B_tw I Det V D T Ti S Si Ti_T S_Si R HR detR). Qed.

Theorem C01_gwcs_ref_exact_rshift : forall (A : I -> aff) (cat : list (src Sky I Det)) (G : aff) (f : bool) (c s : Q),
  error_is Sky Bw2t I Det V D T Ti S A cat G -> in_family GRshift G ->
  let l := pairs Sky Bw2t I Det V D T Ti S A cat in
  (0 < sw l)%Q -> okflip l f -> (c * c + s * s == 1)%Q -> (c * nm l f == s * dn l f)%Q ->
  (0 <= c * dn l f + s * nm l f)%Q ->
  let F := sim_q (model_f l f c s) in
  (forall z, In z cat -> (0 < s_w Sky I Det z)%Q ->
     gd2w Sky I Det V D T Ti S (apply_affine I R A (c_of_q F)) (s_mem Sky I Det z) (s_pix Sky I Det z)
       = s_ref Sky I Det z /\
     Bw2t (gd2w Sky I Det V D T Ti S (apply_affine I R A (c_of_q F)) (s_mem Sky I Det z) (s_pix Sky I Det z))
       = Bw2t (s_ref Sky I Det z)) /\
  (ssr_q l F == 0)%Q.
Proof. exact (C01_group_exact_rshift Sky Bw2t Bt2w B_wt B_tw I Det V D T Ti S Si Ti_T S_Si R HR detR). Qed.
End GWCS_ref.
Print Assumptions C01_gwcs_ref_exact.
Print Assumptions C01_gwcs_ref_exact_rshift.

(* ---------- FITS corrector: flat-sky instance, literal set_correction (CRVAL update, 5-point stencil, cd.U) ----- *)
(* FULL (not provable here: it needs real analysis of the gnomonic projection; MEASURED on every run by
   harness/pC01.py against the stated bound):
     for a TAN (-SIP) WCS with pixel scale `scale` [rad/px], catalog radius rho [px] about CRPIX, tangent point of
     the reference plane `sep` [px] away, and a correction displacing the sources/CRPIX by at most Dmax [px],
       | corrected.det_to_world(p_k) - ref_k |  <=  4 * Dmax * (rho + sep)^2 * scale^2  [px]  + rounding floor
     (the floor, 2e-6 arcsec, is the rounding noise of the 5-point numerical differentiation). *)
Section FITS_flat.
Variable Det : Type.
Variable Fd : Det -> pt.      (* pix2foc: pixel -> undistorted tangent-plane coordinates (any SIP distortion) *)
Variable Bm : aff.            (* reference plane -> flat sky (own copy or any other flat plane) *)
Variables hx hy : Qc.         (* differentiation steps *)
Hypothesis Hb : det Bm <> 0.
Hypothesis Hx : hx <> 0.
Hypothesis Hy : hy <> 0.

Theorem C01_fits_flat_exact_partial : forall (g : geom) (st : fits) (cat : list (fsrc Det)) (G : aff) (F : qaff),
  det (cd st) <> 0 -> det (c_of_q F) <> 0 ->
  (forall s, In s cat -> (0 < f_w Det s)%Q ->
     app (inva Bm) (f_ref Det s) = app G (app (inva Bm) (fd2w Det Fd st (f_pix Det s)))) ->
  in_family g G -> fit_aff g (fpairs Det Fd Bm st cat) = Some F ->
  (forall s, In s cat -> (0 < f_w Det s)%Q ->
     fd2w Det Fd (fits_set_correction Bm hx hy st (c_of_q F)) (f_pix Det s) = f_ref Det s) /\
  (ssr_q (fpairs Det Fd Bm st cat) F == 0)%Q.
Proof. exact (C01_fits_flat_exact Det Fd Bm hx hy Hb Hx Hy). Qed.
End FITS_flat.
Print Assumptions C01_fits_flat_exact_partial.

(* ---------- non-vacuity witnesses ---------- *)
Open Scope Q_scope.
(* four sources, exact general-affine / similarity / shift data, unequal weights incl. a zero weight *)
Definition wG : qaff := {| g00 := 5 # 4; g01 := 1 # 8; g10 := -3 # 16; g11 := 7 # 8; h0 := 3; h1 := -2 # 1 |}.
Definition wSim : qaff := {| g00 := 6 # 5; g01 := 8 # 5; g10 := -8 # 5; g11 := 6 # 5; h0 := 1 # 2; h1 := -7 # 1 |}.
Definition wRefl : qaff := {| g00 := 3 # 5; g01 := 4 # 5; g10 := 4 # 5; g11 := -3 # 5; h0 := 0; h1 := 1 |}.
Definition wShift : qaff := {| g00 := 1; g01 := 0; g10 := 0; g11 := 1; h0 := 17 # 4; h1 := -9 # 8 |}.
Definition wdata (G : qaff) : list pr :=
  map (fun t : Q * Q * Q => let '(u, v, w) := t in
         {| px := fst (qapp G (u, v)); py := snd (qapp G (u, v)); pu := u; pv := v; pw := w |})
      [(0, 0, 1); (10, 1, 2); (3, 12, 1 # 2); (-7, 5, 3); (100, -100, 0)].
Example C01_witness_fits :
  fit_aff GGeneral (wdata wG) = Some wG /\ fit_aff GRscale (wdata wSim) = Some wSim /\
  fit_aff GRscale (wdata wRefl) = Some wRefl /\ fit_aff GShift (wdata wShift) = Some wShift /\
  fit_aff GGeneral (wdata wSim) = Some wSim /\
  ssr_q (wdata wG) wG == 0 /\ 0 < sw (wdata wG).
Proof. vm_compute. repeat split; reflexivity. Qed.

(* the abstract model instantiated with identity external transforms, a history of two non-commuting
   corrections, and a catalog whose reference positions are G of the current tangent-plane positions:
   the fit returns G and the corrected WCS maps every pixel onto its reference *)
Open Scope Qc_scope.
Definition cM1 : aff := {| a11 := 1; a12 := 1; a21 := 0; a22 := 1; b1 := 1; b2 := 0 |}.
Definition cM2 : aff := {| a11 := 1; a12 := 0; a21 := 1; a22 := 1; b1 := 0; b2 := 1 + 1 |}.
Definition cG : aff := c_of_q wG.
Definition idp (v : pt) : pt := v.
Definition wsrc (x y : Qc) (w : Q) : own_src pt pt :=
  Build_src pt unit pt tt (x, y) (app cG (app (history [cM1; cM2]) (x, y))) w.
Definition wcat : list (own_src pt pt) :=
  [wsrc 0 0 1; wsrc (1 + 1) 1 (1 # 2); wsrc 1 (1 + 1 + 1) 2; wsrc (- (1)) (1 + 1) 1].
Definition pt_eqb (a b : pt) : bool := Qeq_bool (fst a) (fst b) && Qeq_bool (snd a) (snd b).
Example C01_witness_model :
  fit_aff GGeneral (own_pairs pt pt pt idp idp idp idp idp (history [cM1; cM2]) wcat) = Some wG /\
  forallb (fun s => pt_eqb (w2t pt pt idp idp (history [cM1; cM2]) (o_ref pt pt s))
                           (app cG (d2t pt pt idp idp (history [cM1; cM2]) (o_pix pt pt s)))) wcat = true /\
  forallb (fun s => pt_eqb (d2w pt pt pt idp idp idp idp (set_correction (history [cM1; cM2]) (c_of_q wG)) (o_pix pt pt s))
                           (o_ref pt pt s)) wcat = true.
Proof. vm_compute. repeat split; reflexivity. Qed.

(* ---------- the code before repair c5e1453 (F7): already corrected gWCS, A and G do not commute ---------- *)
Theorem C01_refuted_before_fix_F7 : exists (A G : aff) (t0 : pt),
  leg_after_fit A G t0 <> leg_reference A G t0.
Proof.
  exists cM1, cM2, (1, 0). vm_compute. intro H. inversion H.
Qed.
Print Assumptions C01_refuted_before_fix_F7.
