(* C13 - align_wcs leaves a complete, truthful status on every input and no half-updates.
   Statements only; proofs live in Proofs/Align{Groups,Loop,Thm}.v.  The model is Model/AlignModel.v; it is tied
   to tweakwcs.imalign.align_wcs by the per-run correspondence Corr/C13Corr.v.

   Reading of the property in the model: `st_of R i` is the status class of input i (Failed r: r = 0 'empty source
   catalog', r = 1 'not enough matches', r = 2 the fit raised NotEnoughPointsError / SingularMatrixError), `corr_of R i` the number of set_correction calls it received (a corrector
   that received none has the sky mapping it came in with - that link is checked on the implementation, bit for bit,
   on every run), `r_exc R` the raised exception class.  All theorems hold for EVERY input list, option vector and
   EVERY oracle (matcher/fit outcome, overlap areas, ordering). *)
From Coq Require Import List Bool Arith ZArith Lia.
From TW Require Import AlignModel LegacyAlign AlignGroups AlignLoop AlignThm AlignExamples.
Import ListNotations.

(* the groups partition the input positions: every position lies in a group, no group is empty, and two groups
   that share a position are the same group *)
Theorem C13_groups_partition : forall ims,
  (forall i, i < length ims <-> exists g, In g (groups ims) /\ In i g) /\
  (forall g, In g (groups ims) -> g <> []) /\
  NoDup (groups ims) /\
  (forall a b i, In a (groups ims) -> In b (groups ims) -> In i a -> In i b -> a = b).
Proof. exact groups_partition. Qed.
Print Assumptions C13_groups_partition.

(* on normal return every input has exactly one status, and it is REFERENCE, SUCCESS or FAILED:<reason> *)
Theorem C13_status_total : forall ims o orc, r_exc (align ims o orc) = None -> forall i, i < length ims ->
  st_of (align ims o orc) i = Reference \/ st_of (align ims o orc) i = Success \/
  exists r, st_of (align ims o orc) i = Failed r.
Proof. exact status_total. Qed.
Print Assumptions C13_status_total.

(* exactly one group is REFERENCE iff no reference catalog was supplied *)
Theorem C13_reference_iff_no_refcat : forall ims o orc, r_exc (align ims o orc) = None ->
  (o_ref o = RefNone ->
     exists g, In g (groups ims) /\ g <> [] /\
               forall i, i < length ims -> (st_of (align ims o orc) i = Reference <-> In i g)) /\
  (o_ref o <> RefNone -> forall i, i < length ims -> st_of (align ims o orc) i <> Reference).
Proof. exact reference_iff_no_refcat. Qed.
Print Assumptions C13_reference_iff_no_refcat.

(* members of a group have equal results (status class and number of corrections; the equality of the numerical
   fit dictionaries is checked on the implementation) *)
Theorem C13_members_share : forall ims o orc, r_exc (align ims o orc) = None ->
  forall g i j, In g (groups ims) -> In i g -> In j g ->
  st_of (align ims o orc) i = st_of (align ims o orc) j /\ corr_of (align ims o orc) i = corr_of (align ims o orc) j.
Proof. exact members_share. Qed.
Print Assumptions C13_members_share.

(* SUCCESS <-> corrected exactly once; REFERENCE / FAILED <-> never corrected *)
Theorem C13_corrections_exact : forall ims o orc, r_exc (align ims o orc) = None -> forall i, i < length ims ->
  corr_of (align ims o orc) i = match st_of (align ims o orc) i with Success => 1 | _ => 0 end.
Proof. exact corrections_exact. Qed.
Print Assumptions C13_corrections_exact.

(* any raise happens before any WCS is modified *)
Theorem C13_raise_no_correction : forall ims o orc e, r_exc (align ims o orc) = Some e ->
  forall i, corr_of (align ims o orc) i = 0.
Proof. exact raise_no_correction. Qed.
Print Assumptions C13_raise_no_correction.

(* NotEnoughCatalogs iff (valid arguments and) fewer than 2 non-empty groups without refcat, fewer than 1 with *)
Theorem C13_not_enough_iff : forall ims o orc,
  r_exc (align ims o orc) = Some ExcNotEnough <->
  (check_args o = None /\ length (live_groups ims) < need o).
Proof. exact not_enough_iff. Qed.
Print Assumptions C13_not_enough_iff.
Theorem C13_live_groups_spec : forall ims g,
  In g (live_groups ims) <-> In g (groups ims) /\ exists i, In i g /\ is_nonempty ims i = true.
Proof. exact live_groups_spec. Qed.
Print Assumptions C13_live_groups_spec.

(* invalid arguments raise (never NotEnoughCatalogs), before any WCS is modified *)
Theorem C13_invalid_args_raise : forall ims o orc e stg, check_args o = Some (e, stg) ->
  r_exc (align ims o orc) = Some e /\ e <> ExcNotEnough /\ forall i, corr_of (align ims o orc) i = 0.
Proof. exact invalid_args_raise. Qed.
Print Assumptions C13_invalid_args_raise.

(* ---------------- non-vacuity: a concrete mixed run ---------------- *)
Example C13_mixed_run_witness :
  let R := align ex_ims (ok_opts RefNone true true) ex_orc in
  r_exc R = None /\ r_st R = [Reference; Success; Failed 0; Success; Failed 1] /\ r_corr R = [0; 1; 0; 1; 0] /\
  r_order R = [[0]; [1; 3]; [4]].
Proof. vm_compute. repeat split. Qed.
Example C13_not_enough_witness :
  r_exc (align [ {| gid := None; nonempty := true |}; {| gid := Some 1; nonempty := false |} ]
               (ok_opts RefNone false true) ex_orc) = Some ExcNotEnough /\
  r_exc (align [ {| gid := None; nonempty := true |}; {| gid := Some 1; nonempty := false |} ]
               (ok_opts (RefTable true [1%Z]) false true) ex_orc) = None.
Proof. vm_compute. split; reflexivity. Qed.
Example C13_invalid_args_witness :
  r_exc (align ex_ims {| o_wcscat_ok := true; o_cats_ok := true; o_fitgeom_ok := false; o_minobj := None;
                         o_ref := RefBadType; o_expand := false; o_enforce := true |} ex_orc) = Some ExcValue.
Proof. vm_compute. reflexivity. Qed.

(* ---------------- the defect repaired by F8 (aa26d49), against the frozen pre-fix model ---------------- *)
(* one good and one EMPTY ungrouped image, no reference catalog: a single non-empty catalog, yet the old code
   returned normally (the empty image was 'aligned': FAILED: not enough matches) instead of NotEnoughCatalogs *)
Theorem C13_refuted_before_fix_F8 : exists ims o orc,
  check_args o = None /\ length (live_groups ims) < need o /\
  r_exc (align_legacy false true false false ims o orc) = None /\
  r_exc (align ims o orc) = Some ExcNotEnough.
Proof.
  exists [ {| gid := None; nonempty := true |}; {| gid := None; nonempty := false |} ],
         (ok_opts RefNone false true), ex_orc.
  split; [reflexivity|]. split; [vm_compute; lia|]. split; vm_compute; reflexivity.
Qed.
Print Assumptions C13_refuted_before_fix_F8.
(* the same defect, empty image first: the old code crashed with ValueError in RefCatalog although two non-empty
   catalogs were present *)
Example C13_F8_empty_first_crashed :
  let ims := [ {| gid := None; nonempty := false |}; {| gid := None; nonempty := true |};
               {| gid := None; nonempty := true |} ] in
  r_exc (align_legacy false true false false ims (ok_opts RefNone false true) ex_orc) = Some ExcValue /\
  r_exc (align ims (ok_opts RefNone false true) ex_orc) = None.
Proof. vm_compute. split; reflexivity. Qed.

(* ---------------- the defect repaired by F16 (e6a7246) ---------------- *)
(* unsupported fitgeom together with an explicit minobj, no group reaches the fit: the old code returned normally;
   the repaired model raises ValueError at the fitgeom check, before anything else *)
Theorem C13_refuted_before_fix_F16 : exists ims o orc,
  o_fitgeom_ok o = false /\
  r_exc (align_legacy false false true false ims o orc) = None /\
  r_exc (align ims o orc) = Some ExcValue /\ r_stage (align ims o orc) = 3.
Proof.
  exists [ {| gid := None; nonempty := true |}; {| gid := None; nonempty := true |} ],
         {| o_wcscat_ok := true; o_cats_ok := true; o_fitgeom_ok := false; o_minobj := Some 5; o_ref := RefNone;
            o_expand := false; o_enforce := true |},
         {| pick_ref := fun _ => 0; pick := fun _ _ => 0; outcome := fun _ _ => Fails 16;
            area0 := fun _ _ => false; gids := fun _ => [1%Z] |}.
  split; [reflexivity|]. split; [vm_compute; reflexivity|]. split; vm_compute; reflexivity.
Qed.
Print Assumptions C13_refuted_before_fix_F16.

(* ---------------- the defect repaired by F17 (fad3ab2) ---------------- *)
(* three images, the second aligns, the fit of the third raises (e.g. minobj = 1, fitgeom general, 2 matches): the
   old code let the exception escape AFTER input 1 had been corrected and left input 2 without any status; the
   repaired model returns normally with input 2 FAILED and the correction of input 1 intact *)
Theorem C13_refuted_before_fix_F17 : exists ims o orc,
  check_args o = None /\
  (exists e, r_exc (align_legacy false false false true ims o orc) = Some e) /\
  corr_of (align_legacy false false false true ims o orc) 1 = 1 /\
  st_of (align_legacy false false false true ims o orc) 2 = Unset /\
  r_exc (align ims o orc) = None /\ r_st (align ims o orc) = [Reference; Success; Failed 2] /\
  r_corr (align ims o orc) = [0; 1; 0].
Proof.
  exists [ {| gid := None; nonempty := true |}; {| gid := None; nonempty := true |}; {| gid := None; nonempty := true |} ],
         (ok_opts RefNone false true), f17_orc.
  split; [reflexivity|]. split; [exists ExcFit; vm_compute; reflexivity|].
  split; [vm_compute; reflexivity|]. split; [vm_compute; reflexivity|].
  split; [vm_compute; reflexivity|]. split; vm_compute; reflexivity.
Qed.
Print Assumptions C13_refuted_before_fix_F17.
(* the fit-raised outcome in the repaired model: FAILED, never corrected, the loop goes on (image 3 still aligned) *)
Example C13_fit_raises_is_failed :
  let ims := [ {| gid := None; nonempty := true |}; {| gid := None; nonempty := true |};
               {| gid := None; nonempty := true |}; {| gid := None; nonempty := true |} ] in
  let R := align ims (ok_opts RefNone true true) f17_orc in
  r_exc R = None /\ r_st R = [Reference; Success; Failed 2; Success] /\ r_corr R = [0; 1; 0; 1] /\
  r_order R = [[0]; [1]; [2]; [3]].
Proof. vm_compute. repeat split. Qed.
