(* C15 - overlap-driven ordering: property theorems (statements only; proofs live in Proofs/) *)
From Coq Require Import QArith List Bool Arith Permutation Sorting.Sorted.
From TW Require Import OverlapModel LegacyOverlap OverlapProofs GroupingProofs.
Import ListNotations.
Open Scope Q_scope.

(* max_overlap_pair n (omat ov) enforce mirrors imalign._max_overlap_pair on a list of n images whose pairwise
   sky overlap is ov (symmetric, non-negative); images are named by their position in the input list.

   Order optimised (three or more images), EVERY list length and EVERY overlap function:
   the returned pair (r = reference, s = first image) attains the largest overlap of all pairs, the reference is
   the one with the larger total overlap, the reported area is the overlap of exactly r and s, the work list loses
   exactly r and s, and what remains is ordered by non-increasing overlap with the reference. *)
Theorem C15_pair_optimised : forall ov : nat -> nat -> Q,
  (forall a b, 0 <= ov a b) -> (forall a b, ov a b == ov b a) ->
  forall n, (3 <= n)%nat ->
  exists r s v rest,
    max_overlap_pair n (omat ov) false = {| p_ref := Some r; p_sec := Some s; p_area := Some v; p_rest := rest |} /\
    (r < n)%nat /\ (s < n)%nat /\ r <> s /\
    (forall a b, (a < n)%nat -> (b < n)%nat -> a <> b -> ov a b <= ov r s) /\
    total_overlap n ov s <= total_overlap n ov r /\
    v == ov r s /\
    Permutation (r :: s :: rest) (seq 0 n) /\
    StronglySorted (fun a b => ov r b <= ov r a) rest.
Proof. exact pair_optimised_spec. Qed.
Print Assumptions C15_pair_optimised.

(* user order enforced (or exactly two images): the first two images in list order, the area of exactly that pair,
   the rest of the work list untouched *)
Theorem C15_pair_user_order : forall (ov : nat -> nat -> Q) n enforce, (2 <= n)%nat -> (n = 2%nat \/ enforce = true) ->
  max_overlap_pair n (omat ov) enforce =
    {| p_ref := Some 0%nat; p_sec := Some 1%nat; p_area := Some (ov 0%nat 1%nat); p_rest := seq 2 (n - 2) |}.
Proof. exact pair_user_spec. Qed.
Print Assumptions C15_pair_user_order.

(* fewer than two images: nothing to pair, nothing removed *)
Theorem C15_pair_short : forall (m : nat -> nat -> Q) enforce,
  max_overlap_pair 0 m enforce = {| p_ref := None; p_sec := None; p_area := None; p_rest := [] |} /\
  max_overlap_pair 1 m enforce = {| p_ref := Some 0%nat; p_sec := None; p_area := None; p_rest := [0%nat] |}.
Proof. exact max_overlap_pair_short. Qed.
Print Assumptions C15_pair_short.

(* max_overlap_image enforce v mirrors imalign._max_overlap_image; v = overlaps of the work list with the current
   reference footprint.  Order optimised, EVERY list length: the returned image has the largest overlap with the
   reference, the reported area is the overlap of exactly that image, the work list loses exactly it (the others
   keep their order). *)
Theorem C15_image_optimised : forall v : list Q, v <> [] ->
  exists idx,
    max_overlap_image false v =
      {| i_img := Some idx; i_area := Some (nth idx v 0); i_rest := remove_nth idx (seq 0 (length v)) |} /\
    (idx < length v)%nat /\
    (forall k, (k < length v)%nat -> nth k v 0 <= nth idx v 0) /\
    Permutation (idx :: remove_nth idx (seq 0 (length v))) (seq 0 (length v)) /\
    remove_nth idx (seq 0 (length v)) = filter (fun k => negb (Nat.eqb k idx)) (seq 0 (length v)).
Proof. exact image_optimised_spec. Qed.
Print Assumptions C15_image_optimised.

Theorem C15_image_user_order : forall (v0 : Q) (v' : list Q),
  max_overlap_image true (v0 :: v') = {| i_img := Some 0%nat; i_area := Some v0; i_rest := seq 1 (length v') |}.
Proof. exact max_overlap_image_user. Qed.
Print Assumptions C15_image_user_order.

Theorem C15_image_empty : forall enforce,
  max_overlap_image enforce [] = {| i_img := None; i_area := None; i_rest := [] |}.
Proof. exact max_overlap_image_empty. Qed.
Print Assumptions C15_image_empty.

(* grouping block of align_wcs (gids = the group_id of every input image, None = ungrouped), EVERY input list:
   groups are emitted in the order in which their first member appears in the input list; a group is exactly the
   set of input positions sharing the key of its first member; every image is in a group.  Under user order the
   first group becomes the reference and the others are aligned in this order (C15_pair_user_order,
   C15_image_user_order: the head of the work list is taken every time). *)
Theorem C15_groups_first_appearance : forall gids : list (option nat),
  let n := length gids in
  let same i j := gkey_eqb (kf_of gids j) (kf_of gids i) in
  StronglySorted lt (map (hd 0%nat) (groups gids)) /\
  (forall g, In g (groups gids) -> g <> [] /\ g = filter (same (hd 0%nat g)) (seq 0 n)) /\
  (forall i, (i < n)%nat -> exists g, In g (groups gids) /\ In i g).
Proof. exact groups_spec. Qed.
Print Assumptions C15_groups_first_appearance.

(* two images share a key iff they are the same image or carry the same non-None group id *)
Theorem C15_same_group : forall (gids : list (option nat)) i j,
  kf_of gids i = kf_of gids j <-> i = j \/ exists g, nth i gids None = Some g /\ nth j gids None = Some g.
Proof. exact kf_of_same. Qed.
Print Assumptions C15_same_group.

Theorem C15_key_equality_decided : forall a b, gkey_eqb a b = true <-> a = b.
Proof. exact gkey_eqb_eq. Qed.
Print Assumptions C15_key_equality_decided.

(* ---------- non-vacuity ---------- *)
(* rectangles A=[0,10] B=[5,15] C=[9,19] D=[100,110] (x extent, height 10): overlaps AB=50 AC=10 BC=60, D disjoint *)
Definition ex_ABCD (i j : nat) : Q :=
  nth j (nth i [[0; 50; 10; 0]; [50; 0; 60; 0]; [10; 60; 0; 0]; [0; 0; 0; 0]] []) 0.
(* the same footprints listed as C, D, B, A *)
Definition ex_CDBA (i j : nat) : Q :=
  nth j (nth i [[0; 0; 60; 10]; [0; 0; 0; 0]; [60; 0; 0; 50]; [10; 0; 50; 0]] []) 0.

(* selected pair with reference index < image index ... *)
Example C15_witness_ref_before_image :
  max_overlap_pair 4 (omat ex_ABCD) false =
    {| p_ref := Some 1%nat; p_sec := Some 2%nat; p_area := Some 60; p_rest := [0%nat; 3%nat] |}.
Proof. vm_compute. reflexivity. Qed.
(* ... and, for another order of the same footprints, reference index > image index *)
Example C15_witness_ref_after_image :
  max_overlap_pair 4 (omat ex_CDBA) false =
    {| p_ref := Some 2%nat; p_sec := Some 0%nat; p_area := Some 60; p_rest := [3%nat; 1%nat] |}.
Proof. vm_compute. reflexivity. Qed.
Example C15_witness_user_order :
  max_overlap_pair 4 (omat ex_CDBA) true =
    {| p_ref := Some 0%nat; p_sec := Some 1%nat; p_area := Some 0; p_rest := [2%nat; 3%nat] |}.
Proof. vm_compute. reflexivity. Qed.
(* all footprints disjoint: the first two in list order, area 0 *)
Example C15_witness_all_disjoint :
  max_overlap_pair 4 (omat (fun _ _ => 0)) false =
    {| p_ref := Some 0%nat; p_sec := Some 1%nat; p_area := Some 0; p_rest := [3%nat; 2%nat] |}.
Proof. vm_compute. reflexivity. Qed.
Example C15_witness_image :
  max_overlap_image false [10; 60; 0; 50] =
    {| i_img := Some 1%nat; i_area := Some 60; i_rest := [0%nat; 2%nat; 3%nat] |} /\
  max_overlap_image true [10; 60; 0; 50] =
    {| i_img := Some 0%nat; i_area := Some 10; i_rest := [1%nat; 2%nat; 3%nat] |}.
Proof. split; vm_compute; reflexivity. Qed.
(* grouping example of DESIGN section 5 (F9): [a, g2, b, g2, c] is aligned a, g2, b, c *)
Example C15_witness_groups :
  groups [None; Some 2%nat; None; Some 2%nat; None] = [[0]; [1; 3]; [2]; [4]]%nat.
Proof. vm_compute. reflexivity. Qed.

(* ---------- the pre-fix code refutes the property (frozen definitions in Model/LegacyOverlap.v) ---------- *)
(* F4: for the order A, B, C, D the pair (B, C) is returned but the area reported is that of (B, B) = 0 *)
Example C15_refuted_before_fix_F4 :
  let p := legacy_max_overlap_pair 4 (omat ex_ABCD) false in
  p_ref p = Some 1%nat /\ p_sec p = Some 2%nat /\ p_area p = Some 0 /\ 0 < ex_ABCD 1 2.
Proof. vm_compute. repeat split; reflexivity. Qed.
(* ... while for the order C, D, B, A (reference index > image index) the legacy area happened to be right *)
Example C15_legacy_F4_right_when_ref_after_image :
  p_area (legacy_max_overlap_pair 4 (omat ex_CDBA) false) = Some 60.
Proof. vm_compute. reflexivity. Qed.
(* F5: no area reported for the image taken in user order *)
Example C15_refuted_before_fix_F5 :
  i_area (legacy_max_overlap_image true [10; 60; 0; 50]) = None /\
  i_area (max_overlap_image true [10; 60; 0; 50]) = Some 10.
Proof. vm_compute. split; reflexivity. Qed.
(* F9: [a, g2, b, g2, c] was aligned a, b, c, g2: first members 0, 2, 4, 1 are not in input order *)
Example C15_refuted_before_fix_F9 :
  let gids := [None; Some 2%nat; None; Some 2%nat; None] in
  legacy_groups gids = [[0]; [2]; [4]; [1; 3]]%nat /\
  increasing (map (hd 0%nat) (legacy_groups gids)) = false /\
  increasing (map (hd 0%nat) (groups gids)) = true.
Proof. vm_compute. repeat split; reflexivity. Qed.
