(* C02 - set_correction applies exactly the requested affine map in the tangent plane.
   Statements only; proofs live in Proofs/CorrGwcs.v, CorrFits.v.  The model is Model/CorrModel.v.
   External code is represented by the quantified functions: F/Fi = the opaque models of the gWCS pipeline and their
   inverses, T/Ti = v2v3 <-> tangent plane, proj/proji = the celestial projection family of wcslib, dist = pix2foc. *)
From Coq Require Import QArith Qcanon List.
From TW Require Import CorrModel LegacyCorr CorrAlgebra CorrGwcsState CorrGwcs CorrFits.
Import ListNotations.
Open Scope Qc_scope.

(* gWCS, own plane: for EVERY state reachable from the constructor by any history h of corrections (own plane or via a
   reference plane), copies and re-wrappings:  old.world_to_tanp(new.det_to_world(p)) = M . old.det_to_tanp(p) + s *)
Theorem C02_gwcs_own_plane_every_history :
  forall (X : Type) (F Fi : nat -> X -> X) (T : X -> pt) (Ti : pt -> X) (k ki : Qc),
  (forall n x, Fi n (F n x) = x) -> (forall t, T (Ti t) = t) -> (forall x, Ti (T x) = x) -> k * ki = 1 ->
  forall (w : wcs) (info : ang) (h : list op) (st : gst) (M : mat) (s : pt) (st' : gst) (p : X),
  reach k w info h st -> gset k st M s = Some st' ->
  g_w2t X F Fi T Ti ki tan_frame st (g_d2w X F T Ti st' p) = padd (mapp M (g_d2t X F Fi T Ti ki tan_frame st p)) s.
Proof. exact gwcs_C02_own. Qed.
Print Assumptions C02_gwcs_own_plane_every_history.

(* gWCS, correction given in a reference plane whose plane-to-plane map is the affine map G (what _tp2tp returns):
   the same identity with both sides measured in the reference plane (coordinates pulled back by G^-1) *)
Theorem C02_gwcs_reference_plane_every_history :
  forall (X : Type) (F Fi : nat -> X -> X) (T : X -> pt) (Ti : pt -> X) (k ki : Qc),
  (forall n x, Fi n (F n x) = x) -> (forall t, T (Ti t) = t) -> (forall x, Ti (T x) = x) -> k * ki = 1 ->
  forall (w : wcs) (info : ang) (h : list op) (st : gst) (G : aff) (M : mat) (s : pt) (st' : gst) (p : X),
  reach k w info h st -> gset_ref k st G M s = Some st' ->
  app (inva G) (g_w2t X F Fi T Ti ki tan_frame st (g_d2w X F T Ti st' p))
  = padd (mapp M (app (inva G) (g_d2t X F Fi T Ti ki tan_frame st p))) s.
Proof. exact gwcs_C02_ref. Qed.
Print Assumptions C02_gwcs_reference_plane_every_history.

(* _tp2tp recovers an affine plane-to-plane map exactly, whatever probe scale s <> 0 it uses *)
Theorem C02_tp2tp_exact_on_affine_maps : forall (G : aff) (s : Qc), s <> 0 -> tp2tp (app G) s = G.
Proof. exact tp2tp_affine. Qed.
Print Assumptions C02_tp2tp_exact_on_affine_maps.

(* a correction is accepted exactly when its matrix is regular, in every reachable state *)
Theorem C02_gwcs_total_on_regular_matrices :
  forall (k : Qc) (w : wcs) (info : ang) (h : list op) (st : gst) (M : mat) (s : pt),
  reach k w info h st -> mdet M <> 0 -> exists st', gset k st M s = Some st'.
Proof. exact gset_total. Qed.
Print Assumptions C02_gwcs_total_on_regular_matrices.

(* FITS: exact at the reference pixel for every projection family with P_c(0) = c, any reference plane whose two
   conversions are mutually inverse, any distortion that fixes the reference pixel *)
Theorem C02_fits_exact_at_reference_pixel :
  forall (proj proji : pt -> pt -> pt) (dist : pt -> pt), (forall c, proj c (0, 0) = c) ->
  forall (w : fwcs) (M : mat) (s : pt) (ref : plane), mdet M <> 0 ->
  (forall v, p_w2t ref (p_t2w ref v) = v) -> dist (f_c0 w) = f_c0 w ->
  let w' := fset proj proji w M s (Some ref) in
  p_w2t ref (f_d2w proj dist w' (f_c0 w)) = padd (mapp M (p_w2t ref (f_d2w proj dist w (f_c0 w)))) s.
Proof. exact fits_C02_refpix. Qed.
Print Assumptions C02_fits_exact_at_reference_pixel.

(* FITS, flat instance P_c(v) = c + v: exact at every detector position, any flat reference plane r, any distortion *)
Theorem C02_fits_flat_exact_everywhere :
  forall (w : fwcs) (M : mat) (s : pt) (r : fwcs) (dist : pt -> pt),
  mdet (f_cd w) <> 0 -> mdet (f_cd r) <> 0 -> mdet M <> 0 ->
  let w' := fset flat_proj flat_proji w M s (Some (f_plane flat_proj flat_proji r)) in
  forall p, f_w2t flat_proji r (f_d2w flat_proj dist w' p) = padd (mapp M (f_w2t flat_proji r (f_d2w flat_proj dist w p))) s.
Proof. exact fits_flat_C02_det. Qed.
Print Assumptions C02_fits_flat_exact_everywhere.

(* the 5-point stencil of _linearize is exact for every polynomial of degree <= 4 *)
Theorem C02_stencil_exact_to_degree_4 : forall a0 a1 a2 a3 a4 x0 h : Qc, h <> 0 ->
  let f := poly4 a0 a1 a2 a3 a4 in
  stencil1 (f (x0 - h)) (f (x0 - h * half)) (f (x0 + h * half)) (f (x0 + h)) h
  = a1 + c2*a2*x0 + (c2+1)*a3*x0*x0 + c4*a4*x0*x0*x0.
Proof. exact stencil1_exact. Qed.
Print Assumptions C02_stencil_exact_to_degree_4.

(* FULL (not expressible in the model, measured by harness/pC02.py): for a true TAN projection the FITS identity holds
   away from the reference pixel only within the second-order reprojection bound
   4 (|s| + |M - I| rho) rho^2 scale^2 px, and within the first-order plane-to-plane bound when ref_tpwcs has another
   tangent point; the gWCS identity holds to rounding error. *)
Theorem C02_fits_partial :
  forall (w : fwcs) (M : mat) (s : pt), mdet (f_cd w) <> 0 -> mdet M <> 0 ->
  (forall v, f_t2w flat_proj (fset flat_proj flat_proji w M s None) v = f_t2w flat_proj w (padd (mapp M v) s)) /\
  mdet (f_cd (fset flat_proj flat_proji w M s None)) <> 0.
Proof. exact fits_flat_own. Qed.
Print Assumptions C02_fits_partial.

(* before fix F7 (c5e1453) the identity failed on any corrector that already carried a correction A with A.M <> M.A :
   frozen legacy model Model/LegacyCorr.v, state after [shear_x], then M = shear_y, p = (1, 0): lhs (2,1), rhs (1,1) *)
Example C02_refuted_before_fix_F7 :
  match demo_st1, demo_st2 with
  | Some st1, Some st2 => leg_w2t st1 (leg_d2w st2 (1, 0)) <> padd (mapp shear_y (leg_d2t st1 (1, 0))) (0, 0)
  | _, _ => False
  end.
Proof. vm_compute. intro H. inversion H. Qed.

(* non-vacuity: on the same history the identity holds in the current model; the states are reachable (also through
   copy, re-wrapping and a reference-plane correction with a non-trivial G); the stencil on x^4+x^3+x^2+x+1 *)
Example C02_witness_fixed :
  match demo_st1, demo_st2 with
  | Some st1, Some st2 => fix_w2t st1 (leg_d2w st2 (1, 0)) = padd (mapp shear_y (fix_d2t st1 (1, 0))) (0, 0)
  | _, _ => False
  end.
Proof. vm_compute. f_equal; apply Qc_is_canon; reflexivity. Qed.
Example C02_witness_reach : exists st, reach 1 demo_wcs demo_info demo_hist st.
Proof.
  destruct demo_run as [st|] eqn:E; [|vm_compute in E; discriminate E].
  exists st. split; [split; [repeat constructor| reflexivity]|]. unfold demo_run, demo_st0 in E.
  destruct (ginit demo_wcs demo_info) as [st0|]; [|discriminate E]. exists st0. split; [reflexivity| exact E].
Qed.
Example C02_witness_stencil :
  stencil1 (poly4 1 1 1 1 1 (0 - c2)) (poly4 1 1 1 1 1 (0 - c2 * half)) (poly4 1 1 1 1 1 (0 + c2 * half)) (poly4 1 1 1 1 1 (0 + c2)) c2 = 1.
Proof. apply Qc_is_canon. vm_compute. reflexivity. Qed.
