(* C07 - sigma clipping rejects exactly the points beyond the cut-off of the current fit.
   The loop of iter_linear_fit (after fix 8ae115d) is modelled abstractly over the single-shot fit `fit`,
   the cut-off test `below r i` (|resid_i| < nsigma * stat of fit r) and `minobj`: every theorem holds for
   EVERY fit function, statistic, sigma, nclip, weight mask and clip_accum setting. *)
From Coq Require Import QArith List Bool Arith.
From TW Require Import Clip ClipTie ClipModel LinearFit.
Import ListNotations.

Section C07.
Variable n : nat.
Variable fitres : Type.
Variable fit : mask -> fitres.
Variable below : fitres -> nat -> bool.
Variable minobj : nat.
Notation step := (clip_step n fitres fit below minobj).
Notation loop := (clip_loop n fitres fit below minobj).
Notation iter := (iter_fit n fitres fit below minobj).

(* each effective iteration retains exactly the tested points below the cut-off of the CURRENT fit *)
Theorem C07_retained_set : forall wmask accum s s', step wmask accum s = Some s' ->
  forall i, (i < n)%nat ->
    nth i (cm fitres s') false = nth i (if accum then cm fitres s else wmask) false && below (cf fitres s) i.
Proof. exact (step_retained n fitres fit below minobj). Qed.

Theorem C07_no_untested_reentry : forall wmask accum s s', step wmask accum s = Some s' ->
  forall i, (i < n)%nat -> nth i (cm fitres s') false = true ->
    nth i (if accum then cm fitres s else wmask) false = true /\ below (cf fitres s) i = true.
Proof. exact (no_untested_reentry n fitres fit below minobj). Qed.

Theorem C07_accum_only_shrinks : forall wmask s s', step wmask true s = Some s' ->
  subset (cm fitres s') (cm fitres s).
Proof. exact (step_shrinks_accum n fitres fit below minobj). Qed.

Theorem C07_min_points_kept : forall wmask accum s s', step wmask accum s = Some s' ->
  (minobj <= count (cm fitres s'))%nat.
Proof. exact (step_min n fitres fit below minobj). Qed.

(* the history for nclip = k+j continues the history for nclip = k *)
Theorem C07_prefix_consistency : forall wmask accum f1 f2 s,
  loop wmask accum (f1 + f2) s = loop wmask accum f2 (loop wmask accum f1 s).
Proof. exact (loop_prefix n fitres fit below minobj). Qed.

(* fewer effective iterations than allowed  =>  the loop stopped because the next step is a stop
   (fewer than minobj points would remain, or the retained set no longer changes) *)
Theorem C07_stop_reason : forall wmask accum fuel s,
  (ceff fitres (loop wmask accum fuel s) < ceff fitres s + fuel)%nat ->
  step wmask accum (loop wmask accum fuel s) = None.
Proof. exact (loop_stop n fitres fit below minobj). Qed.

(* result of iter_linear_fit: retained set within the positively weighted points, returned fit is the plain
   fit of the retained points, eff_nclip <= nclip *)
Theorem C07_result : forall wmask accum nclip,
  subset (cm fitres (iter wmask accum nclip)) wmask /\
  cf fitres (iter wmask accum nclip) = fit (cm fitres (iter wmask accum nclip)) /\
  (ceff fitres (iter wmask accum nclip) <= nclip)%nat.
Proof. exact (iter_fit_spec n fitres fit below minobj). Qed.
End C07.
Print Assumptions C07_retained_set.
Print Assumptions C07_no_untested_reentry.
Print Assumptions C07_accum_only_shrinks.
Print Assumptions C07_min_points_kept.
Print Assumptions C07_prefix_consistency.
Print Assumptions C07_stop_reason.
Print Assumptions C07_result.

(* the concrete three-valued step used to validate implementation traces coincides with the abstract stop
   test whenever no point lies in the tolerance band *)
Theorem C07_trace_step_is_model_step : forall minobj accum weighted st nsig rel eps2 pts w wm m f,
  let s2 := stat2_encl st weighted f (filt m (combine pts w)) in
  let c2 := (Qred (nsig * nsig * fst s2)%Q, Qred (nsig * nsig * snd s2)%Q) in
  let bm := below_masks f c2 rel eps2 pts in
  fst bm = snd bm -> length m = length pts -> length wm = length pts ->
  let r := clip_step3 minobj accum weighted st nsig rel eps2 pts w wm m f in
  let new := mand (if accum then m else wm) (fst bm) in
  snd (fst r) = new /\ snd r = new /\
  fst (fst r) = (if (count new <? minobj)%nat || meqb new m then SureStop else SureGo).
Proof. exact step3_decided. Qed.
Print Assumptions C07_trace_step_is_model_step.

(* the loop before fix 8ae115d re-admitted rejected points untested (clip_accum = False) *)
Theorem C07_refuted_before_fix_F2 : exists s',
  legacy_step 3 (list bool) (fun m => m) (fun _ i => negb (Nat.eqb i 0) && negb (Nat.eqb i 2)) 1
              [true; true; true] false {| cm := [false; true; true]; cf := [false; true; true]; ceff := 1 |} = Some s'
  /\ nth 0 (cm _ s') false = true
  /\ (fun _ i => negb (Nat.eqb i 0) && negb (Nat.eqb i 2)) (cf _ s') 0%nat = false.
Proof. exact legacy_readmits_untested. Qed.

(* non-vacuity: an effective step and a stop exist for a concrete instance *)
Example C07_effective_step_exists :
  clip_step 3 (list bool) (fun m => m) (fun _ i => negb (Nat.eqb i 2)) 1 [true; true; true] false
            {| cm := [true; true; true]; cf := [true; true; true]; ceff := 0 |}
  = Some {| cm := [true; true; false]; cf := [true; true; false]; ceff := 1 |}.
Proof. vm_compute. reflexivity. Qed.
Example C07_stop_exists :
  clip_step 3 (list bool) (fun m => m) (fun _ i => negb (Nat.eqb i 2)) 1 [true; true; true] false
            {| cm := [true; true; false]; cf := [true; true; false]; ceff := 1 |} = None.
Proof. vm_compute. reflexivity. Qed.
