(* Executable model of tweakwcs.linalg.inv (Gauss-Jordan, full pivoting), tabulated style *)
From Coq Require Import QArith Qabs List Bool Arith Lia.
Import ListNotations.
Open Scope Q_scope.

Definition row := list Q.
Definition mat := list row.
Definition qnth (r : row) (j : nat) : Q := nth j r 0.
Definition mnth (m : mat) (i j : nat) : Q := qnth (nth i m []) j.
Definition tabv (n : nat) (f : nat -> Q) : row := map f (seq 0 n).
Definition tabm (n : nat) (f : nat -> nat -> Q) : mat := map (fun i => tabv n (f i)) (seq 0 n).

Definition transp (a b i : nat) : nat := if Nat.eqb i a then b else if Nat.eqb i b then a else i.

(* first maximum of |m[i][j]|, i,j in [k,n), row-major *)
Definition argmax_abs (n k : nat) (m : mat) : nat * nat :=
  fst (fold_left (fun best ij =>
     let v := Qabs (mnth m (fst ij) (snd ij)) in
     if Qlt_le_dec (snd best) v then (ij, v) else best)
    (list_prod (seq k (n - k)) (seq k (n - k))) ((k, k), Qabs (mnth m k k))).

Record st := { sm : mat; sb : mat; sp : list nat (* p *); ss : list nat (* sigma, ghost *) }.

Definition step_core (n k im jm : nat) (s : st) : st :=
  let m1 i j := mnth (sm s) (transp k im i) (transp k jm j) in
  let b1 i j := mnth (sb s) (transp k im i) (transp k jm j) in
  let pv := m1 k k in
  let f (x : nat -> nat -> Q) i j :=
     if Nat.eqb i k then x k j / pv
     else if Nat.ltb k i then x i j - m1 i k * (x k j / pv)
     else x i j in
  {| sm := tabm n (fun i j => Qred (f m1 i j));
     sb := tabm n (fun i j => Qred (f b1 i j));
     sp := map (transp k jm) (sp s);
     ss := map (fun a => nth (transp k jm a) (ss s) O) (seq 0 n) |}.

Definition fwd_step (n k : nat) (s : st) : option st :=
  let '(im, jm) := argmax_abs n k (sm s) in
  if Qeq_bool (mnth (sm s) im jm) 0 then None else Some (step_core n k im jm s).

Fixpoint fwd (n : nat) (ks : list nat) (s : st) : option st :=
  match ks with
  | [] => Some s
  | k :: ks' => match fwd_step n k s with None => None | Some s' => fwd n ks' s' end
  end.

(* backward Jordan elimination on the right-hand block only, reading U = forward m *)
Definition back_step (n : nat) (u b : mat) (t : nat) : mat :=
  tabm n (fun i j => if Nat.ltb i t then Qred (mnth b i j - mnth u i t * mnth b t j) else mnth b i j).

Definition back (n : nat) (u b : mat) : mat :=
  fold_left (back_step n u) (rev (seq 1 (n - 1))) b.

Inductive res := Ok (x : mat) | Singular | NotSquare.

Definition ident (n : nat) : mat := tabm n (fun i j => if Nat.eqb i j then 1 else 0).

Definition inv_gj (a : mat) : res :=
  let n := length a in
  if negb (forallb (fun r => Nat.eqb (length r) n) a) then NotSquare else
  match fwd n (seq 0 n) {| sm := a; sb := ident n; sp := seq 0 n; ss := seq 0 n |} with
  | None => Singular
  | Some s => let b := back n (sm s) (sb s) in
      Ok (tabm n (fun i j => mnth b (nth i (sp s) O) (nth j (sp s) O)))
  end.

Definition mmul (n : nat) (a b : mat) : mat :=
  tabm n (fun i j => Qred (fold_right (fun k acc => mnth a i k * mnth b k j + acc) 0 (seq 0 n))).
