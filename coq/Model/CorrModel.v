(* Executable model of the tangent-plane corrector classes of tweakwcs/correctors.py (after repair F7 = c5e1453),
   over canonical rationals Qc.  Definitions only; the lemmas are in Proofs/CorrAlgebra.v, CorrGwcs.v, CorrFits.v.

   gWCS part  : JWSTWCSCorrector.__init__, _check_wcs_structure, _tpcorr_init, _tpcorr_combine_affines,
                set_correction (first-time insertion of the 'v2v3corr' step / replacement afterwards, conjugation of a
                correction given in a reference plane), _update_transformations, the six conversions, _tp2tp.
   FITS part  : FITSWCSCorrector.set_correction and _linearize (literal 9-point layout, 5-point stencil) over an
                abstract projection family, with the flat instance P_c(v) = c + v;  tanp_pixel_scale (shoelace).
   External code (gwcs pipeline evaluation, astropy models, wcslib projections) is represented by Section variables. *)
From Coq Require Import QArith Qcanon Qcabs List Bool Arith.
Import ListNotations.
Open Scope Qc_scope.

(* ------------------------------------------------------------------ numbers, points, 2x2 matrices, affine maps *)
Definition c2 : Qc := 1 + 1.
Definition c4 : Qc := c2 * c2.
Definition c6 : Qc := c2 + c4.
Definition c8 : Qc := c4 * c2.
Definition c10 : Qc := c8 + c2.
Definition c100 : Qc := c10 * c10.
Definition c3600 : Qc := c6 * c6 * c100.
Definition half : Qc := 1 / c2.

Definition qc_is0 (x : Qc) : bool := Qeq_bool x 0.
Definition qc_leb (x y : Qc) : bool := Qle_bool x y.
Definition qc_max (x y : Qc) : Qc := if qc_leb x y then y else x.
Definition qc_min (x y : Qc) : Qc := if qc_leb x y then x else y.

Definition pt := (Qc * Qc)%type.
Definition padd (a b : pt) : pt := (fst a + fst b, snd a + snd b).
Definition psub (a b : pt) : pt := (fst a - fst b, snd a - snd b).
Definition pneg (a : pt) : pt := (- fst a, - snd a).
Definition pscale (c : Qc) (a : pt) : pt := (c * fst a, c * snd a).

Record mat := { m11 : Qc; m12 : Qc; m21 : Qc; m22 : Qc }.
Definition mid : mat := {| m11 := 1; m12 := 0; m21 := 0; m22 := 1 |}.
Definition mapp (m : mat) (v : pt) : pt :=
  (m11 m * fst v + m12 m * snd v, m21 m * fst v + m22 m * snd v).
(* np.dot(a, b) *)
Definition mmul (a b : mat) : mat :=
  {| m11 := m11 a * m11 b + m12 a * m21 b; m12 := m11 a * m12 b + m12 a * m22 b;
     m21 := m21 a * m11 b + m22 a * m21 b; m22 := m21 a * m12 b + m22 a * m22 b |}.
Definition mdet (m : mat) : Qc := m11 m * m22 m - m12 m * m21 m.
(* inv(m) of a 2x2 matrix *)
Definition minv (m : mat) : mat :=
  let d := mdet m in
  {| m11 := m22 m / d; m12 := - m12 m / d; m21 := - m21 m / d; m22 := m11 m / d |}.
(* diag(d) . m *)
Definition dmul (d : pt) (m : mat) : mat :=
  {| m11 := fst d * m11 m; m12 := fst d * m12 m; m21 := snd d * m21 m; m22 := snd d * m22 m |}.

(* affine map  v |-> amat . v + ash   (astropy AffineTransformation2D(matrix, translation)) *)
Record aff := { amat : mat; ash : pt }.
Definition idaff : aff := {| amat := mid; ash := (0, 0) |}.
Definition app (A : aff) (v : pt) : pt := padd (mapp (amat A) v) (ash A).
(* m = np.dot(matrix, m0);  t = np.dot(matrix, t0) + shift *)
Definition combine_fwd (M : mat) (s : pt) (A : aff) : aff :=
  {| amat := mmul M (amat A); ash := padd (mapp M (ash A)) s |}.
(* invm = inv(m);  translation = -np.dot(invm, t)   (also AffineTransformation2D.inverse) *)
Definition inva (A : aff) : aff :=
  let im := minv (amat A) in {| amat := im; ash := pneg (mapp im (ash A)) |}.
Definition adet (A : aff) : Qc := mdet (amat A).

(* ------------------------------------------------------------------ gWCS pipeline *)
Inductive fname := Fdet | Fv2v3 | Fvacorr | Fcorr | Fworld | Fother (n : nat).
Definition fname_eqb (a b : fname) : bool :=
  match a, b with
  | Fdet, Fdet | Fv2v3, Fv2v3 | Fvacorr, Fvacorr | Fcorr, Fcorr | Fworld, Fworld => true
  | Fother n, Fother m => Nat.eqb n m
  | _, _ => false
  end.

Definition ang := (Qc * Qc * Qc)%type.
(* the 'JWST tangent-plane linear correction. v1' model: tp_affine, tp_affine_inv of its inverse, rotation angles *)
Record tpc := { tp_fwd : aff; tp_inv : aff; tp_ang : ang }.
(* transform attached to a pipeline step: an opaque model (numbered), a tangent-plane correction, or None (last) *)
Inductive trf := TOpaque (n : nat) | TCorr (c : tpc) | TEnd.
Definition step := (fname * trf)%type.
Definition wcs := list step.
Definition frames (w : wcs) : list fname := map fst w.     (* wcs.available_frames *)

Fixpoint index_of (x : fname) (l : list fname) : option nat :=      (* list.index; None = ValueError *)
  match l with
  | [] => None
  | y :: r => if fname_eqb y x then Some O else option_map S (index_of x r)
  end.
Fixpoint count (x : fname) (l : list fname) : nat :=                (* list.count *)
  match l with [] => O | y :: r => (if fname_eqb y x then 1 else 0) + count x r end.
Definition mem (x : fname) (l : list fname) : bool := negb (Nat.eqb (count x l) 0).
Fixpoint set_nth {A} (i : nat) (v : A) (l : list A) : list A :=      (* l[i] = v *)
  match l, i with
  | [], _ => []
  | _ :: r, O => v :: r
  | x :: r, S j => x :: set_nth j v r
  end.
Fixpoint insert_at {A} (i : nat) (v : A) (l : list A) : list A :=   (* l.insert(i, v) *)
  match i, l with
  | O, _ => v :: l
  | S j, [] => [v]
  | S j, x :: r => x :: insert_at j v r
  end.

(* JWSTWCSCorrector._check_wcs_structure on wcs.available_frames *)
Definition check_structure (frms : list fname) : bool :=
  let n := length frms in
  if Nat.ltb n 3 then false else
  if Nat.ltb 1 (count (hd Fdet frms) frms) || Nat.ltb 1 (count (last frms Fdet) frms) then false else
  if negb (Nat.eqb (count Fv2v3 frms) 1) || Nat.ltb 1 (count Fvacorr frms) then false else
  match index_of Fv2v3 frms with
  | None => false
  | Some i0 =>
    if Nat.eqb i0 0 || Nat.eqb i0 (n - 1) then false else
    let r := match index_of Fvacorr frms with
             | Some iv => if Nat.ltb iv i0 || Nat.eqb iv (n - 1) then None else Some iv
             | None => Some i0
             end in
    match r with
    | None => false
    | Some i1 =>
      match count Fcorr frms with
      | O => true
      | S O => match index_of Fcorr frms with
               | Some ic => negb (negb (Nat.eqb ic (i1 + 1)) || Nat.eqb ic (n - 1))
               | None => false
               end
      | _ => false
      end
    end
  end.

(* wcsinfo = (v2_ref, v3_ref, roll_ref);  _tpcorr_init(v2_ref/3600, v3_ref/3600, roll_ref) has angles
   [v2_ref/3600, -v3_ref/3600, roll_ref] *)
Definition ang_of (info : ang) : ang :=
  let '(v2, v3, roll) := info in (v2 / c3600, - (v3 / c3600), roll).
Definition ang_consistent (info a : ang) : bool :=
  let '(v2, v3, roll) := info in let '(a2, a3, ar) := a in
  qc_is0 (v2 - a2 * c3600) && qc_is0 (v3 - - a3 * c3600) && qc_is0 (roll - ar).

Definition tpcorr_init (a : ang) : tpc := {| tp_fwd := idaff; tp_inv := idaff; tp_ang := a |}.
(* _tpcorr_combine_affines; None = numpy.linalg.LinAlgError (singular matrix) *)
Definition tpcorr_combine (c : tpc) (M : mat) (s : pt) : option tpc :=
  let a := combine_fwd M s (tp_fwd c) in
  if qc_is0 (adet a) then None
  else Some {| tp_fwd := a; tp_inv := inva a; tp_ang := tp_ang c |}.

(* corrector object: working WCS, caller's WCS, self._tpcorr, self._v23name, self._wcsinfo *)
Record gst := { g_wcs : wcs; g_owcs : wcs; g_tpcorr : option tpc; g_v23 : fname; g_info : ang }.

(* JWSTWCSCorrector.__init__ ; None = ValueError *)
Definition ginit (w : wcs) (info : ang) : option gst :=
  let frms := frames w in
  if negb (check_structure frms) then None else
  if mem Fcorr frms then
    match index_of Fcorr frms with
    | Some (S i) =>
      match nth_error w i with
      | Some (_, TCorr c) =>
          if ang_consistent info (tp_ang c)
          then Some {| g_wcs := w; g_owcs := w; g_tpcorr := Some c; g_v23 := Fcorr; g_info := info |}
          else None
      | _ => None
      end
    | _ => None
    end
  else Some {| g_wcs := w; g_owcs := w; g_tpcorr := None;
               g_v23 := if mem Fvacorr frms then Fvacorr else Fv2v3; g_info := info |}.

(* conjugation of a correction (M, s) given in a reference plane into the image plane, where (r, t) = _tp2tp(ref, self):
   matrix = r.M.inv(r);  shift = r.s - matrix.t + t *)
Definition conj_matrix (r M : mat) : mat := mmul r (mmul M (minv r)).
Definition conj_shift (r : mat) (t : pt) (M : mat) (s : pt) : pt :=
  padd (psub (mapp r s) (mapp (conj_matrix r M) t)) t.

Section GwcsOps.
Variable k : Qc.          (* _ARCSEC2RAD *)

(* set_correction(matrix, shift) in the corrector's own plane; None = an exception *)
Definition gset (st : gst) (M : mat) (s : pt) : option gst :=
  let frms := frames (g_wcs st) in
  match g_tpcorr st with
  | None =>
    match tpcorr_combine (tpcorr_init (ang_of (g_info st))) M (pscale k s) with
    | None => None
    | Some c =>
      match index_of (g_v23 st) frms with
      | None => None
      | Some idx =>
        match nth_error (g_wcs st) idx with
        | None => None
        | Some (pf, ptm) =>
            let p1 := set_nth idx (pf, TCorr c) (g_wcs st) in
            let p2 := insert_at (S idx) (Fcorr, ptm) p1 in
            Some {| g_wcs := p2; g_owcs := g_owcs st; g_tpcorr := Some c; g_v23 := Fcorr; g_info := g_info st |}
        end
      end
    end
  | Some c0 =>
    match tpcorr_combine c0 M (pscale k s) with
    | None => None
    | Some c =>
      match index_of (g_v23 st) frms with
      | Some (S i) =>
        match nth_error (g_wcs st) i with
        | None => None
        | Some (pf, _) =>
            Some {| g_wcs := set_nth i (pf, TCorr c) (g_wcs st); g_owcs := g_owcs st; g_tpcorr := Some c;
                    g_v23 := g_v23 st; g_info := g_info st |}
        end
      | _ => None
      end
    end
  end.

(* set_correction(matrix, shift, ref_tpwcs) where G = (r, t) is what _tp2tp(ref_tpwcs, self) returned *)
Definition gset_ref (st : gst) (G : aff) (M : mat) (s : pt) : option gst :=
  if qc_is0 (adet G) then None else
  gset st (conj_matrix (amat G) M) (conj_shift (amat G) (ash G) M s).

(* histories: corrections in the own plane or through a reference plane, copy(), re-wrapping of the corrected WCS *)
Inductive op := OpSet (M : mat) (s : pt) | OpSetRef (G : aff) (M : mat) (s : pt) | OpCopy | OpRewrap.
Definition gstep (st : gst) (o : op) : option gst :=
  match o with
  | OpSet M s => gset st M s
  | OpSetRef G M s => gset_ref st G M s
  | OpCopy => Some st                                  (* deepcopy: an equal, independent value *)
  | OpRewrap => ginit (g_wcs st) (g_info st)           (* JWSTWCSCorrector(corrected_wcs, ref_angles) *)
  end.
Fixpoint grun (st : gst) (h : list op) : option gst :=
  match h with
  | [] => Some st
  | o :: r => match gstep st o with Some st' => grun st' r | None => None end
  end.
End GwcsOps.

(* the accumulated tangent-plane affine the conversions use: tp_affine of self._tpcorr or of the default model *)
Definition g_aff (st : gst) : aff := match g_tpcorr st with Some c => tp_fwd c | None => idaff end.
(* tp_affine / tp_affine_inv read back from the pipeline step preceding 'v2v3corr' *)
Definition g_pipeline_tpc (st : gst) : option tpc :=
  match index_of Fcorr (frames (g_wcs st)) with
  | Some (S i) => match nth_error (g_wcs st) i with Some (_, TCorr c) => Some c | _ => None end
  | _ => None
  end.

(* ------------------------------------------------------------------ gWCS semantics: the six conversions *)
Section GwcsSem.
Variable X : Type.                          (* coordinates in any pipeline frame (detector, v2v3, world) *)
Variables F Fi : nat -> X -> X.             (* opaque pipeline models and their inverses *)
Variables T : X -> pt.                      (* v2v3 -> tangent plane: arcsec->deg, s2c, rotation, gnomonic *)
Variables Ti : pt -> X.
Variables k ki : Qc.                        (* _ARCSEC2RAD, _RAD2ARCSEC *)

Definition sem (t : trf) (x : X) : X :=
  match t with TOpaque n => F n x | TCorr c => Ti (app (tp_fwd c) (T x)) | TEnd => x end.
Definition semi (t : trf) (x : X) : X :=
  match t with TOpaque n => Fi n x | TCorr c => Ti (app (tp_inv c) (T x)) | TEnd => x end.
Fixpoint fwd (l : wcs) (x : X) : X := match l with [] => x | (_, t) :: r => fwd r (sem t x) end.
Fixpoint bwd (l : wcs) (x : X) : X := match l with [] => x | (_, t) :: r => semi t (bwd r x) end.
Definition seg (i j : nat) (w : wcs) : wcs := firstn (j - i) (skipn i w).
(* gwcs.WCS.get_transform(from, to) *)
Definition get_transform (w : wcs) (a b : fname) (x : X) : X :=
  match index_of a (frames w), index_of b (frames w) with
  | Some i, Some j => if Nat.leb i j then fwd (seg i j w) x else bwd (seg j i w) x
  | _, _ => x
  end.
Definition detname (w : wcs) : fname := hd Fdet (frames w).
Definition worldname (w : wcs) : fname := last (frames w) Fworld.

(* _update_transformations after F7: the frame preceding 'v2v3corr' when present, else self._v23name *)
Definition tan_frame (st : gst) : fname :=
  match index_of Fcorr (frames (g_wcs st)) with
  | Some i => nth (i - 1) (frames (g_wcs st)) Fdet
  | None => g_v23 st
  end.

(* self._partial_tpcorr = unit_conv | s2c | rot | c2tan | affine ; its inverse uses affine.inverse *)
Definition partial (st : gst) (x : X) : pt := app (g_aff st) (T x).
Definition partial_inv (st : gst) (t : pt) : X := Ti (app (inva (g_aff st)) t).

Section Conv.
Variable vf : gst -> fname.                 (* which frame the tangent plane is attached to *)
Definition g_d2w (st : gst) (p : X) : X := fwd (g_wcs st) p.
Definition g_w2d (st : gst) (w : X) : X := bwd (g_wcs st) w.
Definition g_d2t (st : gst) (p : X) : pt :=
  pscale ki (partial st (get_transform (g_wcs st) (detname (g_wcs st)) (vf st) p)).
Definition g_t2d (st : gst) (t : pt) : X :=
  get_transform (g_wcs st) (vf st) (detname (g_wcs st)) (partial_inv st (pscale k t)).
Definition g_w2t (st : gst) (w : X) : pt :=
  pscale ki (partial st (get_transform (g_wcs st) (worldname (g_wcs st)) (vf st) w)).
Definition g_t2w (st : gst) (t : pt) : X :=
  get_transform (g_wcs st) (vf st) (worldname (g_wcs st)) (partial_inv st (pscale k t)).
End Conv.
End GwcsSem.

(* ------------------------------------------------------------------ _tp2tp *)
(* probe points x = [-0.5, 0.5, -0.5, 0] * s, y = [-0.5, -0.5, 0.5, 0] * s  mapped by
   G = tpwcs2.world_to_tanp o tpwcs1.tanp_to_world;  matrix = [[x1-x0, x2-x0], [y1-y0, y2-y0]] / s;  shift = (x3, y3) *)
Definition tp2tp_probe (s : Qc) : list pt :=
  [ (- half * s, - half * s); (half * s, - half * s); (- half * s, half * s); (0 * s, 0 * s) ].
Definition tp2tp_from_pts (p0 p1 p2 p3 : pt) (s : Qc) : aff :=
  {| amat := {| m11 := (fst p1 - fst p0) / s; m12 := (fst p2 - fst p0) / s;
                m21 := (snd p1 - snd p0) / s; m22 := (snd p2 - snd p0) / s |};
     ash := p3 |}.
Definition tp2tp (G : pt -> pt) (s : Qc) : aff :=
  match map G (tp2tp_probe s) with
  | [p0; p1; p2; p3] => tp2tp_from_pts p0 p1 p2 p3 s
  | _ => idaff
  end.
(* s^2 when s is estimated: |det [[x1-x0, x2-x0], [y1-y0, y2-y0]]| of the unit probe mapped by H *)
Definition tp2tp_scale_sq (H : pt -> pt) (c : pt) : Qc :=
  let q0 := H (padd c (- half, - half)) in let q1 := H (padd c (half, - half)) in
  let q2 := H (padd c (- half, half)) in
  Qcabs ((fst q1 - fst q0) * (snd q2 - snd q0) - (fst q2 - fst q0) * (snd q1 - snd q0)).

(* ------------------------------------------------------------------ tanp_pixel_scale *)
(* xs = [x-.5, x-.5, x+.5, x+.5], ys = [y-.5, y+.5, y+.5, y-.5];  area = 0.5*|shoelace|;  pscale = sqrt(area) *)
Definition shoelace (q0 q1 q2 q3 : pt) : Qc :=
  half * Qcabs (fst q0 * snd q1 + fst q1 * snd q2 + fst q2 * snd q3 + fst q3 * snd q0
                - fst q1 * snd q0 - fst q2 * snd q1 - fst q3 * snd q2 - fst q0 * snd q3).
Definition pixel_corners (x y : Qc) : list pt :=
  [ (x - half, y - half); (x - half, y + half); (x + half, y + half); (x + half, y - half) ].
Definition pscale_sq {P : Type} (d2t : P -> pt) (mk : pt -> P) (x y : Qc) : Qc :=
  match map (fun c => d2t (mk c)) (pixel_corners x y) with
  | [q0; q1; q2; q3] => shoelace q0 q1 q2 q3
  | _ => 0
  end.

(* ------------------------------------------------------------------ FITS WCS *)
(* what astropy.wcs.WCS holds, as far as the corrector is concerned.  f_lin is wcs.wcs.pc when f_haspc, else wcs.wcs.cd;
   f_sip / f_aux stand for the SIP coefficient arrays and every other attribute (lookup tables, bounds, ...) *)
Record fwcs := { f_crpix : pt; f_crval : pt; f_lin : mat; f_cdelt : pt; f_haspc : bool;
                 f_naxis : pt; f_ctype : nat; f_sip : list Qc; f_aux : list Qc }.
Definition f_cd (w : fwcs) : mat := if f_haspc w then dmul (f_cdelt w) (f_lin w) else f_lin w.
Definition f_c0 (w : fwcs) : pt := psub (f_crpix w) (1, 1).       (* 0-based reference pixel *)
Definition with_crval (w : fwcs) (c : pt) : fwcs :=
  {| f_crpix := f_crpix w; f_crval := c; f_lin := f_lin w; f_cdelt := f_cdelt w; f_haspc := f_haspc w;
     f_naxis := f_naxis w; f_ctype := f_ctype w; f_sip := f_sip w; f_aux := f_aux w |}.
(* `wcs.wcs.pc = np.dot(wcs.wcs.pc, U)` if hasattr(wcs.wcs, 'pc') else `wcs.wcs.cd = np.dot(wcs.wcs.cd, U)` *)
Definition with_lin (w : fwcs) (l : mat) : fwcs :=
  {| f_crpix := f_crpix w; f_crval := f_crval w; f_lin := l; f_cdelt := f_cdelt w; f_haspc := f_haspc w;
     f_naxis := f_naxis w; f_ctype := f_ctype w; f_sip := f_sip w; f_aux := f_aux w |}.

(* hx = max(1.0, min(10, (crpix - 1)/100, (naxis - crpix)/100)) *)
Definition hstep (crpix naxis : Qc) : Qc :=
  qc_max 1 (qc_min (qc_min c10 ((crpix - 1) / c100)) ((naxis - crpix) / c100)).
(* the nine points of _linearize *)
Definition stencil_pts (x0 y0 hx hy : Qc) : list pt :=
  [ (x0, y0); (x0 - hx, y0); (x0 - hx * half, y0); (x0 + hx * half, y0); (x0 + hx, y0);
    (x0, y0 - hy); (x0, y0 - hy * half); (x0, y0 + hy * half); (x0, y0 + hy) ].
(* u = ((p[1] - p[4]) + 8 (p[3] - p[2])) / (6 h) *)
Definition stencil1 (pa pb pc pd h : Qc) : Qc := ((pa - pd) + c8 * (pc - pb)) / (c6 * h).
(* U = np.asarray([u1, u2]).T from the nine mapped points *)
Definition stencil_U (p : list pt) (hx hy : Qc) : mat :=
  let g i := nth i p (0, 0) in
  {| m11 := stencil1 (fst (g 1%nat)) (fst (g 2%nat)) (fst (g 3%nat)) (fst (g 4%nat)) hx;
     m21 := stencil1 (snd (g 1%nat)) (snd (g 2%nat)) (snd (g 3%nat)) (snd (g 4%nat)) hx;
     m12 := stencil1 (fst (g 5%nat)) (fst (g 6%nat)) (fst (g 7%nat)) (fst (g 8%nat)) hy;
     m22 := stencil1 (snd (g 5%nat)) (snd (g 6%nat)) (snd (g 7%nat)) (snd (g 8%nat)) hy |}.

(* a tangent plane as seen by set_correction: world_to_tanp and tanp_to_world of ref_tpwcs *)
Record plane := { p_w2t : pt -> pt; p_t2w : pt -> pt }.

Section Fits.
Variable proj : pt -> pt -> pt.     (* crval -> intermediate world coordinates -> sky  (wcslib: celestial projection) *)
Variable proji : pt -> pt -> pt.    (* crval -> sky -> intermediate world coordinates *)
Variables dist disti : pt -> pt.    (* pix2foc (SIP, lookup tables) and its inverse, 0-based pixel coordinates *)

(* wcs_pix2world / wcs_world2pix with origin 0 (tangent plane = undistorted pixel coordinates) *)
Definition f_t2w (w : fwcs) (v : pt) : pt := proj (f_crval w) (mapp (f_cd w) (psub v (f_c0 w))).
Definition f_w2t (w : fwcs) (s : pt) : pt := padd (f_c0 w) (mapp (minv (f_cd w)) (proji (f_crval w) s)).
Definition f_d2t (w : fwcs) (p : pt) : pt := dist p.
Definition f_t2d (w : fwcs) (v : pt) : pt := disti v.
Definition f_d2w (w : fwcs) (p : pt) : pt := f_t2w w (dist p).
Definition f_w2d (w : fwcs) (s : pt) : pt := disti (f_w2t w s).
Definition f_plane (w : fwcs) : plane := {| p_w2t := f_w2t w; p_t2w := f_t2w w |}.

(* _linearize(wcsima = orig, ref_tpwcs, imcrpix, f = M, shift, hx, hy) evaluated with self.wcs = cur *)
Definition linearize_pts (orig cur : fwcs) (ref : plane) (M : mat) (shift : pt) (hx hy : Qc) : list pt :=
  map (fun q => f_w2t cur (p_t2w ref (mapp M (psub (p_w2t ref (f_t2w orig q)) shift))))
      (stencil_pts (fst (f_c0 orig)) (snd (f_c0 orig)) hx hy).
Definition linearize (orig cur : fwcs) (ref : plane) (M : mat) (shift : pt) (hx hy : Qc) : mat :=
  stencil_U (linearize_pts orig cur ref M shift hx hy) hx hy.

(* FITSWCSCorrector.set_correction(matrix = M, shift = s, ref_tpwcs = ref) *)
Definition fset (w : fwcs) (M : mat) (s : pt) (ref : option plane) : fwcs :=
  let rp := match ref with Some r => r | None => f_plane w end in
  let shift := pneg (mapp (minv M) s) in                               (* shift = -np.dot(inv(matrix), shift) *)
  let hx := hstep (fst (f_crpix w)) (fst (f_naxis w)) in
  let hy := hstep (snd (f_crpix w)) (snd (f_naxis w)) in
  let crval := f_t2w w (f_c0 w) in                                      (* wcs.wcs_pix2world(crpix, 1) *)
  let crpixinref := mapp M (psub (p_w2t rp crval) shift) in
  let w1 := with_crval w (p_t2w rp crpixinref) in
  let U := linearize w w1 rp M shift hx hy in
  with_lin w1 (mmul (f_lin w1) U).
Definition frun (w : fwcs) (h : list (mat * pt)) : fwcs :=
  fold_left (fun w ms => fset w (fst ms) (snd ms) None) h w.
End Fits.

(* flat-sky instance of the projection family: P_c(v) = c + v *)
Definition flat_proj (c v : pt) : pt := padd c v.
Definition flat_proji (c s : pt) : pt := psub s c.
