(* Executable model of tweakwcs.matchutils._find_peak (control flow, box arithmetic, centre of mass,
   vertex of the fitted quadratic and its guards).  Indices are Z, coordinates are Q.
   The least-squares coefficients of the 2-D quadratic enter through a `solver` argument
   (arbitrary function of the fit points: the bounds theorem quantifies over it); `lsq6` is the exact
   normal-equation solution (inv_gj at n = 6), defined only at full rank. *)
From Coq Require Import QArith ZArith List Bool String.
From TW Require Import GJModel.
Import ListNotations.
Open Scope Z_scope.

Definition hist := list (list Z).
Definition maskt := list (list bool).

(* data[j, i] : row j, column i *)
Definition val (h : hist) (j i : Z) : Z := nth (Z.to_nat i) (nth (Z.to_nat j) h []) 0.
Definition mval (m : maskt) (j i : Z) : bool := nth (Z.to_nat i) (nth (Z.to_nat j) m []) false.

Definition zrange (a b : Z) : list Z := map (fun k => a + Z.of_nat k) (seq 0 (Z.to_nat (b - a))).
(* row-major enumeration (j, i) of an ny x nx array *)
Definition cells (ny nx : Z) : list (Z * Z) := list_prod (zrange 0 ny) (zrange 0 nx).

(* np.argmax over a row-major list of cells: first maximum *)
Definition amax_step (h : hist) (best : option (Z * Z)) (c : Z * Z) : option (Z * Z) :=
  match best with
  | None => Some c
  | Some b => if val h (fst b) (snd b) <? val h (fst c) (snd c) then Some c else best
  end.
Definition argmax_first (h : hist) (l : list (Z * Z)) : option (Z * Z) := fold_left (amax_step h) l None.

Definition masked_cells (ny nx : Z) (m : maskt) : list (Z * Z) :=
  filter (fun ji => mval m (fst ji) (snd ji)) (cells ny nx).

Inductive status := Success | ErrNoData | WarnEdge | WarnBadFit | WarnCoM.
Definition status_str (s : status) : string :=
  match s with
  | Success => "SUCCESS" | ErrNoData => "ERROR:NODATA" | WarnEdge => "WARNING:EDGE"
  | WarnBadFit => "WARNING:BADFIT" | WarnCoM => "WARNING:CENTER-OF-MASS"
  end.
(* the vocabulary documented in the docstring of _find_peak *)
Definition vocabulary : list string :=
  ["SUCCESS"; "ERROR:NODATA"; "WARNING:EDGE"; "WARNING:BADFIT"; "WARNING:CENTER-OF-MASS"]%string.
Definition is_error (s : status) : bool := match s with ErrNoData => true | _ => false end.

(* coord = (p_x, p_y); fit_box = (slice(p_y1, p_y2), slice(p_x1, p_x2)) *)
Record peak := { p_x : Q; p_y : Q; p_st : status; p_y1 : Z; p_y2 : Z; p_x1 : Z; p_x2 : Z }.

Definition half_of (z : Z) : Q := Qred ((inject_Z z - 1) / 2)%Q.

(* coord = ((nx - 1.0) / 2.0, (ny - 1.0) / 2.0), 'ERROR:NODATA', np.s_[0:ny, 0:nx] *)
Definition center (ny nx : Z) : peak :=
  {| p_x := half_of nx; p_y := half_of ny; p_st := ErrNoData; p_y1 := 0; p_y2 := ny; p_x1 := 0; p_x2 := nx |}.

(* x1 = max(0, imax - peak_fit_box // 2); x2 = min(nx, x1 + peak_fit_box) *)
Definition box1 (n imax b : Z) : Z * Z :=
  let x1 := Z.max 0 (imax - b / 2) in (x1, Z.min n (x1 + b)).

(* "expand the box if needed" *)
Definition expand (n b : Z) (x12 : Z * Z) : Z * Z :=
  let '(x1, x2) := x12 in
  if x2 - x1 <? b then
    let x2' := if x1 =? 0 then Z.min n (x1 + b) else x2 in
    let x1' := if x2' =? n then Z.max 0 (x2' - b) else x1 in
    (x1', x2')
  else (x1, x2).

(* masked points of the fit box: (x, y, d) with x, y relative to x1 - 1, y1 - 1 (row-major) *)
Definition fitpts (h : hist) (m : maskt) (x1 x2 y1 y2 : Z) : list (Z * Z * Z) :=
  map (fun ji => (snd ji - (x1 - 1), fst ji - (y1 - 1), val h (fst ji) (snd ji)))
      (filter (fun ji => mval m (fst ji) (snd ji)) (list_prod (zrange y1 y2) (zrange x1 x2))).

Definition px (p : Z * Z * Z) : Z := fst (fst p).
Definition py (p : Z * Z * Z) : Z := snd (fst p).
Definition pd (p : Z * Z * Z) : Z := snd p.
Definition sumz (f : Z * Z * Z -> Z) (l : list (Z * Z * Z)) : Z := fold_right (fun p a => f p + a) 0 l.

(* _center_of_mass (data are finite integers, so the non-finite masking is the identity) *)
Definition com (pts : list (Z * Z * Z)) (x1 x2 y1 y2 : Z) : Q * Q * status :=
  let dt := sumz pd pts in
  if dt =? 0 then (half_of (x2 + x1), half_of (y2 + y1), ErrNoData)
  else
    let sx := sumz (fun p => px p * pd p) pts in
    let sy := sumz (fun p => py p * pd p) pts in
    (Qred (inject_Z x1 + inject_Z sx / inject_Z dt - 1)%Q,
     Qred (inject_Z y1 + inject_Z sy / inject_Z dt - 1)%Q, WarnCoM).

(* c = (c00, c10, c01, c11, c20, c02) for the basis (1, x, y, x*y, x*x, y*y) *)
Record coef6 := { c00 : Q; c10 : Q; c01 : Q; c11 : Q; c20 : Q; c02 : Q }.

Definition Qleb' (a b : Q) : bool := Qle_bool a b.
Definition Qltb' (a b : Q) : bool := negb (Qle_bool b a).

Definition fit_det (c : coef6) : Q := (4 * c02 c * c20 c - c11 c * c11 c)%Q.
Definition vertex_x (c : coef6) : Q := ((c01 c * c11 c - 2 * c02 c * c10 c) / fit_det c)%Q.
Definition vertex_y (c : coef6) : Q := ((c10 c * c11 c - 2 * c01 c * c20 c) / fit_det c)%Q.
(* det <= 0 or ((c20 > 0.0 and c02 >= 0.0) or (c20 >= 0.0 and c02 > 0.0)) *)
Definition no_max (c : coef6) : bool :=
  Qleb' (fit_det c) 0 || (Qltb' 0 (c20 c) && Qleb' 0 (c02 c)) || (Qleb' 0 (c20 c) && Qltb' 0 (c02 c)).

(* everything after the lstsq call; None = LinAlgError / non-finite coefficients *)
Definition finish (oc : option coef6) (pts : list (Z * Z * Z)) (x1 x2 y1 y2 : Z) : Q * Q * status :=
  match oc with
  | None => com pts x1 x2 y1 y2
  | Some c =>
      if no_max c then
        match com pts x1 x2 y1 y2 with
        | (x, y, ErrNoData) => (x, y, ErrNoData)
        | (x, y, _) => (x, y, WarnBadFit)
        end
      else
        let xm := Qred (vertex_x c + inject_Z x1 - 1)%Q in
        let ym := Qred (vertex_y c + inject_Z y1 - 1)%Q in
        if Qleb' (inject_Z x1) xm && Qleb' xm (inject_Z x2 - 1)%Q &&
           Qleb' (inject_Z y1) ym && Qleb' ym (inject_Z y2 - 1)%Q
        then (xm, ym, Success)
        else com pts x1 x2 y1 y2
  end.

Definition mkpeak (r : Q * Q * status) (x1 x2 y1 y2 : Z) : peak :=
  {| p_x := fst (fst r); p_y := snd (fst r); p_st := snd r; p_y1 := y1; p_y2 := y2; p_x1 := x1; p_x2 := x2 |}.

(* everything before the lstsq call *)
Inductive stage1 := Done (p : peak) | NeedFit (x1 x2 y1 y2 : Z) (pts : list (Z * Z * Z)).

Definition stage1_of (ny nx : Z) (h : hist) (m : maskt) (b : Z) : stage1 :=
  match argmax_first h (masked_cells ny nx m) with
  | None => Done (center ny nx)
  | Some (jmax, imax) =>
      if val h jmax imax <? 1 then Done (center ny nx) else
      let x12 := box1 nx imax b in
      let y12 := box1 ny jmax b in
      if (imax =? fst x12) || (imax =? snd x12 - 1) || (jmax =? fst y12) || (jmax =? snd y12 - 1) then
        Done (mkpeak (inject_Z imax, inject_Z jmax, WarnEdge) (fst x12) (snd x12) (fst y12) (snd y12))
      else
        let x12' := expand nx b x12 in
        let y12' := expand ny b y12 in
        let pts := fitpts h m (fst x12') (snd x12') (fst y12') (snd y12') in
        if Z.of_nat (List.length pts) <? 6 then
          Done (mkpeak (com pts (fst x12') (snd x12') (fst y12') (snd y12'))
                       (fst x12') (snd x12') (fst y12') (snd y12'))
        else NeedFit (fst x12') (snd x12') (fst y12') (snd y12') pts
  end.

Definition find_peak_with (solver : list (Z * Z * Z) -> option coef6)
           (ny nx : Z) (h : hist) (m : maskt) (b : Z) : peak :=
  match stage1_of ny nx h m b with
  | Done p => p
  | NeedFit x1 x2 y1 y2 pts => mkpeak (finish (solver pts) pts x1 x2 y1 y2) x1 x2 y1 y2
  end.

(* ---- exact least squares: normal equations solved with the proved Gauss-Jordan inverse ---- *)
Definition phi (p : Z * Z * Z) : list Z :=
  [1; px p; py p; px p * py p; px p * px p; py p * py p].
Definition gram (pts : list (Z * Z * Z)) : mat :=
  tabm 6 (fun a b => inject_Z (sumz (fun p => nth a (phi p) 0 * nth b (phi p) 0) pts)).
Definition rhs (pts : list (Z * Z * Z)) : row :=
  tabv 6 (fun a => inject_Z (sumz (fun p => nth a (phi p) 0 * pd p) pts)).
Definition dotq (n : nat) (f g : nat -> Q) : Q :=
  fold_right (fun k acc => Qred (f k * g k + acc)%Q) 0%Q (seq 0 n).

Inductive lsq_res := LCoef (c : coef6) | LRankDef.
Definition coef_of (X : mat) (r : row) : coef6 :=
  let c a := dotq 6 (fun b => mnth X a b) (fun b => qnth r b) in
  {| c00 := c 0%nat; c10 := c 1%nat; c01 := c 2%nat; c11 := c 3%nat; c20 := c 4%nat; c02 := c 5%nat |}.
Definition lsq6 (pts : list (Z * Z * Z)) : lsq_res :=
  match inv_gj (gram pts) with
  | Ok X => LCoef (coef_of X (rhs pts))
  | _ => LRankDef
  end.

(* executable model: None when the design matrix is rank deficient (numpy returns the
   minimum-norm solution there; only the bounds theorem applies) *)
Definition find_peak_exec (ny nx : Z) (h : hist) (m : maskt) (b : Z) : option peak :=
  match stage1_of ny nx h m b with
  | Done p => Some p
  | NeedFit x1 x2 y1 y2 pts =>
      match lsq6 pts with
      | LCoef c => Some (mkpeak (finish (Some c) pts x1 x2 y1 y2) x1 x2 y1 y2)
      | LRankDef => None
      end
  end.

Definition all_true (ny nx : Z) : maskt := map (fun _ => map (fun _ => true) (zrange 0 nx)) (zrange 0 ny).
Definition mask_pos (h : hist) : maskt := map (map (fun v => 0 <? v)) h.
