(* helpers for the generated correspondence files *)
From Coq Require Import QArith Qabs List Bool Arith.
Import ListNotations.
Open Scope Q_scope.

Fixpoint bad_idx_from {A} (k : nat) (f : A -> bool) (l : list A) : list nat :=
  match l with
  | [] => []
  | x :: r => if f x then bad_idx_from (S k) f r else k :: bad_idx_from (S k) f r
  end.
Definition bad_idx {A} (f : A -> bool) (l : list A) : list nat := bad_idx_from 0 f l.

Definition Qleb (a b : Q) : bool := Qle_bool a b.
Definition Qltb (a b : Q) : bool := negb (Qle_bool b a).
Definition qclose (tol a b : Q) : bool := Qle_bool (Qabs (a - b)) tol.
Fixpoint qclose_list (tol : Q) (a b : list Q) : bool :=
  match a, b with
  | [], [] => true
  | x :: a', y :: b' => qclose tol x y && qclose_list tol a' b'
  | _, _ => false
  end.
Fixpoint qclose_mat (tol : Q) (a b : list (list Q)) : bool :=
  match a, b with
  | [], [] => true
  | x :: a', y :: b' => qclose_list tol x y && qclose_mat tol a' b'
  | _, _ => false
  end.
Definition Qmax (a b : Q) : Q := if Qle_bool a b then b else a.
Definition Qmin (a b : Q) : Q := if Qle_bool a b then a else b.
Definition list_max_abs (l : list Q) : Q := fold_right (fun x acc => Qmax (Qabs x) acc) 0 l.
Fixpoint list_eqb {A} (eqb : A -> A -> bool) (a b : list A) : bool :=
  match a, b with
  | [], [] => true
  | x :: a', y :: b' => eqb x y && list_eqb eqb a' b'
  | _, _ => false
  end.
