(* frozen models of the code BEFORE the fix: commits, kept so that the refutations of the old behaviour
   stay machine-checked (Props/*: ..._refuted_before_fix). Nothing here models the current code. *)
From Coq Require Import QArith Qabs List Bool Arith.
From TW Require Import GJModel LSQ Rscale.
Import ListNotations.
Open Scope Q_scope.

(* F1: `if rot_num == rot_denom: theta = 0` in fit_rscale *)
Definition legacy_rscale_F1 (l : list pr) : sim :=
  let a := den l / q2 l in
  let b := if Qeq_bool (num l) (den l) then 0 else num l / q2 l in
  let t0 := {| sa := a; sb_ := b; sflip := flip l; s1 := 0; s2 := 0 |} in
  {| sa := a; sb_ := b; sflip := flip l;
     s1 := xm l - (a * um l + b * vm l); s2 := ym l - (f10 t0 * um l + f11 t0 * vm l) |}.

(* F12: `sdet = np.sign(det)` (0 for det == 0) in the shift terms of fit_rscale *)
Definition legacy_rscale_F12 (l : list pr) : sim :=
  let a := ma l in let b := mb l in
  let sd := if Qlt_le_dec (detc l) 0 then -1 else if Qeq_bool (detc l) 0 then 0 else 1 in
  (* xshift = xm - um*cthetax - sdet*vm*sthetax ; yshift = ym + sdet*um*sthetay - vm*cthetay, proper branch *)
  {| sa := a; sb_ := b; sflip := flip l;
     s1 := xm l - um l * a - sd * vm l * (if flip l then - b else b);
     s2 := ym l + sd * um l * b - vm l * (if flip l then - a else a) |}.
