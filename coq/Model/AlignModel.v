(* C13 / C14: executable state-machine model of tweakwcs.imalign.align_wcs (after the repairs F5, F8, F9, F16, F17).

   What is modelled (in code order):
     1. argument checks  (wcscat type -> TypeError; missing catalog -> ValueError; fitgeom -> ValueError;
        refcat: table without RA/DEC -> KeyError, empty table / corrector without catalog -> ValueError,
        other type -> TypeError)  -- all before any state change;
     2. grouping by first appearance, ungrouped images are singletons at their own position (F9);
        the fitgeom check is unconditional (F16);
     3. groups / ungrouped images whose combined catalog is empty get FAILED(0) and are dropped (F8);
     4. the enough-catalogs rule: fewer than 2 live groups without refcat, fewer than 1 with -> NotEnoughCatalogs;
     5. reference selection (status REFERENCE, reference catalog := catalog of that group);
     6. the alignment loop: next group := head of the work list when the user order is in force
        (enforce_user_order or not expand_refcat), otherwise the group chosen by the ordering ORACLE `pick`
        (any function; the model clips its answer to a valid index so every oracle is admissible);
        match+fit outcome from the ORACLE `outcome` (Matched u | Fails u | FitRaises u, u = number of unmatched
        rows of the group catalog; Fails = fewer than minobj matches, FitRaises = the fit itself raised
        NotEnoughPointsError / SingularMatrixError, which align_to_ref turns into FAILED:<message> (F17): no
        correction, the loop continues); SUCCESS groups receive exactly one set_correction per member;
     7. the expansion decision  expand && (status = SUCCESS || area = 0)  (F5), area from the ORACLE `area0`;
     8. RefCatalog.expand_catalog: ids  max+1 .. max+u.

   The oracles see the current reference catalog as the list of contributions (who contributed how many rows),
   in row order. *)
From Coq Require Import List Bool Arith ZArith.
Import ListNotations.

Inductive stclass := Unset | Reference | Success | Failed (reason : nat).   (* 0 empty catalog, 1 not enough matches, 2 fit raised *)
Inductive exc := ExcType | ExcValue | ExcKey | ExcNotEnough
  | ExcFit.   (* NotEnoughPointsError / SingularMatrixError escaping: only the frozen pre-F17 model raises it *)
Record image := { gid : option nat; nonempty : bool }.
Definition group := list nat.                                  (* positions in the input list *)

(* ---- grouping (same definitions as Proofs/Align.v) ---- *)
Definition gkey := (option nat * nat)%type.      (* (Some g, 0) for group g, (None, k) for the ungrouped image k *)
Definition gkey_eqb (a b : gkey) : bool :=
  match fst a, fst b with
  | Some x, Some y => Nat.eqb x y
  | None, None => Nat.eqb (snd a) (snd b)
  | _, _ => false
  end.
Definition gkey_of (k : nat) (im : image) : gkey := match gid im with Some g => (Some g, 0) | None => (None, k) end.
Fixpoint add_member (kk : gkey) (i : nat) (gs : list (gkey * group)) : list (gkey * group) :=
  match gs with
  | [] => [(kk, [i])]
  | (k', ms) :: gs' => if gkey_eqb kk k' then (k', ms ++ [i]) :: gs' else (k', ms) :: add_member kk i gs'
  end.
Fixpoint group_from (k : nat) (ims : list image) (gs : list (gkey * group)) : list (gkey * group) :=
  match ims with
  | [] => gs
  | im :: ims' => group_from (S k) ims' (add_member (gkey_of k im) k gs)
  end.
Definition groups (ims : list image) : list group := map snd (group_from 0 ims []).

(* ---- arguments ---- *)
(* the reference argument; `ids` are the ids the RefCatalog holds after construction
   (the table's id column, or 1..n when it has none) *)
Inductive refarg :=
  | RefNone
  | RefTable (has_radec : bool) (ids : list Z)
  | RefCorr (has_cat : bool) (ids : list Z)
  | RefBadType.

Record opts := {
  o_wcscat_ok : bool;           (* wcscat is a WCSCorrector or a list of WCSCorrectors *)
  o_cats_ok : bool;             (* every corrector has meta['catalog'] *)
  o_fitgeom_ok : bool;
  o_minobj : option nat;
  o_ref : refarg;
  o_expand : bool;
  o_enforce : bool }.

(* (exception class, stage) ; stage: 1 wcscat, 2 catalog, 3 fitgeom, 4 refcat, 5 enough-catalogs *)
Definition check_args (o : opts) : option (exc * nat) :=
  if negb (o_wcscat_ok o) then Some (ExcType, 1)
  else if negb (o_cats_ok o) then Some (ExcValue, 2)
  else if negb (o_fitgeom_ok o) then Some (ExcValue, 3)
  else match o_ref o with
       | RefBadType => Some (ExcType, 4)
       | RefTable false _ => Some (ExcKey, 4)
       | RefTable true [] => Some (ExcValue, 4)
       | RefCorr false _ => Some (ExcValue, 4)
       | RefCorr true [] => Some (ExcValue, 4)
       | _ => None
       end.

Definition ref_given (o : opts) : bool := match o_ref o with RefNone => false | _ => true end.
Definition eff_enforce (o : opts) : bool := o_enforce o || negb (o_expand o).

(* ---- reference catalog bookkeeping ---- *)
Record contrib := { c_from : option group;   (* None: the caller's reference catalog; Some g: rows that came from group g *)
                    c_rows : nat }.
Definition refstate := list contrib.         (* blocks in row order: the original rows first *)

Definition maxid (ids : list Z) : Z := match ids with [] => 0%Z | x :: r => fold_right Z.max x r end.
Definition expand_ids (ids : list Z) (k : nat) : list Z :=
  ids ++ map (fun j => (maxid ids + 1 + Z.of_nat j)%Z) (seq 0 k).

(* ---- oracles ---- *)
Inductive mres := Matched (unm : nat) | Fails (unm : nat) | FitRaises (unm : nat).
Record oracle := {
  pick_ref : list group -> nat;                 (* reference group among the live groups (order optimised) *)
  pick : refstate -> list group -> nat;         (* next group in the work list (order optimised) *)
  outcome : group -> refstate -> mres;          (* matcher + fit of this group against the current reference *)
  area0 : group -> refstate -> bool;            (* overlap area with the current reference is 0 *)
  gids : group -> list Z                        (* id column of the group catalog (used for the reference image) *)
}.
Definition mres_ok (r : mres) : bool := match r with Matched _ => true | _ => false end.
Definition mres_unm (r : mres) : nat := match r with Matched u => u | Fails u => u | FitRaises u => u end.
Definition fail_reason (r : mres) : nat := match r with FitRaises _ => 2 | _ => 1 end.

(* ---- per-image maps ---- *)
Definition inb (i : nat) (ms : list nat) : bool := existsb (Nat.eqb i) ms.
Definition set_st (ms : list nat) (v : stclass) (f : nat -> stclass) : nat -> stclass :=
  fun i => if inb i ms then v else f i.
Definition bump (ms : list nat) (c : nat -> nat) : nat -> nat := fun i => if inb i ms then S (c i) else c i.

Definition clip (k n : nat) : nat := if k <? n then k else 0.
Definition remove_at {A} (k : nat) (l : list A) : list A := firstn k l ++ skipn (S k) l.

Record lstate := { ls_st : nat -> stclass; ls_corr : nat -> nat; ls_ref : refstate; ls_ids : list Z;
                   ls_order : list group }.

Definition will_grow (o : opts) (orc : oracle) (g : group) (rs : refstate) : bool :=
  o_expand o && (mres_ok (outcome orc g rs) || area0 orc g rs).

Definition step (o : opts) (orc : oracle) (g : group) (s : lstate) : lstate :=
  let r := outcome orc g (ls_ref s) in
  let grow := will_grow o orc g (ls_ref s) in
  {| ls_st := set_st g (if mres_ok r then Success else Failed (fail_reason r)) (ls_st s);
     ls_corr := if mres_ok r then bump g (ls_corr s) else ls_corr s;
     ls_ref := if grow then ls_ref s ++ [{| c_from := Some g; c_rows := mres_unm r |}] else ls_ref s;
     ls_ids := if grow then expand_ids (ls_ids s) (mres_unm r) else ls_ids s;
     ls_order := ls_order s ++ [g] |}.

Definition next_index (o : opts) (orc : oracle) (rs : refstate) (queue : list group) : nat :=
  if eff_enforce o then 0 else clip (pick orc rs queue) (length queue).

Fixpoint loop (o : opts) (orc : oracle) (fuel : nat) (queue : list group) (s : lstate) : lstate :=
  match fuel with
  | 0 => s
  | S f => match queue with
           | [] => s
           | _ :: _ => let k := next_index o orc (ls_ref s) queue in
                       loop o orc f (remove_at k queue) (step o orc (nth k queue []) s)
           end
  end.

(* ---- the run ---- *)
Record result := { r_exc : option exc; r_stage : nat;
                   r_st : list stclass; r_corr : list nat;
                   r_ref : refstate; r_ids : list Z; r_order : list group }.

Definition is_nonempty (ims : list image) (i : nat) : bool :=
  match nth_error ims i with Some im => nonempty im | None => false end.
Definition group_live (ims : list image) (g : group) : bool := existsb (is_nonempty ims) g.
Definition live_groups (ims : list image) : list group := filter (group_live ims) (groups ims).
Definition dead_groups (ims : list image) : list group := filter (fun g => negb (group_live ims g)) (groups ims).
Definition need (o : opts) : nat := if ref_given o then 1 else 2.
Definition st_dead (ims : list image) : nat -> stclass :=
  fold_right (fun g f => set_st g (Failed 0) f) (fun _ => Unset) (dead_groups ims).

Definition tab {A} (n : nat) (f : nat -> A) : list A := map f (seq 0 n).
Definition raised (n : nat) (e : exc) (stage : nat) (st : nat -> stclass) : result :=
  {| r_exc := Some e; r_stage := stage; r_st := tab n st; r_corr := tab n (fun _ => 0);
     r_ref := []; r_ids := []; r_order := [] |}.

Definition ref_index (o : opts) (orc : oracle) (live : list group) : nat :=
  if eff_enforce o || (length live =? 2) then 0 else clip (pick_ref orc live) (length live).

(* state after reference selection, and the work list *)
Definition start (ims : list image) (o : opts) (orc : oracle) : lstate * list group :=
  let live := live_groups ims in
  match o_ref o with
  | RefNone =>
      let k := ref_index o orc live in
      let r := nth k live [] in
      ({| ls_st := set_st r Reference (st_dead ims); ls_corr := fun _ => 0;
          ls_ref := [{| c_from := Some r; c_rows := length (gids orc r) |}]; ls_ids := gids orc r;
          ls_order := [r] |}, remove_at k live)
  | RefTable _ ids | RefCorr _ ids =>
      ({| ls_st := st_dead ims; ls_corr := fun _ => 0;
          ls_ref := [{| c_from := None; c_rows := length ids |}]; ls_ids := ids; ls_order := [] |}, live)
  | RefBadType =>
      ({| ls_st := st_dead ims; ls_corr := fun _ => 0; ls_ref := []; ls_ids := []; ls_order := [] |}, [])
  end.

Definition align (ims : list image) (o : opts) (orc : oracle) : result :=
  let n := length ims in
  match check_args o with
  | Some (e, stage) => raised n e stage (fun _ => Unset)
  | None =>
      if length (live_groups ims) <? need o then raised n ExcNotEnough 5 (st_dead ims)
      else
        let '(s1, queue) := start ims o orc in
        let s2 := loop o orc (length queue) queue s1 in
        {| r_exc := None; r_stage := 0; r_st := tab n (ls_st s2); r_corr := tab n (ls_corr s2);
           r_ref := ls_ref s2; r_ids := ls_ids s2; r_order := ls_order s2 |}
  end.
