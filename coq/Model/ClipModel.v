(* Concrete instantiation of the sigma-clipping step of iter_linear_fit: exact residuals of a given
   affine map, the three statistics of _compute_stat (rmse^2, std^2 exact; mae through a rational
   square-root enclosure), three-valued cut-off decision. Used to validate implementation traces. *)
From Coq Require Import QArith Qabs List Bool Arith.
From TW Require Import CorrUtil GJModel LSQ LinearFit Clip FloorSqrt.
Import ListNotations.
Open Scope Q_scope.

Inductive stat := SRmse | SMae | SStd.
Record fitp := { f00 : Q; f01 : Q; f10_ : Q; f11_ : Q; fs0 : Q; fs1 : Q }.

Definition rx (f : fitp) (p : pt4) : Q := qx p - (f00 f * qu p + f01 f * qv p + fs0 f).
Definition ry (f : fitp) (p : pt4) : Q := qy p - (f10_ f * qu p + f11_ f * qv p + fs1 f).
Definition r2 (f : fitp) (p : pt4) : Q := Qred (rx f p * rx f p + ry f p * ry f p).

Definition sumr {A} (g : A -> Q) (l : list A) : Q := fold_right (fun a acc => Qred (g a + acc)) 0 l.

Definition sqrt_k : positive := 1125899906842624.   (* 2^50: absolute precision of the enclosure *)

(* upper end of the enclosure, exact when the argument is a perfect square at this precision *)
Definition sqrt_hi_tight (x : Q) : Q :=
  let lo := sqrt_lo sqrt_k x in if Qeq_bool (lo * lo) x then lo else sqrt_hi sqrt_k x.

(* pw : list of (point, weight) for the retained points; weighted = were weights supplied *)
Definition stat2_encl (st : stat) (weighted : bool) (f : fitp) (pw : list (pt4 * Q)) : Q * Q :=
  let W := sumr snd pw in
  match st with
  | SRmse => let v := Qred (sumr (fun a => snd a * r2 f (fst a)) pw / W) in (v, v)
  | SMae =>
      let lo := Qred (sumr (fun a => snd a * sqrt_lo sqrt_k (r2 f (fst a))) pw / W) in
      let hi := Qred (sumr (fun a => snd a * sqrt_hi_tight (r2 f (fst a))) pw / W) in
      (Qred (lo * lo), Qred (hi * hi))
  | SStd =>
      if weighted && Nat.eqb (length pw) 1 then (0, 0) else
      let mx := Qred (sumr (fun a => snd a * rx f (fst a)) pw / W) in
      let my := Qred (sumr (fun a => snd a * ry f (fst a)) pw / W) in
      let num := Qred (sumr (fun a => snd a * ((rx f (fst a) - mx) * (rx f (fst a) - mx)
                                         + (ry f (fst a) - my) * (ry f (fst a) - my))) pw / W) in
      let v2 := Qred (sumr (fun a => snd a * snd a) pw / (W * W)) in
      let v := if weighted then Qred (num / (1 - v2)) else num in
      (v, v)
  end.

Definition rel20 : Q := 1 + (1 # 1048576).

(* (sure-below, not-sure-above) for every point; the band is (rel - 1) relative plus eps2 absolute.
   With rel = 1 and eps2 = 0 (used only for inputs on which the float computation is exact) the decision is
   the exact strict comparison |r|^2 < cutoff^2. *)
Definition below_masks (f : fitp) (c2 : Q * Q) (rel eps2 : Q) (pts : list pt4) : list bool * list bool :=
  (map (fun p => Qltb (r2 f p * rel + eps2) (fst c2)) pts,
   map (fun p => Qltb (r2 f p) (snd c2 * rel + eps2)) pts).

Fixpoint between (a m b : list bool) : bool :=
  match a, m, b with
  | [], [], [] => true
  | x :: a', y :: m', z :: b' => (implb x y) && (implb y z) && between a' m' b'
  | _, _, _ => false
  end.
Fixpoint decided_diff (lo hi m : list bool) : bool :=
  match lo, hi, m with
  | x :: lo', y :: hi', z :: m' => (Bool.eqb x y && negb (Bool.eqb x z)) || decided_diff lo' hi' m'
  | _, _, _ => false
  end.

Inductive verdict := SureStop | SureGo | Undecided.

(* one clipping iteration from the state (mask m, fit f), three-valued *)
Definition clip_step3 (minobj : nat) (accum weighted : bool) (st : stat) (nsig rel eps2 : Q)
           (pts : list pt4) (w : list Q) (wm m : list bool) (f : fitp) : verdict * list bool * list bool :=
  let pw := filt m (combine pts w) in
  let s2 := stat2_encl st weighted f pw in
  let c2 := (Qred (nsig * nsig * fst s2), Qred (nsig * nsig * snd s2)) in
  let tested := if accum then m else wm in
  let bm := below_masks f c2 rel eps2 pts in
  let nlo := mand tested (fst bm) in
  let nhi := mand tested (snd bm) in
  let v := if (count nhi <? minobj)%nat || (meqb nlo m && meqb nhi m) then SureStop
           else if (minobj <=? count nlo)%nat && decided_diff nlo nhi m then SureGo
           else Undecided in
  (v, nlo, nhi).
