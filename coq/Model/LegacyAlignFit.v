(* Frozen model of JWSTWCSCorrector BEFORE repair c5e1453 (finding F7), specialised to identity external
   transforms (detector = v2v3 = sky = tangent plane), as far as C01 and C05 observe it.
   Before the repair the tangent plane of an already corrected gWCS was taken from frame 'v2v3corr' AND the
   partial model applied tp_affine again:  det_to_tanp = A o A o tan,  world_to_tanp = A o tan o S^-1. *)
From Coq Require Import QArith Qcanon List.
From TW Require Import Corrector.
Open Scope Qc_scope.

Definition leg_d2t (A : aff) (t0 : pt) : pt := app A (app A t0).
Definition leg_w2t (A : aff) (w : pt) : pt := app A w.
Definition leg_t2w (A : aff) (t : pt) : pt := app (inva A) t.
Definition leg_d2w (A : aff) (t0 : pt) : pt := app A t0.

(* C01 scenario: reference position of a pixel := leg_t2w (G (leg_d2t pixel)).  The matched pairs seen by the
   fit (in the plane of the corrector's copy) are (G (A A t0), A A t0), so the fit returns G; the copy's plane
   coincides with the image's (r = identity), and set_correction combines G with the old affine. *)
Definition leg_reference (A G : aff) (t0 : pt) : pt := leg_t2w A (app G (leg_d2t A t0)).
Definition leg_after_fit (A G : aff) (t0 : pt) : pt := leg_d2w (comp G A) t0.

(* C05 scenario: reference plane = the sky itself (identity plane); the member has an earlier correction A.
   _tp2tp(ref, member) evaluates member.world_to_tanp o ref.tanp_to_world = app A, so r = A and the member
   receives comp (r F r^-1) A; the sky-level map every member should receive is F. *)
Definition leg_member_after (A F : aff) (t0 : pt) : pt :=
  leg_d2w (comp (comp A (comp F (inva A))) A) t0.
Definition leg_member_expected (A F : aff) (t0 : pt) : pt := app F (leg_d2w A t0).
