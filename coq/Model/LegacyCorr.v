(* frozen model of JWSTWCSCorrector._update_transformations BEFORE fix F7 (commit c5e1453): the tangent-plane
   transforms were taken from the frame self._v23name, which is 'v2v3corr' once a correction exists, so the
   accumulated affine is applied twice (once inside the pipeline step, once by self._partial_tpcorr).
   Nothing here models the current code; it keeps the refutation of the old behaviour machine-checked. *)
From Coq Require Import QArith Qcanon List Bool Arith.
From TW Require Import CorrModel.
Import ListNotations.
Open Scope Qc_scope.

Definition tan_frame_legacy_F7 (st : gst) : fname := g_v23 st.

(* a concrete, fully executable instance of the abstract transforms: every opaque model is the identity on pt *)
Definition idF (n : nat) (x : pt) : pt := x.
Definition idT (x : pt) : pt := x.
Definition leg_d2w := g_d2w pt idF idT idT.
Definition leg_d2t := g_d2t pt idF idF idT idT 1 tan_frame_legacy_F7.
Definition leg_w2t := g_w2t pt idF idF idT idT 1 tan_frame_legacy_F7.
Definition leg_t2w := g_t2w pt idF idF idT idT 1 tan_frame_legacy_F7.
Definition fix_d2t := g_d2t pt idF idF idT idT 1 (tan_frame).
Definition fix_w2t := g_w2t pt idF idF idT idT 1 (tan_frame).
Definition fix_t2w := g_t2w pt idF idF idT idT 1 (tan_frame).

Definition demo_wcs : wcs := [(Fdet, TOpaque 0); (Fv2v3, TOpaque 1); (Fvacorr, TOpaque 2); (Fworld, TEnd)].
Definition demo_info : ang := (0, 0, 0).
Definition shear_x : mat := {| m11 := 1; m12 := 1; m21 := 0; m22 := 1 |}.
Definition shear_y : mat := {| m11 := 1; m12 := 0; m21 := 1; m22 := 1 |}.

(* a concrete history used by the witnesses: shear_x, then shear_y, on the demo pipeline *)
Definition obind {A B} (o : option A) (f : A -> option B) : option B := match o with Some a => f a | None => None end.
Definition demo_st0 : option gst := ginit demo_wcs demo_info.
Definition demo_st1 : option gst := obind demo_st0 (fun s => gset 1 s shear_x (0, 0)).
Definition demo_st2 : option gst := obind demo_st1 (fun s => gset 1 s shear_y (0, 0)).
Definition demo_hist : list op :=
  [OpSet shear_x (1, 0); OpCopy; OpRewrap; OpSetRef {| amat := shear_y; ash := (0, 1) |} shear_x (1, 1)].
Definition demo_run : option gst := obind demo_st0 (fun s => grun 1 s demo_hist).
