(* Executable model of tweakwcs.matchutils._xy_2dhist and of the exits / bin->offset conversion of
   _estimate_2dhist_shift (code after repair F3). *)
From Coq Require Import QArith Qround ZArith List Bool.
From TW Require Import Peak.
Import ListNotations.
Open Scope Q_scope.

Definition pt := (Q * Q)%type.

(* imgxy / pscale *)
Definition scale_pts (pscale : Q) (l : list pt) : list pt :=
  map (fun p => (Qred (fst p / pscale), Qred (snd p / pscale))) l.

(* dx = imgxy[mi, 0] - refxy[mr, 0], dy likewise: all (image, reference) pairs, image-major.
   (The KD-tree only pre-selects pairs within (r + 0.5) * sqrt 2, a superset of the box below.) *)
Definition deltas (img ref : list pt) : list (Q * Q) :=
  flat_map (fun p => map (fun q => (fst p - fst q, snd p - snd q)) ref) img.

(* (dx < r + 0.5) & (dx >= -r - 0.5) & (dy < r + 0.5) & (dy >= -r - 0.5) *)
Definition inbox (r : Q) (d : Q * Q) : bool :=
  Qltb' (fst d) (r + (1#2)) && Qleb' (- r - (1#2)) (fst d) &&
  Qltb' (snd d) (r + (1#2)) && Qleb' (- r - (1#2)) (snd d).

(* r = int(np.ceil(r)); 2 * r + 1 unit bins on [-r - 0.5, r + 0.5] *)
Definition half_bins (r : Q) : Z := Qceiling r.
Definition binof (R : Z) (d : Q) : Z := Qfloor (d + inject_Z R + (1#2)).

Definition bins (r : Q) (img ref : list pt) : list (Z * Z) :=
  map (fun d => (binof (half_bins r) (fst d), binof (half_bins r) (snd d))) (filter (inbox r) (deltas img ref)).

Definition count (bs : list (Z * Z)) (bx by_ : Z) : Z :=
  Z.of_nat (length (filter (fun b => (fst b =? bx)%Z && (snd b =? by_)%Z) bs)).

(* h[0] of np.histogram2d(dx, dy, ...): indexed [x bin][y bin] *)
Definition hist_xy (r : Q) (img ref : list pt) : hist :=
  let n := (2 * half_bins r + 1)%Z in
  let bs := bins r img ref in
  map (fun bx => map (fun by_ => count bs bx by_) (zrange 0 n)) (zrange 0 n).

(* h[0].T : indexed [y bin][x bin] *)
Definition transpose_sq (n : Z) (h : hist) : hist :=
  map (fun j => map (fun i => val h i j) (zrange 0 n)) (zrange 0 n).

Definition xy_2dhist (r : Q) (img ref : list pt) : hist :=
  transpose_sq (2 * half_bins r + 1) (hist_xy r img ref).

Definition nonzero_cells (n : Z) (zp : hist) : list (Z * Z) :=
  filter (fun ji => negb (val zp (fst ji) (snd ji) =? 0)%Z) (cells n n).

(* bin -> offset:  pscale * (xp - zpmat.shape[1] // 2)  (F3) *)
Definition bin2off (pscale : Q) (n : Z) (xp : Q) : Q := pscale * (xp - inject_Z (n / 2)).

(* _estimate_2dhist_shift with r = searchrad / pscale passed in (the float quotient) *)
Definition estimate_with (solver : list (Z * Z * Z) -> option coef6)
           (img ref : list pt) (r pscale : Q) : Q * Q :=
  let n := (2 * half_bins r + 1)%Z in
  let zp := xy_2dhist r (scale_pts pscale img) (scale_pts pscale ref) in
  match length (nonzero_cells n zp) with
  | O => (0, 0)
  | S O =>
      match argmax_first zp (cells n n) with
      | Some (yp, xp) => (bin2off pscale n (inject_Z xp), bin2off pscale n (inject_Z yp))
      | None => (0, 0)
      end
  | _ =>
      let pk := find_peak_with solver n n zp (mask_pos zp) 5 in
      if is_error (p_st pk) then (0, 0)
      else (bin2off pscale n (p_x pk), bin2off pscale n (p_y pk))
  end.

(* which exit was taken, for the evidence / correspondence *)
Inductive est_exit := ExitNoPairs | ExitOneBin | ExitPeak.
Definition estimate_exit (img ref : list pt) (r pscale : Q) : est_exit :=
  let n := (2 * half_bins r + 1)%Z in
  match length (nonzero_cells n (xy_2dhist r (scale_pts pscale img) (scale_pts pscale ref))) with
  | O => ExitNoPairs | S O => ExitOneBin | _ => ExitPeak
  end.

(* executable: exact LSQ; None when the peak fit is rank deficient *)
Definition estimate_exec (img ref : list pt) (r pscale : Q) : option (Q * Q) :=
  let n := (2 * half_bins r + 1)%Z in
  let zp := xy_2dhist r (scale_pts pscale img) (scale_pts pscale ref) in
  match length (nonzero_cells n zp) with
  | O => Some (0, 0)
  | S O =>
      match argmax_first zp (cells n n) with
      | Some (yp, xp) => Some (bin2off pscale n (inject_Z xp), bin2off pscale n (inject_Z yp))
      | None => Some (0, 0)
      end
  | _ =>
      match find_peak_exec n n zp (mask_pos zp) 5 with
      | Some pk => if is_error (p_st pk) then Some (0, 0)
                   else Some (bin2off pscale n (p_x pk), bin2off pscale n (p_y pk))
      | None => None
      end
  end.
