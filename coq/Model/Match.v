(* Specification matcher for C11: the set of (reference index, image index) pairs whose residual after
   removing the offset is within the tolerance (Euclidean, squared to stay in Q). *)
From Coq Require Import QArith List Bool Arith.
Import ListNotations.
Open Scope Q_scope.

Definition mpt := (Q * Q)%type.

(* |im - off - ref|^2 <= tol^2 *)
Definition resid2 (off : mpt) (r m : mpt) : Q :=
  let dx := fst m - fst off - fst r in
  let dy := snd m - snd off - snd r in dx * dx + dy * dy.
Definition close (off : mpt) (tol : Q) (r m : mpt) : bool := Qle_bool (resid2 off r m) (tol * tol).

Definition rnth (l : list mpt) (i : nat) : mpt := nth i l (0, 0).

Definition true_pairs (ref im : list mpt) (off : mpt) (tol : Q) : list (nat * nat) :=
  filter (fun ik => close off tol (rnth ref (fst ik)) (rnth im (snd ik)))
         (list_prod (seq 0 (length ref)) (seq 0 (length im))).

(* catalog with rows re-ordered: row a of the new catalog is row (nth a s) of the old one *)
Definition reorder (l : list mpt) (s : list nat) : list mpt := map (rnth l) s.
