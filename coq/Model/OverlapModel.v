(* C15: executable model of tweakwcs.imalign._max_overlap_pair, _max_overlap_image (after repairs F4, F5)
   and of the grouping block of align_wcs (after repair F9).

   Images are identified by their position in the INPUT list (0 .. n-1).  The overlap of two images is an
   abstract function; `omat` is imalign.overlap_matrix (only i < j is evaluated, mirrored, zero diagonal). *)
From Coq Require Import QArith List Bool Arith.
Import ListNotations.
Open Scope Q_scope.

(* ---------- list.pop(k) / np.delete(a, k) ---------- *)
Fixpoint remove_nth {A} (k : nat) (l : list A) : list A :=
  match l, k with
  | [], _ => []
  | _ :: t, O => t
  | h :: t, S k' => h :: remove_nth k' t
  end.

(* ---------- np.argmax: FIRST maximum of a sequence of (key, value); (best, bv) is the running maximum ---------- *)
Fixpoint argmax_aux {K} (best : K) (bv : Q) (l : list (K * Q)) : K * Q :=
  match l with
  | [] => (best, bv)
  | (k, v) :: l' => if Qlt_le_dec bv v then argmax_aux k v l' else argmax_aux best bv l'
  end.

(* ---------- np.argsort (stable for the short arrays that occur: insertion sort), ascending, on (item, key) ---------- *)
Fixpoint insert_asc {A} (x : A * Q) (l : list (A * Q)) : list (A * Q) :=
  match l with
  | [] => [x]
  | y :: l' => if Qlt_le_dec (snd y) (snd x) then y :: insert_asc x l' else x :: l
  end.
(* fold_right inserts the LATER elements first, so an element is placed before its equals that follow it: stable *)
Definition sort_asc {A} (l : list (A * Q)) : list (A * Q) := fold_right insert_asc [] l.

(* ---------- imalign.overlap_matrix ---------- *)
Definition omat (ov : nat -> nat -> Q) (i j : nat) : Q :=
  if Nat.eqb i j then 0 else if Nat.ltb i j then ov i j else ov j i.

Record pick := { p_ref : option nat; p_sec : option nat; p_area : option Q; p_rest : list nat }.

Section Pair.
Variable n : nat.                   (* len(images) *)
Variable m : nat -> nat -> Q.       (* m = overlap_matrix(images) *)

(* i, j = np.unravel_index(m.argmax(), m.shape): first maximum in row-major order *)
Definition cells : list ((nat * nat) * Q) :=
  map (fun ij => (ij, m (fst ij) (snd ij))) (list_prod (seq 0 n) (seq 0 n)).
Definition argmax2 : nat * nat := fst (argmax_aux (0%nat, 0%nat) (m 0%nat 0%nat) cells).

Definition rowsum (i : nat) : Q := fold_right (fun j acc => m i j + acc) 0 (seq 0 n).   (* np.sum(m[i])    *)
Definition colsum (j : nat) : Q := fold_right (fun i acc => m i j + acc) 0 (seq 0 n).   (* np.sum(m[:, j]) *)

(* if si < sj: i, j = j, i *)
Definition select : nat * nat :=
  let i0 := fst argmax2 in
  let j0 := snd argmax2 in
  if Qlt_le_dec (rowsum i0) (colsum j0) then (j0, i0) else (i0, j0).

(* everything after the swap, for given i, j *)
Definition pair_from (i j : nat) : pick :=
  let area := m i j in                                         (* overlap_area = m[i, j]   (F4: BEFORE j -= 1) *)
  let j' := if Nat.ltb i j then (j - 1)%nat else j in          (* if i < j: j -= 1 *)
  let l := seq 0 n in
  let im1 := nth i l 0%nat in                                  (* im1 = images.pop(i) *)
  let l1 := remove_nth i l in
  let im2 := nth j' l1 0%nat in                                (* im2 = images.pop(j) *)
  let l2 := remove_nth j' l1 in
  let row := remove_nth j' (remove_nth i (map (m i) (seq 0 n))) in   (* row = m[i]; np.delete twice *)
  (* sorting_indices = np.argsort(row)[::-1]; images[:] = [images[k] for k in sorting_indices]:
     the pairs (images[k], row[k]) in stable ascending order of row[k], reversed *)
  let sorted := rev (sort_asc (combine l2 row)) in
  {| p_ref := Some im1; p_sec := Some im2; p_area := Some area; p_rest := map fst sorted |}.

Definition pair_opt : pick := pair_from (fst select) (snd select).

(* _max_overlap_pair(images, enforce_user_order); p_rest is the state of `images` on return *)
Definition max_overlap_pair (enforce : bool) : pick :=
  match n with
  | O => {| p_ref := None; p_sec := None; p_area := None; p_rest := [] |}
  | 1%nat => {| p_ref := Some 0%nat; p_sec := None; p_area := None; p_rest := [0%nat] |}   (* nothing is popped *)
  | _ => if Nat.eqb n 2 || enforce
         then {| p_ref := Some 0%nat; p_sec := Some 1%nat; p_area := Some (m 0%nat 1%nat);
                 p_rest := seq 2 (n - 2) |}
         else pair_opt
  end.
End Pair.

(* ---------- _max_overlap_image(refimage, images, enforce_user_order) ----------
   v = [refimage._guarded_intersection_area(im)[0] for im in images]; positions refer to the work list *)
Record ipick := { i_img : option nat; i_area : option Q; i_rest : list nat }.

Definition vcells (v : list Q) : list (nat * Q) := map (fun k => (k, nth k v 0)) (seq 0 (length v)).
Definition argmax1 (v : list Q) : nat := fst (argmax_aux 0%nat (nth 0 v 0) (vcells v)).

Definition max_overlap_image (enforce : bool) (v : list Q) : ipick :=
  match v with
  | [] => {| i_img := None; i_area := None; i_rest := [] |}
  | v0 :: v' =>
      if enforce then {| i_img := Some 0%nat; i_area := Some v0; i_rest := seq 1 (length v') |}   (* F5: area *)
      else let idx := argmax1 v in
           {| i_img := Some idx; i_area := Some (nth idx v 0); i_rest := remove_nth idx (seq 0 (length v)) |}
  end.

(* ---------- grouping block of align_wcs ----------
   grouped_images = defaultdict(list); key = (None, k) if group_id is None else (group_id,);
   dict iteration order = order of first insertion. *)
Definition gkey := (option nat * nat)%type.
Definition gkey_eqb (a b : gkey) : bool :=
  (match fst a, fst b with
   | Some x, Some y => Nat.eqb x y
   | None, None => true
   | _, _ => false
   end) && Nat.eqb (snd a) (snd b).
Definition gkey_of (k : nat) (gid : option nat) : gkey :=
  match gid with Some g => (Some g, 0%nat) | None => (None, k) end.

Fixpoint add_member (kk : gkey) (i : nat) (gs : list (gkey * list nat)) : list (gkey * list nat) :=
  match gs with
  | [] => [(kk, [i])]
  | (k', ms) :: gs' => if gkey_eqb kk k' then (k', ms ++ [i]) :: gs' else (k', ms) :: add_member kk i gs'
  end.
Fixpoint group_from (k : nat) (gids : list (option nat)) (gs : list (gkey * list nat)) : list (gkey * list nat) :=
  match gids with
  | [] => gs
  | g :: gids' => group_from (S k) gids' (add_member (gkey_of k g) k gs)
  end.
(* wcs_gcat (all catalogs non-empty): list of groups, each a list of input positions *)
Definition groups (gids : list (option nat)) : list (list nat) := map snd (group_from 0 gids []).

(* with enforce_user_order the first group is the reference and the others are aligned in list order
   (max_overlap_pair true / max_overlap_image true pop the head of the work list) *)
Definition user_order (gids : list (option nat)) : list (list nat) := groups gids.
