(* helpers shared by the correspondence predicates of the corrector properties (C02, C03, C04, C18, C20):
   Q literals -> Qc model values, tolerant comparison of model values with implementation outputs *)
From Coq Require Import QArith Qcanon Qabs List Bool Arith.
From TW Require Import CorrUtil CorrModel.
Import ListNotations.
Open Scope Q_scope.

Definition q4 := (Q * Q * Q * Q)%type.
Definition q2 := (Q * Q)%type.
Definition q3 := (Q * Q * Q)%type.
Definition to_mat (m : q4) : mat :=
  let '(a, b, c, d) := m in {| m11 := Q2Qc a; m12 := Q2Qc b; m21 := Q2Qc c; m22 := Q2Qc d |}.
Definition to_pt (p : q2) : pt := (Q2Qc (fst p), Q2Qc (snd p)).
Definition to_ang (a : q3) : ang := let '(x, y, z) := a in (Q2Qc x, Q2Qc y, Q2Qc z).
Definition of_mat (m : mat) : q4 := (this (m11 m), this (m12 m), this (m21 m), this (m22 m)).
Definition of_pt (p : pt) : q2 := (this (fst p), this (snd p)).

Definition q4_close (tol : Q) (a b : q4) : bool :=
  let '(a1, a2, a3, a4) := a in let '(b1, b2, b3, b4) := b in
  qclose tol a1 b1 && qclose tol a2 b2 && qclose tol a3 b3 && qclose tol a4 b4.
Definition q2_close (tol : Q) (a b : q2) : bool := qclose tol (fst a) (fst b) && qclose tol (snd a) (snd b).
Definition q4_maxabs (a : q4) : Q := let '(a1, a2, a3, a4) := a in Qmax (Qmax (Qabs a1) (Qabs a2)) (Qmax (Qabs a3) (Qabs a4)).
Definition q2_maxabs (a : q2) : Q := Qmax (Qabs (fst a)) (Qabs (snd a)).
Definition mat_close (tol : Q) (m : mat) (i : q4) : bool := q4_close tol (of_mat m) i.
Definition pt_close (tol : Q) (p : pt) (i : q2) : bool := q2_close tol (of_pt p) i.

Definition eps40 : Q := 1 # 1099511627776.        (* 2^-40 *)
Definition eps36 : Q := 1 # 68719476736.          (* 2^-36 *)
Definition eps30 : Q := 1 # 1073741824.           (* 2^-30 *)

Fixpoint fname_list_eqb (a b : list fname) : bool :=
  match a, b with
  | [], [] => true
  | x :: a', y :: b' => fname_eqb x y && fname_list_eqb a' b'
  | _, _ => false
  end.

(* an uncorrected pipeline with the given frame names: opaque transforms, None on the last step *)
Fixpoint wcs_of_frames_from (i : nat) (frs : list fname) : wcs :=
  match frs with
  | [] => []
  | [f] => [(f, TEnd)]
  | f :: r => (f, TOpaque i) :: wcs_of_frames_from (S i) r
  end.
Definition wcs_of_frames (frs : list fname) : wcs := wcs_of_frames_from 0 frs.

(* ------------------------------------------------------------------ operations of a gWCS history as observed *)
Inductive hop :=
| HSet (M : q4) (s : q2)
| HSetRef (ps : Q) (probe : list q2) (pts : list q2) (M : q4) (s : q2)
    (* ps = probe scale; probe = the points handed to ref.tanp_to_world; pts = their images in this image's plane *)
| HCopy
| HRewrap.

Definition nth_pt (l : list q2) (i : nat) : pt := to_pt (nth i l (0, 0)).
Definition ref_affine (ps : Q) (pts : list q2) : aff :=
  tp2tp_from_pts (nth_pt pts 0) (nth_pt pts 1) (nth_pt pts 2) (nth_pt pts 3) (Q2Qc ps).
Definition to_op (h : hop) : op :=
  match h with
  | HSet M s => OpSet (to_mat M) (to_pt s)
  | HSetRef ps _ pts M s => OpSetRef (ref_affine ps pts) (to_mat M) (to_pt s)
  | HCopy => OpCopy
  | HRewrap => OpRewrap
  end.
(* the matrix / shift actually combined into tp_affine (own plane: as given; reference plane: conjugated) *)
Definition eff_corr (h : hop) : option (mat * pt) :=
  match h with
  | HSet M s => Some (to_mat M, to_pt s)
  | HSetRef ps _ pts M s =>
      let G := ref_affine ps pts in
      Some (conj_matrix (amat G) (to_mat M), conj_shift (amat G) (ash G) (to_mat M) (to_pt s))
  | _ => None
  end.
(* probe points of _tp2tp are exactly (+-0.5, +-0.5, 0) * s *)
Definition probe_ok (h : hop) : bool :=
  match h with
  | HSetRef ps probe _ _ _ =>
      list_eqb (fun a b => Qeq_bool (fst a) (fst b) && Qeq_bool (snd a) (snd b))
               (map of_pt (tp2tp_probe (Q2Qc ps))) probe
  | _ => true
  end.


(* running bound B on |translation|: B' = 2 max|M| B + k max|s|  (an upper bound on the exact value) *)
(* magnitude of the probe images a reference-plane correction is derived from (0 for the other operations): the
   numerical plane-to-plane map differences these values, so the translation it yields carries their rounding even
   when the effective shift is (nearly) zero *)
Definition probe_mag (h : hop) : Q :=
  match h with
  | HSetRef _ _ pts _ _ => fold_right (fun a acc => Qmax (q2_maxabs a) acc) 0 pts
  | _ => 0
  end.
Definition bound_step (k : Q) (B : Q) (h : hop) : Q :=
  match eff_corr h with
  | Some (M, s) => Qred (2 * q4_maxabs (of_mat M) * B + Qabs k * (q2_maxabs (of_pt s) + probe_mag h))
  | None => B
  end.

