(* Executable exact-rational model of the single-shot fitters of tweakwcs.linearfit:
   weight combination, error exits in code order, fit_shifts, fit_rscale (scale=None | 1), fit_general.
   Matrix convention of the code: x ~ m00*u + m01*v + s0 ; y ~ m10*u + m11*v + s1. *)
From Coq Require Import QArith Qabs List Bool Arith.
From TW Require Import GJModel LSQ Rscale Rscale2 Shift.
Import ListNotations.
Open Scope Q_scope.

Inductive geom := GShift | GRshift | GRscale | GGeneral.
Inductive ferr := ENotEnough | ENegW | EZeroW | ESingular.

Record pt4 := { qx : Q; qy : Q; qu : Q; qv : Q }.

(* 1/w = 1/wxy + 1/wuv where both positive, else 0 *)
Definition comb1 (a b : Q) : Q :=
  if (Qlt_le_dec 0 a) then (if Qlt_le_dec 0 b then Qred (a * b / (a + b)) else 0) else 0.
Fixpoint comb2 (a b : list Q) : list Q :=
  match a, b with
  | x :: a', y :: b' => comb1 x y :: comb2 a' b'
  | _, _ => []
  end.
Definition comb (wxy wuv : option (list Q)) : option (list Q) :=
  match wxy, wuv with
  | None, None => None
  | Some a, None => Some a
  | None, Some b => Some b
  | Some a, Some b => Some (comb2 a b)
  end.

Fixpoint mkpts (p : list pt4) (w : option (list Q)) : list pr :=
  match p with
  | [] => []
  | a :: p' =>
      let '(wa, w') := match w with
                       | None => (1, None)
                       | Some [] => (0, Some [])
                       | Some (x :: r) => (x, Some r)
                       end in
      {| px := qx a; py := qy a; pu := qu a; pv := qv a; pw := wa |} :: mkpts p' w'
  end.

Definition minpts (g : geom) : nat :=
  match g with GShift => 1 | GRshift => 2 | GRscale => 2 | GGeneral => 3 end.

Definition npos (w : list Q) : nat := length (filter (fun x => if Qlt_le_dec 0 x then true else false) w).
Definition anyneg (w : list Q) : bool := existsb (fun x => if Qlt_le_dec x 0 then negb (Qeq_bool x 0) else false) w.

Inductive fout :=
  | OutAffine (m00 m01 m10 m11 s0 s1 : Q)
  | OutErr (e : ferr).

(* data the rshift/rscale comparison needs: both branches' directions, moments, means *)
Record rsdata := { r_det : Q; r_dp : Q; r_np : Q; r_di : Q; r_ni : Q; r_q2 : Q;
                   r_xm : Q; r_ym : Q; r_um : Q; r_vm : Q; r_scale_det : Q }.

Definition rs_of (l : list pr) : rsdata :=
  {| r_det := Qred (detc l);
     r_dp := Qred (dn l false); r_np := Qred (nm l false);
     r_di := Qred (dn l true);  r_ni := Qred (nm l true);
     r_q2 := Qred (q2 l);
     r_xm := Qred (xm l); r_ym := Qred (ym l); r_um := Qred (um l); r_vm := Qred (vm l);
     r_scale_det := Qred (Qabs (cxu l * cyv l) + Qabs (cxv l * cyu l)) |}.

Definition check_in (g : geom) (p : list pt4) (w : option (list Q)) : option ferr :=
  if Nat.ltb (length p) (minpts g) then Some ENotEnough else
  match w with
  | None => None
  | Some ws => if anyneg ws then Some ENegW
               else if Nat.ltb (npos ws) (minpts g) then Some EZeroW else None
  end.

Definition fit_shift_out (l : list pr) : fout :=
  let r := fit_shift l in OutAffine 1 0 0 1 (Qred (fst r)) (Qred (snd r)).

Definition fit_general_out (l : list pr) : fout :=
  match fit_general l with
  | FitOk p q => OutAffine (Qred (qnth p 0)) (Qred (qnth p 1)) (Qred (qnth q 0)) (Qred (qnth q 1))
                           (Qred (qnth p 2)) (Qred (qnth q 2))
  | FitSingular => OutErr ESingular
  end.

(* rscale in the model's own (exact) branch *)
Definition fit_rscale_out (l : list pr) : fout :=
  if Qle_bool (q2 l) 0 then OutErr ESingular else
  let t := model l in
  OutAffine (Qred (sa t)) (Qred (sb_ t)) (Qred (f10 t)) (Qred (f11 t)) (Qred (s1 t)) (Qred (s2 t)).

Definition fit_single (g : geom) (p : list pt4) (wxy wuv : option (list Q)) : fout + rsdata :=
  let w := comb wxy wuv in
  match check_in g p w with
  | Some e => inl (OutErr e)
  | None =>
      let l := mkpts p w in
      match g with
      | GShift => inl (fit_shift_out l)
      | GGeneral => inl (fit_general_out l)
      | GRscale => if Qle_bool (q2 l) 0 then inl (OutErr ESingular) else inr (rs_of l)
      | GRshift => inr (rs_of l)
      end
  end.

(* exact weighted sum of squared residuals of an arbitrary affine map *)
Definition ssr_aff (l : list pr) (m00 m01 m10 m11 s0 s1 : Q) : Q :=
  fold_right (fun p acc => Qred (pw p * (sq (px p - (m00 * pu p + m01 * pv p + s0))
                              + sq (py p - (m10 * pu p + m11 * pv p + s1))) + acc)) 0 l.

(* iter_linear_fit with nclip = 0: pairs whose weight (in either catalog) is not positive are masked
   out before the single-shot fitter is called *)
Definition posb (x : Q) : bool := if Qlt_le_dec 0 x then true else false.
Fixpoint maskw (n : nat) (w : option (list Q)) : list bool :=
  match n with
  | O => []
  | S n' => match w with
            | None => true :: maskw n' None
            | Some [] => false :: maskw n' (Some [])
            | Some (x :: r) => posb x :: maskw n' (Some r)
            end
  end.
Fixpoint andl (a b : list bool) : list bool :=
  match a, b with x :: a', y :: b' => (x && y) :: andl a' b' | _, _ => [] end.
Fixpoint filt {A} (m : list bool) (l : list A) : list A :=
  match m, l with
  | true :: m', x :: l' => x :: filt m' l'
  | false :: m', _ :: l' => filt m' l'
  | _, _ => []
  end.
Definition wmask (n : nat) (wxy wuv : option (list Q)) : list bool := andl (maskw n wxy) (maskw n wuv).
Definition fit_iter0 (g : geom) (p : list pt4) (wxy wuv : option (list Q)) : fout + rsdata :=
  let m := wmask (length p) wxy wuv in
  fit_single g (filt m p) (option_map (filt m) wxy) (option_map (filt m) wuv).
