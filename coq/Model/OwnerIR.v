(* C19: ownership IR (target of harness/owner_translate.py), concrete semantics, executable checker.
   Definitions only; proofs are in Proofs/OwnerSound.v.

   A translated python function is a list of statements over versioned names (one IR variable per
   reaching definition; the translator gives every definition two variables, one for the object the
   name is bound to and one for the objects stored inside it).

     Assign x Fresh          x is bound to a newly allocated object
     Assign x (Alias ys)     x is bound to the object of one of ys              (y = x, tuple/list of names)
     Assign x (MayAlias ys)  x is bound to the object of one of ys or to a new  (np.asarray, x[i], x.T, call of a parameter)
     Write x                 the object bound to x is modified in place         (x[i] = v, x op= v, x.sort())
     CallW xs                call of a helper whose summary says that it writes (only) the objects bound to xs
                             - and whatever it allocates itself.  The summary is an obligation on the
                             callee's own translated body (check_summary). *)
From Coq Require Import List Bool Arith NArith.
Import ListNotations.

Definition var := N.
Definition loc := nat.
Inductive rhs := Fresh | Alias (ys : list var) | MayAlias (ys : list var).
Inductive stmt := Assign (x : var) (r : rhs) | Write (x : var) | CallW (xs : list var).
Definition prog := list stmt.

(* ---------- concrete semantics ---------- *)
Record state := { env : var -> option loc; next : loc; written : list loc }.
Definition upd (e : var -> option loc) (x : var) (l : loc) : var -> option loc :=
  fun y => if N.eqb y x then Some l else e y.

(* one execution step of a statement; nondeterminism (which source is aliased, whether a may-alias
   allocates, what a helper writes within its summary) is a relation *)
Inductive step : stmt -> state -> state -> Prop :=
| s_fresh x r s : (r = Fresh \/ exists ys, r = MayAlias ys) ->
    step (Assign x r) s {| env := upd (env s) x (next s); next := S (next s); written := written s |}
| s_alias x r ys y l s : (r = Alias ys \/ r = MayAlias ys) -> In y ys -> env s y = Some l ->
    step (Assign x r) s {| env := upd (env s) x l; next := next s; written := written s |}
| s_write x l s : env s x = Some l ->
    step (Write x) s {| env := env s; next := next s; written := l :: written s |}
| s_write_undef x s : env s x = None -> step (Write x) s s
| s_call xs ls n s :
    (forall l, In l ls -> (exists x, In x xs /\ env s x = Some l) \/ (next s <= l < next s + n)%nat) ->
    step (CallW xs) s {| env := env s; next := (next s + n)%nat; written := ls ++ written s |}.

(* a run executes statements of the program in ANY order and multiplicity: this covers every control
   flow (branches, loops, early returns, exceptions) of the translated function *)
Inductive run (p : prog) : state -> state -> Prop :=
| r_nil s : run p s s
| r_cons st s s' s'' : In st p -> step st s s' -> run p s' s'' -> run p s s''.

(* ---------- checker ---------- *)
Definition mem (x : var) (T : list var) : bool := existsb (N.eqb x) T.
Definition srcs (r : rhs) : list var := match r with Fresh => [] | Alias ys | MayAlias ys => ys end.
Definition closed_stmt (T : list var) (s : stmt) : bool :=
  match s with
  | Assign x r => if existsb (fun y => mem y T) (srcs r) then mem x T else true
  | _ => true
  end.
Definition safe_stmt (T : list var) (s : stmt) : bool :=
  match s with
  | Write x => negb (mem x T)
  | CallW xs => forallb (fun x => negb (mem x T)) xs
  | Assign _ _ => true
  end.
Definition one_round (p : prog) (T : list var) : list var :=
  fold_left (fun T s => match s with
     | Assign x r => if existsb (fun y => mem y T) (srcs r) && negb (mem x T) then x :: T else T
     | _ => T end) p T.
(* bounded iteration with early exit; the result is CHECKED to be closed, so soundness needs no
   termination or counting argument *)
Fixpoint iterate (k : nat) (p : prog) (T : list var) : list var :=
  match k with
  | O => T
  | S k' => let T' := one_round p T in
            if Nat.eqb (length T') (length T) then T else iterate k' p T'
  end.
Definition taint (params : list var) (p : prog) : list var := iterate (length p) p params.
Definition check (params : list var) (p : prog) : bool :=
  let T := taint params p in
  forallb (fun x => mem x T) params && forallb (closed_stmt T) p && forallb (safe_stmt T) p.

(* summary obligation of a helper: apart from the objects of the parameters W it writes nothing it
   did not allocate *)
Definition without (W params : list var) : list var := filter (fun x => negb (mem x W)) params.
Definition check_summary (params W : list var) (p : prog) : bool := check (without W params) p.

(* diagnosis for reports: the written variables that may be caller-owned *)
Definition bad_writes (params : list var) (p : prog) : list var :=
  let T := taint params p in
  flat_map (fun s => match s with
     | Write x => if mem x T then [x] else []
     | CallW xs => filter (fun x => mem x T) xs
     | Assign _ _ => [] end) p.
