(* C13 / C14: the scripted world used by the correspondence harness, as an instance of the oracles of
   Model/AlignModel.v.

   Every catalog row carries the identity of the physical source it belongs to (a `sid : Z`; rows of 'junk'
   catalogs carry unique negative sids that occur nowhere else).  The scripted matcher of the harness pairs a
   row of the image catalog with a row of the reference catalog iff both carry the same sid.  Convention: a
   source with |sid| >= 5000 lies in the FAR field (several degrees away from the NEAR field), so that an image
   and a reference catalog have overlap area 0 iff no reference row lies in the field of (a member of) the image.

   The ordering oracle is not re-derived here (it is property C15): it is DRIVEN FROM THE ORDER OBSERVED on the
   implementation (`w_order`, reference group first when no reference catalog was given).  The model checks
   that this order only ever names a group of the current work list (otherwise the clipped index picks another
   group and the compared orders differ). *)
From Coq Require Import List Bool Arith ZArith.
From TW Require Import AlignModel.
Import ListNotations.

Record wimage := { w_gid : option nat; w_rows : list Z; w_ids : list Z; w_far : bool }.
Record world := {
  w_ims : list wimage;
  w_ref_rows : list Z;          (* sids of the rows of the caller's reference catalog (if any) *)
  w_minobj : nat;               (* effective minobj (explicit value, or the default of fitgeom) *)
  w_geom : nat;                 (* fit geometry: 0 shift, 1 rshift, 2 rscale, 3 general *)
  w_nomatch : bool;             (* match=None: catalogs are taken as matched 1-1 *)
  w_order : list group }.       (* observed alignment order *)

Definition wdflt : wimage := {| w_gid := None; w_rows := []; w_ids := []; w_far := false |}.
Definition memZ (s : Z) (l : list Z) : bool := existsb (Z.eqb s) l.
Definition far_sid (s : Z) : bool := (5000 <=? Z.abs s)%Z.
Definition is_nil {A} (l : list A) : bool := match l with [] => true | _ => false end.

Definition wim (W : world) (i : nat) : wimage := nth i (w_ims W) wdflt.
Definition wrows (W : world) (g : group) : list Z := concat (map (fun i => w_rows (wim W i)) g).
Definition wids (W : world) (g : group) : list Z := concat (map (fun i => w_ids (wim W i)) g).

(* the rows a block contributes, given the rows `acc` that precede it *)
Definition block_sids (W : world) (acc : list Z) (c : contrib) : list Z :=
  match c_from c with
  | None => w_ref_rows W
  | Some g => filter (fun s => negb (memZ s acc)) (wrows W g)
  end.
Definition sids_of (W : world) (rs : refstate) : list Z :=
  fold_left (fun acc c => acc ++ block_sids W acc c) rs [].

(* the fit raises NotEnoughPointsError when it gets fewer matched pairs than the geometry needs, and
   SingularMatrixError (rscale, general) when all matched pairs are one and the same source (coincident points;
   the generator produces no other exactly degenerate configuration; fit_rshift and fit_shifts accept coincident
   points: rotation 0 plus the shift) *)
Definition geom_min (geom : nat) : nat := match geom with 0 => 1 | 3 => 3 | _ => 2 end.
Definition fit_raises (W : world) (matched : list Z) : bool :=
  (length matched <? geom_min (w_geom W)) ||
  ((2 <=? w_geom W) && (length (nodup Z.eq_dec matched) <=? 1)).
Definition w_outcome (W : world) (g : group) (rs : refstate) : mres :=
  let rows := wrows W g in
  let matched := if w_nomatch W then rows else filter (fun s => memZ s (sids_of W rs)) rows in
  let m := length matched in
  let u := length rows - m in
  if w_minobj W <=? m then (if fit_raises W matched then FitRaises u else Matched u) else Fails u.

Definition has_field (far : bool) (R : list Z) : bool := existsb (fun s => Bool.eqb (far_sid s) far) R.
Definition w_area0 (W : world) (g : group) (rs : refstate) : bool :=
  let R := sids_of W rs in negb (existsb (fun i => has_field (w_far (wim W i)) R) g).

Definition group_eqb (a b : group) : bool :=
  (length a =? length b) && forallb (fun p => Nat.eqb (fst p) (snd p)) (combine a b).
Fixpoint index_of (g : group) (l : list group) : nat :=
  match l with
  | [] => 0
  | x :: r => if group_eqb g x then 0 else S (index_of g r)
  end.
Definition w_pick_ref (W : world) (live : list group) : nat := index_of (nth 0 (w_order W) []) live.
Definition w_pick (W : world) (rs : refstate) (queue : list group) : nat :=
  index_of (nth (length (w_order W) - length queue) (w_order W) []) queue.

Definition world_oracle (W : world) : oracle :=
  {| pick_ref := w_pick_ref W; pick := fun rs q => w_pick W rs q;
     outcome := w_outcome W; area0 := w_area0 W; gids := wids W |}.

Definition to_images (W : world) : list image :=
  map (fun wi => {| gid := w_gid wi; nonempty := negb (is_nil (w_rows wi)) |}) (w_ims W).

Definition run_world (W : world) (o : opts) : result := align (to_images W) o (world_oracle W).
(* rows (sids) of the returned reference catalog *)
Definition final_sids (W : world) (o : opts) : list Z := sids_of W (r_ref (run_world W o)).
