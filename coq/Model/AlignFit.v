(* C01 / C05: executable exact-rational model of "fit, then apply the correction":
   - the fit of a family on a list of tangent-plane pairs, as an affine map;
   - JWSTWCSCorrector.set_correction: conjugation of the fitted map into the member's own plane with the
     (matrix, shift) returned by _tp2tp, and _tpcorr_combine_affines on the pipeline's tp_affine;
   - _tp2tp itself from the images of its four probe points;
   - residual statistics of an affine map on a list of pairs.
   Matrix convention of the code: x' = m00*x + m01*y + s0 ; y' = m10*x + m11*y + s1. Definitions only. *)
From Coq Require Import QArith Qabs List Bool Arith.
From TW Require Import GJModel LSQ Rscale Rscale2 Shift LinearFit.
Import ListNotations.
Open Scope Q_scope.

Record qaff := { g00 : Q; g01 : Q; g10 : Q; g11 : Q; h0 : Q; h1 : Q }.

Definition qid : qaff := {| g00 := 1; g01 := 0; g10 := 0; g11 := 1; h0 := 0; h1 := 0 |}.
Definition qapp (A : qaff) (v : Q * Q) : Q * Q :=
  (Qred (g00 A * fst v + g01 A * snd v + h0 A), Qred (g10 A * fst v + g11 A * snd v + h1 A)).
(* B after A;  _tpcorr_combine_affines: m = M.m0, t = M.t0 + s *)
Definition qcomp (B A : qaff) : qaff :=
  {| g00 := Qred (g00 B * g00 A + g01 B * g10 A); g01 := Qred (g00 B * g01 A + g01 B * g11 A);
     g10 := Qred (g10 B * g00 A + g11 B * g10 A); g11 := Qred (g10 B * g01 A + g11 B * g11 A);
     h0 := Qred (g00 B * h0 A + g01 B * h1 A + h0 B); h1 := Qred (g10 B * h0 A + g11 B * h1 A + h1 B) |}.
Definition qdet (A : qaff) : Q := g00 A * g11 A - g01 A * g10 A.
Definition qinv (A : qaff) : qaff :=
  let d := qdet A in
  let i00 := g11 A / d in let i01 := - g01 A / d in let i10 := - g10 A / d in let i11 := g00 A / d in
  {| g00 := Qred i00; g01 := Qred i01; g10 := Qred i10; g11 := Qred i11;
     h0 := Qred (- (i00 * h0 A + i01 * h1 A)); h1 := Qred (- (i10 * h0 A + i11 * h1 A)) |}.

(* set_correction(matrix, shift, ref_tpwcs): with (r, t) = _tp2tp(ref_tpwcs, self)
     matrix' = r . matrix . inv(r) ;  shift' = r . shift - matrix' . t + t *)
Definition qconj (R G : qaff) : qaff :=
  let d := qdet R in
  let i00 := g11 R / d in let i01 := - g01 R / d in let i10 := - g10 R / d in let i11 := g00 R / d in
  (* r . M *)
  let p00 := g00 R * g00 G + g01 R * g10 G in let p01 := g00 R * g01 G + g01 R * g11 G in
  let p10 := g10 R * g00 G + g11 R * g10 G in let p11 := g10 R * g01 G + g11 R * g11 G in
  (* (r . M) . inv r *)
  let m00 := p00 * i00 + p01 * i10 in let m01 := p00 * i01 + p01 * i11 in
  let m10 := p10 * i00 + p11 * i10 in let m11 := p10 * i01 + p11 * i11 in
  {| g00 := Qred m00; g01 := Qred m01; g10 := Qred m10; g11 := Qred m11;
     h0 := Qred ((g00 R * h0 G + g01 R * h1 G) - (m00 * h0 R + m01 * h1 R) + h0 R);
     h1 := Qred ((g10 R * h0 G + g11 R * h1 G) - (m10 * h0 R + m11 * h1 R) + h1 R) |}.

(* _tp2tp: probe points s*(-1/2,-1/2), s*(1/2,-1/2), s*(-1/2,1/2), (0,0) of the first plane with images
   P0 P1 P2 P3 in the second:  matrix = [[x1-x0, x2-x0], [y1-y0, y2-y0]] / s ;  shift = P3 *)
Definition tp2tp (P0 P1 P2 P3 : Q * Q) (s : Q) : qaff :=
  {| g00 := Qred ((fst P1 - fst P0) / s); g01 := Qred ((fst P2 - fst P0) / s);
     g10 := Qred ((snd P1 - snd P0) / s); g11 := Qred ((snd P2 - snd P0) / s);
     h0 := fst P3; h1 := snd P3 |}.
Definition probe (s : Q) (k : nat) : Q * Q :=
  match k with
  | O => (- (1 # 2) * s, - (1 # 2) * s)
  | S O => ((1 # 2) * s, - (1 # 2) * s)
  | S (S O) => (- (1 # 2) * s, (1 # 2) * s)
  | _ => (0, 0)
  end.

(* pipeline update of a gWCS member: the tangent-plane units of the corrector are arcsec, those of tp_affine
   are a2r * arcsec; the matrix is dimensionless *)
Definition scale_shift (k : Q) (F : qaff) : qaff :=
  {| g00 := g00 F; g01 := g01 F; g10 := g10 F; g11 := g11 F; h0 := Qred (k * h0 F); h1 := Qred (k * h1 F) |}.
Definition gw_update (a2r : Q) (A0 F : qaff) : qaff := qcomp (scale_shift a2r F) A0.
Definition gw_update_ref (a2r : Q) (A0 R F : qaff) : qaff := gw_update a2r A0 (qconj R F).

(* the fit of a family as an affine map (rshift has no rational closed form: it is specified, not computed;
   see AlignFitProofs.rshift_reproduces) *)
Definition fit_aff (g : geom) (l : list pr) : option qaff :=
  match g with
  | GShift => if Qle_bool (sw l) 0 then None else
              let r := fit_shift l in
              Some {| g00 := 1; g01 := 0; g10 := 0; g11 := 1; h0 := Qred (fst r); h1 := Qred (snd r) |}
  | GGeneral => match fit_general l with
                | FitOk p q => Some {| g00 := Qred (qnth p 0); g01 := Qred (qnth p 1); g10 := Qred (qnth q 0);
                                       g11 := Qred (qnth q 1); h0 := Qred (qnth p 2); h1 := Qred (qnth q 2) |}
                | FitSingular => None
                end
  | GRscale => if Qle_bool (sw l) 0 then None else if Qle_bool (q2 l) 0 then None else
               let t := model l in
               Some {| g00 := Qred (sa t); g01 := Qred (sb_ t); g10 := Qred (f10 t); g11 := Qred (f11 t);
                       h0 := Qred (s1 t); h1 := Qred (s2 t) |}
  | GRshift => None
  end.

(* weighted sum of squared residuals and sum of weights of an affine map on a list of pairs *)
Definition ssr_q (l : list pr) (F : qaff) : Q := ssr_aff l (g00 F) (g01 F) (g10 F) (g11 F) (h0 F) (h1 F).
Definition sw_q (l : list pr) : Q := fold_right (fun p acc => Qred (pw p + acc)) 0 l.
