(* frozen model of _estimate_2dhist_shift BEFORE fix F3 (commit bd1f6fb): bin -> offset conversion
   `pscale * bin - searchrad`, although the histogram is centred on bin ceil(searchrad / pscale).
   Nothing here models the current code. *)
From Coq Require Import QArith Qround ZArith List Bool.
From TW Require Import Peak Hist.
Import ListNotations.
Open Scope Q_scope.

Definition legacy_bin2off (pscale searchrad : Q) (xp : Q) : Q := pscale * xp - searchrad.

Definition legacy_estimate_with (solver : list (Z * Z * Z) -> option coef6)
           (img ref : list pt) (searchrad pscale : Q) : Q * Q :=
  let r := searchrad / pscale in
  let n := (2 * half_bins r + 1)%Z in
  let zp := xy_2dhist r (scale_pts pscale img) (scale_pts pscale ref) in
  match length (nonzero_cells n zp) with
  | O => (0, 0)
  | S O =>
      match argmax_first zp (cells n n) with
      | Some (yp, xp) => (legacy_bin2off pscale searchrad (inject_Z xp), legacy_bin2off pscale searchrad (inject_Z yp))
      | None => (0, 0)
      end
  | _ =>
      let pk := find_peak_with solver n n zp (mask_pos zp) 5 in
      if is_error (p_st pk) then (0, 0)
      else (legacy_bin2off pscale searchrad (p_x pk), legacy_bin2off pscale searchrad (p_y pk))
  end.
