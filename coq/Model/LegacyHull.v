(* Frozen copies of the merging loop of tweakwcs.wcsimage.convex_hull before the repairs
   F10 (e0db932: vertex 1 never compared with the start vertex) and
   F14 (vertex k compared with its ORIGINAL neighbour k+1 even when that was already removed;
        start step executed at most once). Kept for the `..._refuted_before_fix` theorems. *)
From Coq Require Import QArith Qabs List Bool.
Require Import HullModel HullFull.
Import ListNotations.
Open Scope Q_scope.

(* for k in range(n - 2, 0, -1): if close(v[k], v[k + 1]): idx.pop(k)      (argument v[1 .. n-1]) *)
Fixpoint merge_tail_orig (s : Q) (l : list pt) : list pt :=
  match l with
  | [] => []
  | v :: r =>
      match r with
      | [] => [v]
      | w :: _ => let acc := merge_tail_orig s r in if close s v w then acc else v :: acc
      end
  end.

(* if len(idx) > 3 and close(v[idx[0]], v[idx[1]]): idx.pop(1) *)
Definition merge_start_once (s : Q) (v0 : pt) (rest : list pt) : list pt :=
  match rest with
  | v1 :: ((_ :: _ :: _) as r) => if close s v0 v1 then r else rest
  | _ => rest
  end.

Definition merge_pre_F14 (s : Q) (h : list pt) : list pt :=
  match h with
  | [] => []
  | v0 :: rest => v0 :: merge_start_once s v0 (merge_tail_orig s rest)
  end.
Definition merge_pre_F10 (s : Q) (h : list pt) : list pt :=
  match h with
  | [] => []
  | v0 :: rest => v0 :: merge_tail_orig s rest
  end.

Definition convex_hull_with (mrg : Q -> list pt -> list pt) (xs ys : list Q) (msep : option Q)
  : option (list pt) :=
  if (match msep with Some s => qltb s 0 | None => false end) then None
  else
    let points := sort_set (combine xs ys) in
    match points with
    | [] => Some []
    | [p] => Some [p]
    | _ =>
        let total_hull := hull_sorted points in
        Some (match msep with Some s => mrg s total_hull | None => total_hull end)
    end.
Definition convex_hull_pre_F14 := convex_hull_with merge_pre_F14.
Definition convex_hull_pre_F10 := convex_hull_with merge_pre_F10.
