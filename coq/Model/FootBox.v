(* The one- and two-source footprint boxes of RefCatalog._calc_cat_convex_hull (after fix F6), in the
   ad-hoc tangent plane. The unit direction v = (vx, vy) = (p1 - p0) / |p1 - p0| is irrational in general and
   is therefore a parameter of the model; tol = 0.5 * footprint_tol * deg2rad(1/3600). *)
From Coq Require Import QArith List.
Require Import HullModel.
Import ListNotations.
Open Scope Q_scope.

(* xv = [xv[0] - tol, xv[0] - tol, xv[0] + tol, xv[0] + tol, xv[0] - tol]; yv = [- + + - -] *)
Definition box1 (p : pt) (t : Q) : list pt :=
  let x := fst p in let y := snd p in
  [ (x - t, y - t); (x - t, y + t); (x + t, y + t); (x + t, y - t); (x - t, y - t) ].

(* xv = [xv[0] - (vx - vy) tol, xv[0] - (vx + vy) tol, xv[1] + (vx - vy) tol, xv[1] + (vx + vy) tol, first]
   yv = [yv[0] - (vy + vx) tol, yv[0] - (vy - vx) tol, yv[1] + (vy + vx) tol, yv[1] + (vy - vx) tol, first] *)
Definition box2 (p0 p1 v : pt) (t : Q) : list pt :=
  let x0 := fst p0 in let y0 := snd p0 in let x1 := fst p1 in let y1 := snd p1 in
  let vx := fst v in let vy := snd v in
  [ (x0 - (vx - vy) * t, y0 - (vy + vx) * t);
    (x0 - (vx + vy) * t, y0 - (vy - vx) * t);
    (x1 + (vx - vy) * t, y1 + (vy + vx) * t);
    (x1 + (vx + vy) * t, y1 + (vy - vx) * t);
    (x0 - (vx - vy) * t, y0 - (vy + vx) * t) ].

(* pre-F6: vx = yv[1] - yv[0]; vy = xv[1] - xv[0]  (transposed direction) *)
Definition box2_pre_F6 (p0 p1 v : pt) (t : Q) : list pt := box2 p0 p1 (snd v, fst v) t.
