(* Executable model of the monotone-chain part of tweakwcs.wcsimage.convex_hull *)
From Coq Require Import QArith List Bool.
Import ListNotations.
Open Scope Q_scope.

Definition pt := (Q * Q)%type.
Definition cr (o a b : pt) : Q :=
  (fst a - fst o) * (snd b - snd o) - (snd a - snd o) * (fst b - fst o).

(* stack with the top at the head *)
Fixpoint popw (st : list pt) (p : pt) : list pt :=
  match st with
  | b :: ((a :: _) as rest) => if Qle_bool (cr a b p) 0 then popw rest p else st
  | _ => st
  end.
Definition push (st : list pt) (p : pt) : list pt := p :: popw st p.
Definition chain (pts : list pt) : list pt := fold_left push pts [].

(* lower hull of lexicographically sorted distinct points, upper hull of the reversed list;
   total hull = lower[:-1] + upper, listed counter-clockwise (the stacks are reversed) *)
Definition hull_sorted (pts : list pt) : list pt :=
  let lower := rev (chain pts) in
  let upper := rev (chain (rev pts)) in
  removelast lower ++ upper.
