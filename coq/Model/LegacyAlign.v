(* FROZEN: align_wcs as it was BEFORE the repairs F5 (a8a1a5a), F8 (aa26d49), F16 (e6a7246), F17 (fad3ab2).  Do not edit: the
   `..._refuted_before_fix` theorems of Props/C13.v and Props/C14.v are stated against these definitions.

   pre-F8: an ungrouped image (group_id None) was appended to the work list without looking at its catalog, so
           an ungrouped image with an empty catalog counted as a catalog, was never given 'FAILED: empty source
           catalog', could become the reference (RefCatalog then raised ValueError) or be 'aligned' (0 matches).
   pre-F5: with the user order in force `_max_overlap_image` returned area=None, and `not area` made align_wcs
           append the unmatched rows of EVERY image it got that way (the first image of the no-refcat case got
           its area from `_max_overlap_pair` and was handled correctly).
   pre-F16: fitgeom was validated only when minobj was None; with an explicit minobj an unsupported fitgeom raised
           ValueError from the first fit that was attempted - or never, when no group reached the fit.
   pre-F17: NotEnoughPointsError / SingularMatrixError of the fit escaped from align_wcs: groups processed earlier
           stay corrected, the failing group and all later inputs are left without fit_info. *)
From Coq Require Import List Bool Arith ZArith.
From TW Require Import AlignModel.
Import ListNotations.

Definition ungrouped (ims : list image) (i : nat) : bool :=
  match nth_error ims i with Some im => match gid im with None => true | Some _ => false end | None => false end.

Definition group_live_L (f8 : bool) (ims : list image) (g : group) : bool :=
  group_live ims g || (f8 && match g with [i] => ungrouped ims i | _ => false end).
Definition live_groups_L f8 ims := filter (group_live_L f8 ims) (groups ims).
Definition dead_groups_L f8 ims := filter (fun g => negb (group_live_L f8 ims g)) (groups ims).
Definition st_dead_L f8 ims : nat -> stclass :=
  fold_right (fun g f => set_st g (Failed 0) f) (fun _ => Unset) (dead_groups_L f8 ims).

(* area_known = false: the area handed to the expansion test is None *)
Definition step_L (o : opts) (orc : oracle) (area_known : bool) (g : group) (s : lstate) : lstate :=
  let r := outcome orc g (ls_ref s) in
  let grow := o_expand o && (mres_ok r || negb area_known || area0 orc g (ls_ref s)) in
  {| ls_st := set_st g (if mres_ok r then Success else Failed 1) (ls_st s);
     ls_corr := if mres_ok r then bump g (ls_corr s) else ls_corr s;
     ls_ref := if grow then ls_ref s ++ [{| c_from := Some g; c_rows := mres_unm r |}] else ls_ref s;
     ls_ids := if grow then expand_ids (ls_ids s) (mres_unm r) else ls_ids s;
     ls_order := ls_order s ++ [g] |}.

Definition is_fails (r : mres) : bool := match r with Fails _ => true | _ => false end.
Definition is_fitraises (r : mres) : bool := match r with FitRaises _ => true | _ => false end.

(* returns the state reached and, if an exception escaped from the loop, its class and stage *)
Fixpoint loop_L (f5 f16bad f17 : bool) (o : opts) (orc : oracle) (first_from_pair : bool) (fuel : nat)
         (queue : list group) (s : lstate) : lstate * option (exc * nat) :=
  match fuel with
  | 0 => (s, None)
  | S f => match queue with
           | [] => (s, None)
           | _ :: _ => let k := next_index o orc (ls_ref s) queue in
                       let g := nth k queue [] in
                       let r := outcome orc g (ls_ref s) in
                       if f16bad && negb (is_fails r) then (s, Some (ExcValue, 3))
                       else if f17 && is_fitraises r then (s, Some (ExcFit, 6))
                       else
                         let known := negb f5 || negb (eff_enforce o) || first_from_pair in
                         loop_L f5 f16bad f17 o orc false f (remove_at k queue) (step_L o orc known g s)
           end
  end.

Definition finish_L (n : nat) (p : lstate * option (exc * nat)) : result :=
  let '(s2, e) := p in
  {| r_exc := match e with Some (x, _) => Some x | None => None end;
     r_stage := match e with Some (_, stg) => stg | None => 0 end;
     r_st := tab n (ls_st s2); r_corr := tab n (ls_corr s2);
     r_ref := ls_ref s2; r_ids := ls_ids s2; r_order := ls_order s2 |}.

Definition with_fitgeom_ok (o : opts) : opts :=
  {| o_wcscat_ok := o_wcscat_ok o; o_cats_ok := o_cats_ok o; o_fitgeom_ok := true; o_minobj := o_minobj o;
     o_ref := o_ref o; o_expand := o_expand o; o_enforce := o_enforce o |}.

(* each flag = true selects the behaviour BEFORE the corresponding repair *)
Definition align_legacy (f5 f8 f16 f17 : bool) (ims : list image) (o : opts) (orc : oracle) : result :=
  let n := length ims in
  let minobj_given := match o_minobj o with Some _ => true | None => false end in
  let f16bad := f16 && minobj_given && negb (o_fitgeom_ok o) in
  match check_args (if f16bad then with_fitgeom_ok o else o) with
  | Some (e, stage) => raised n e stage (fun _ => Unset)
  | None =>
      let live := live_groups_L f8 ims in
      if length live <? need o then raised n ExcNotEnough 5 (st_dead_L f8 ims)
      else
        match o_ref o with
        | RefNone =>
            let k := ref_index o orc live in
            let r := nth k live [] in
            if negb (group_live ims r) then raised n ExcValue 6 (st_dead_L f8 ims)   (* RefCatalog: no sources *)
            else
              let s1 := {| ls_st := set_st r Reference (st_dead_L f8 ims); ls_corr := fun _ => 0;
                           ls_ref := [{| c_from := Some r; c_rows := length (gids orc r) |}]; ls_ids := gids orc r;
                           ls_order := [r] |} in
              let queue := remove_at k live in
              finish_L n (loop_L f5 f16bad f17 o orc true (length queue) queue s1)
        | RefTable _ ids | RefCorr _ ids =>
            let s1 := {| ls_st := st_dead_L f8 ims; ls_corr := fun _ => 0;
                         ls_ref := [{| c_from := None; c_rows := length ids |}]; ls_ids := ids; ls_order := [] |} in
            finish_L n (loop_L f5 f16bad f17 o orc false (length live) live s1)
        | RefBadType => raised n ExcType 4 (fun _ => Unset)
        end
  end.
