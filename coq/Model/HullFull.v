(* Executable model of the WHOLE tweakwcs.wcsimage.convex_hull(x, y, wcs=None, min_separation)
   on rational points, written in the order of the code (repaired merging loop, fixes F10 and F14). *)
From Coq Require Import QArith Qabs List Bool.
Require Import HullModel.
Import ListNotations.
Open Scope Q_scope.

(* python compares tuples lexicographically; `set` identifies equal tuples *)
Definition qltb (a b : Q) : bool := negb (Qle_bool b a).
Definition pt_ltb (a b : pt) : bool :=
  qltb (fst a) (fst b) || (Qeq_bool (fst a) (fst b) && qltb (snd a) (snd b)).
Definition pt_eqb (a b : pt) : bool := Qeq_bool (fst a) (fst b) && Qeq_bool (snd a) (snd b).

(* points = sorted(set(zip(x, y))): insertion into a strictly sorted (hence duplicate-free) list *)
Fixpoint ins (p : pt) (l : list pt) : list pt :=
  match l with
  | [] => [p]
  | q :: r => if pt_ltb p q then p :: l else if pt_eqb p q then l else q :: ins p r
  end.
Definition sort_set (l : list pt) : list pt := fold_right ins [] l.

(* np.abs(ptx[i] - ptx[j]) <= min_separation and np.abs(pty[i] - pty[j]) <= min_separation *)
Definition close (s : Q) (a b : pt) : bool :=
  Qle_bool (Qabs (fst a - fst b)) s && Qle_bool (Qabs (snd a - snd b)) s.

(* for k in range(n - 2, 0, -1): kn = idx[k + 1]; if close(v[k], v[kn]): idx.pop(k)
   The argument is v[1 .. n-1]. Going from the right, idx[k + 1] is the first vertex retained so far
   (the head of the result for v[k+1 .. n-1]); v[n-1] (the closing vertex) is never tested. *)
Fixpoint merge_tail (s : Q) (l : list pt) : list pt :=
  match l with
  | [] => []
  | v :: r =>
      match r with
      | [] => [v]
      | _ :: _ =>
          let acc := merge_tail s r in
          match acc with
          | w :: _ => if close s v w then acc else v :: acc
          | [] => v :: acc
          end
      end
  end.

(* while len(idx) > 3 and close(v[idx[0]], v[idx[1]]): idx.pop(1)        (rest = idx[1:]) *)
Fixpoint merge_start (s : Q) (v0 : pt) (rest : list pt) : list pt :=
  match rest with
  | v1 :: ((_ :: _ :: _) as r) => if close s v0 v1 then merge_start s v0 r else rest
  | _ => rest
  end.

Definition merge (s : Q) (h : list pt) : list pt :=
  match h with
  | [] => []
  | v0 :: rest => v0 :: merge_start s v0 (merge_tail s rest)
  end.

(* the unmerged hull (min_separation=None): 0- and 1-point exits, else lower[:-1] + upper *)
Definition hull_raw (pts : list pt) : list pt :=
  let points := sort_set pts in
  match points with
  | [] => []
  | [p] => [p]
  | _ => hull_sorted points
  end.

(* convex_hull(x, y, wcs=None, min_separation=msep); None = ValueError (negative min_separation).
   The result is the list of (ptx[i], pty[i]). *)
Definition convex_hull_model (xs ys : list Q) (msep : option Q) : option (list pt) :=
  if (match msep with Some s => qltb s 0 | None => false end) then None
  else
    let points := sort_set (combine xs ys) in
    match points with
    | [] => Some []
    | [p] => Some [p]
    | _ =>
        let total_hull := hull_sorted points in
        Some (match msep with Some s => merge s total_hull | None => total_hull end)
    end.
