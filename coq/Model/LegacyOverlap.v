(* C15: frozen definitions of the code BEFORE repairs F4 (a31c6a0), F5 (a8a1a5a) and F9 (97a2264);
   used only by the `..._refuted_before_fix` witnesses of Props/C15.v *)
From Coq Require Import QArith List Bool Arith.
From TW Require Import OverlapModel.
Import ListNotations.
Open Scope Q_scope.

(* F4: `overlap_area = m[i, j]` was read AFTER `if i < j: j -= 1` *)
Definition legacy_pair_from (n : nat) (m : nat -> nat -> Q) (i j : nat) : pick :=
  let j' := if Nat.ltb i j then (j - 1)%nat else j in
  let area := m i j' in
  let p := pair_from n m i j in
  {| p_ref := p_ref p; p_sec := p_sec p; p_area := Some area; p_rest := p_rest p |}.
Definition legacy_max_overlap_pair (n : nat) (m : nat -> nat -> Q) (enforce : bool) : pick :=
  match n with
  | O | 1%nat => max_overlap_pair n m enforce
  | _ => if Nat.eqb n 2 || enforce then max_overlap_pair n m enforce
         else legacy_pair_from n m (fst (select n m)) (snd (select n m))
  end.

(* F5: under enforce_user_order the area was None *)
Definition legacy_max_overlap_image (enforce : bool) (v : list Q) : ipick :=
  let r := max_overlap_image enforce v in
  if enforce then {| i_img := i_img r; i_area := None; i_rest := i_rest r |} else r.

(* F9: grouped_images[wcat.group_id].append(wcat): every image without group id lands under the single key None,
   which is expanded into singletons at the position of the FIRST ungrouped image *)
Definition legacy_gkey_of (gid : option nat) : gkey :=
  match gid with Some g => (Some g, 0%nat) | None => (None, 0%nat) end.
Fixpoint legacy_group_from (k : nat) (gids : list (option nat)) (gs : list (gkey * list nat)) :=
  match gids with
  | [] => gs
  | g :: gids' => legacy_group_from (S k) gids' (add_member (legacy_gkey_of g) k gs)
  end.
Definition legacy_groups (gids : list (option nat)) : list (list nat) :=
  concat (map (fun g : gkey * list nat =>
                 match fst (fst g) with
                 | None => map (fun i => [i]) (snd g)
                 | Some _ => [snd g]
                 end) (legacy_group_from 0 gids [])).

(* decidable "strictly increasing" for the witnesses *)
Fixpoint increasing (l : list nat) : bool :=
  match l with
  | a :: ((b :: _) as t) => Nat.ltb a b && increasing t
  | _ => true
  end.
