(* Literal transcription of the merging part of tweakwcs.wcsimage.convex_hull with the index list `idx`,
   statement by statement. The theorems are stated for the structural form `merge` of HullFull.v;
   Proofs/HullLiteralEq.v proves that both forms return the same list for every input, and the correspondence
   (coq/Corr/C16Corr.v) additionally evaluates both on every generated case. *)
From Coq Require Import QArith Qabs List Bool Arith.
Require Import HullModel HullFull.
Import ListNotations.
Open Scope Q_scope.

Definition vtx (v : list pt) (i : nat) : pt := nth i v (0, 0).

(* idx.pop(k) *)
Fixpoint pop_at {A} (k : nat) (l : list A) : list A :=
  match l, k with
  | [], _ => []
  | _ :: r, O => r
  | x :: r, S k' => x :: pop_at k' r
  end.

(* for k in range(n - 2, 0, -1):
       kn = idx[k + 1]
       if abs(ptx[k] - ptx[kn]) <= s and abs(pty[k] - pty[kn]) <= s: idx.pop(k)         (k runs S k' .. 1) *)
Fixpoint loop_idx (s : Q) (v : list pt) (k : nat) (idx : list nat) : list nat :=
  match k with
  | O => idx
  | S k' =>
      let kn := nth (S k) idx O in
      loop_idx s v k' (if close s (vtx v k) (vtx v kn) then pop_at k idx else idx)
  end.

(* while len(idx) > 3 and close(v[idx[0]], v[idx[1]]): idx.pop(1)        (at most n iterations) *)
Fixpoint while_idx (s : Q) (v : list pt) (fuel : nat) (idx : list nat) : list nat :=
  match fuel with
  | O => idx
  | S f =>
      if (3 <? length idx)%nat && close s (vtx v (nth 0 idx O)) (vtx v (nth 1 idx O))
      then while_idx s v f (pop_at 1 idx) else idx
  end.

(* idx = list(range(n)); loop; while; ptx = ptx[idx]; pty = pty[idx] *)
Definition merge_literal (s : Q) (v : list pt) : list pt :=
  let n := length v in
  let idx := loop_idx s v (n - 2) (seq 0 n) in
  let idx := while_idx s v n idx in
  map (vtx v) idx.

Definition convex_hull_literal (xs ys : list Q) (msep : option Q) : option (list pt) :=
  if (match msep with Some s => qltb s 0 | None => false end) then None
  else
    let points := sort_set (combine xs ys) in
    match points with
    | [] => Some []
    | [p] => Some [p]
    | _ =>
        let total_hull := hull_sorted points in
        Some (match msep with Some s => merge_literal s total_hull | None => total_hull end)
    end.
