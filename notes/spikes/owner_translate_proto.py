"""Prototype of the C19 ownership translator: Python ast -> (assignments with alias kind, writes),
with reaching definitions (strong updates on straight-line code, union at joins, loop to fixpoint).
Fail-closed: unknown statement/expression kinds raise."""
import ast, sys, inspect, importlib

FRESH_CALLS = {'np.array','np.zeros','np.ones','np.zeros_like','np.ones_like','np.eye','np.identity','np.empty',
  'np.arange','np.linspace','np.dot','np.sum','np.mean','np.sqrt','np.abs','np.fabs','np.subtract','np.add','np.multiply',
  'np.linalg.norm','np.linalg.inv','np.linalg.det','np.linalg.multi_dot','np.linalg.lstsq','np.logical_and','np.logical_not','np.logical_or',
  'np.count_nonzero','np.any','np.all','np.isfinite','np.vstack','np.hstack','np.concatenate','np.repeat','np.where','np.argmax','np.argsort',
  'np.unravel_index','np.sign','np.cos','np.sin','np.arctan2','np.rad2deg','np.deg2rad','np.mod','np.ceil','np.floor','np.histogram2d',
  'np.meshgrid','np.indices','np.delete','np.finfo','np.longdouble','np.double','np.size','np.ndim','np.shape','np.max','np.min','np.amax','np.amin',
  'float','int','bool','len','range','sorted','set','zip','list','tuple','dict','max','min','abs','map','reversed','enumerate','isinstance','hasattr','str','repr',
  'inv','_build_fit','fit_shifts','fit_rscale','fit_rshift','fit_general','linear_fit','_xy_2dhist','_find_peak','_center_of_mass','cross',
  'spatial.KDTree','ValueError','NotEnoughPointsError','SingularMatrixError','np.linalg.LinAlgError','AssertionError','TypeError','KeyError'}
MAYALIAS_CALLS = {'np.asarray','np.asanyarray','np.atleast_1d','np.atleast_2d','np.ravel','np.squeeze','np.transpose'}
FRESH_METHODS = {'copy','astype','mean','sum','std','dot','all','any','tolist','format','flatten','max','min','argmax','query_ball_point','startswith','get','keys','items','values','lower'}
VIEW_METHODS = {'ravel','reshape','T','view','squeeze','transpose'}
WRITES_ARG0 = {'_compute_stat'}          # helper summaries: which positional args are written
INPLACE_METHODS = {'sort','fill','append','extend','pop','update','insert','remove','clear','resize','itemset','put','setdefault'}

def dotted(n):
    if isinstance(n, ast.Name): return n.id
    if isinstance(n, ast.Attribute):
        b = dotted(n.value); return None if b is None else b + '.' + n.attr
    return None

class Fn:
    def __init__(self, fdef, nonlocal_names=()):
        self.f = fdef; self.assigns = []; self.writes = []; self.ndef = 0
        self.params = [a.arg for a in fdef.args.args + fdef.args.kwonlyargs]
        if fdef.args.vararg: self.params.append(fdef.args.vararg.arg)
        if fdef.args.kwarg: self.params.append(fdef.args.kwarg.arg)
    def newdef(self, name, kind, srcs, node):
        d = f"{name}@{getattr(node,'lineno',0)}.{self.ndef}"; self.ndef += 1
        self.assigns.append((d, kind, sorted(srcs))); return d
    # ---- expressions: returns (kind, set of def-ids it may alias) ----
    def expr(self, e, env):
        if e is None or isinstance(e, ast.Constant): return ('fresh', set())
        if isinstance(e, ast.Name): return ('alias', set(env.get(e.id, {f'<global:{e.id}>'})))
        if isinstance(e, (ast.BinOp, ast.UnaryOp, ast.Compare, ast.BoolOp, ast.JoinedStr, ast.FormattedValue, ast.ListComp, ast.GeneratorExp, ast.Lambda)):
            # evaluated for side effects on sub-expressions: none of these can write; result is a new object
            return ('fresh', set())
        if isinstance(e, ast.IfExp):
            a = self.expr(e.body, env); b = self.expr(e.orelse, env); return ('may', a[1] | b[1])
        if isinstance(e, (ast.Tuple, ast.List)):
            s = set()
            for x in e.elts: s |= self.expr(x, env)[1]
            return ('alias', s) if s else ('fresh', set())
        if isinstance(e, ast.Dict): 
            s = set()
            for x in e.values: s |= self.expr(x, env)[1]
            return ('alias', s) if s else ('fresh', set())
        if isinstance(e, ast.Subscript):   # x[...] load: view or copy -> may alias x
            return ('may', self.expr(e.value, env)[1])
        if isinstance(e, ast.Starred): return self.expr(e.value, env)
        if isinstance(e, ast.Attribute):
            if e.attr in VIEW_METHODS or True:   # attribute of an object: may alias the object
                return ('may', self.expr(e.value, env)[1])
        if isinstance(e, ast.Call):
            name = dotted(e.func)
            args = list(e.args) + [k.value for k in e.keywords]
            if name in WRITES_ARG0 and e.args:
                for d in self.expr(e.args[0], env)[1]: self.writes.append((d, e.lineno, f'call {name}'))
            if name in FRESH_CALLS: return ('fresh', set())
            if name in MAYALIAS_CALLS:
                s = set()
                for x in args: s |= self.expr(x, env)[1]
                return ('may', s)
            if isinstance(e.func, ast.Attribute):
                m = e.func.attr
                if m in INPLACE_METHODS:
                    for d in self.expr(e.func.value, env)[1]: self.writes.append((d, e.lineno, f'.{m}()'))
                    return ('fresh', set())
                if m in FRESH_METHODS: return ('fresh', set())
                if m in VIEW_METHODS: return ('may', self.expr(e.func.value, env)[1])
                if dotted(e.func.value) in ('log',): return ('fresh', set())
            raise NotImplementedError(f"line {e.lineno}: unknown call {ast.unparse(e.func)}")
        if isinstance(e, ast.Slice): return ('fresh', set())
        raise NotImplementedError(f"line {getattr(e,'lineno','?')}: expression {type(e).__name__}")
    def target_write(self, t, env, why):
        # store through a subscript/attribute: a write to the base object
        base = t
        while isinstance(base, (ast.Subscript, ast.Attribute)): base = base.value
        for d in self.expr(base, env)[1]: self.writes.append((d, t.lineno, why))
    def assign(self, t, val, env, node):
        if isinstance(t, ast.Name):
            kind, srcs = val
            env[t.id] = {self.newdef(t.id, kind, srcs, node)}
        elif isinstance(t, (ast.Tuple, ast.List)):
            for x in t.elts: self.assign(x, ('may', val[1]) if val[1] else ('fresh', set()), env, node)
        elif isinstance(t, (ast.Subscript, ast.Attribute)):
            self.target_write(t, env, 'store ' + ast.unparse(t))
        else: raise NotImplementedError(f"line {node.lineno}: target {type(t).__name__}")
    # ---- statements ----
    def block(self, stmts, env):
        for s in stmts: env = self.stmt(s, env)
        return env
    @staticmethod
    def join(a, b):
        r = {}
        for k in set(a) | set(b): r[k] = set(a.get(k, set())) | set(b.get(k, set()))
        return r
    def stmt(self, s, env):
        if isinstance(s, ast.Assign):
            v = self.expr(s.value, env)
            for t in s.targets: self.assign(t, v, env, s)
            return env
        if isinstance(s, ast.AugAssign):
            self.expr(s.value, env)
            if isinstance(s.target, ast.Name):
                for d in env.get(s.target.id, set()): self.writes.append((d, s.lineno, 'augassign ' + s.target.id))
            else: self.target_write(s.target, env, 'augassign ' + ast.unparse(s.target))
            return env
        if isinstance(s, ast.Expr): self.expr(s.value, env); return env
        if isinstance(s, (ast.Return, )): self.expr(s.value, env); return env
        if isinstance(s, (ast.Raise, ast.Pass, ast.Break, ast.Continue, ast.Assert, ast.Import, ast.ImportFrom)): return env
        if isinstance(s, ast.If):
            self.expr(s.test, env)
            a = self.block(s.body, {k: set(v) for k, v in env.items()})
            b = self.block(s.orelse, {k: set(v) for k, v in env.items()})
            return self.join(a, b)
        if isinstance(s, (ast.For, ast.While)):
            if isinstance(s, ast.For):
                it = self.expr(s.iter, env)
            cur = env
            for _ in range(4):
                e2 = {k: set(v) for k, v in cur.items()}
                if isinstance(s, ast.For): self.assign(s.target, ('may', it[1]) if it[1] else ('fresh', set()), e2, s)
                else: self.expr(s.test, e2)
                out = self.block(s.body, e2)
                nxt = self.join(cur, out)
                if nxt == cur: break
                cur = nxt
            return self.block(s.orelse, cur)
        if isinstance(s, ast.Try):
            a = self.block(s.body, {k: set(v) for k, v in env.items()})
            r = a
            for h in s.handlers:
                r = self.join(r, self.block(h.body, self.join(env, a)))
            return self.block(s.finalbody, self.block(s.orelse, r))
        if isinstance(s, ast.FunctionDef):   # nested helper: analysed separately
            return env
        if isinstance(s, ast.With):
            return self.block(s.body, env)
        raise NotImplementedError(f"line {s.lineno}: statement {type(s).__name__}")
    def run(self):
        env = {p: {f'<param:{p}>'} for p in self.params}
        self.block(self.f.body, env)
        # taint closure
        T = {f'<param:{p}>' for p in self.params}
        changed = True
        while changed:
            changed = False
            for d, kind, srcs in self.assigns:
                if kind != 'fresh' and d not in T and any(x in T for x in srcs): T.add(d); changed = True
        bad = [(d, ln, why) for d, ln, why in self.writes if d in T]
        return bad

if __name__ == '__main__':
    import tweakwcs.linearfit as lf, tweakwcs.linalg as la, tweakwcs.matchutils as mu, tweakwcs.wcsimage as wi
    targets = [(lf, ['iter_linear_fit','fit_shifts','fit_rscale','fit_rshift','fit_general','_compute_stat','_build_fit','build_fit_matrix']),
               (la, ['inv']), (mu, ['_xy_2dhist','_estimate_2dhist_shift','_find_peak']), (wi, ['convex_hull'])]
    for mod, names in targets:
        tree = ast.parse(inspect.getsource(mod))
        fdefs = {n.name: n for n in ast.walk(tree) if isinstance(n, ast.FunctionDef)}
        for nm in names:
            try:
                fn = Fn(fdefs[nm]); bad = fn.run()
                print(f"{mod.__name__}.{nm}: assigns={len(fn.assigns)} writes={len(fn.writes)} tainted_writes={bad}")
            except NotImplementedError as e:
                print(f"{mod.__name__}.{nm}: FAIL-CLOSED {e}")
