From Coq Require Import QArith Lqa Psatz.
Open Scope Q_scope.
Definition cross (ox oy ax ay bx b_y : Q) := (ax - ox) * (b_y - oy) - (ay - oy) * (bx - ox).
Definition lexlt (ax ay bx b_y : Q) := ax < bx \/ (ax == bx /\ ay < b_y).
Definition lexle (ax ay bx b_y : Q) := lexlt ax ay bx b_y \/ (ax == bx /\ ay == b_y).
Lemma L1 ax ay bx b_y cx cy px py :
  lexlt ax ay bx b_y -> lexlt bx b_y cx cy -> lexlt cx cy px py ->
  0 < cross ax ay bx b_y cx cy -> 0 < cross bx b_y cx cy px py -> 0 < cross ax ay bx b_y px py.
Proof. unfold cross, lexlt. intros [H1|[H1 H1']] [H2|[H2 H2']] [H3|[H3 H3']] H4 H5; try nra. Qed.
Lemma L2 ax ay bx b_y px py qx qy :
  lexlt ax ay bx b_y -> lexlt bx b_y px py -> lexle qx qy bx b_y ->
  0 <= cross ax ay bx b_y qx qy -> 0 < cross ax ay bx b_y px py -> 0 <= cross bx b_y px py qx qy.
Proof. unfold cross, lexlt, lexle. intros [H1|[H1 H1']] [H2|[H2 H2']] [[H3|[H3 H3']]|[H3 H3']] H4 H5; try nra. Qed.
Lemma L3 t3x t3y t2x t2y t1x t1y px py :
  lexlt t3x t3y t2x t2y -> lexlt t2x t2y t1x t1y -> lexlt t1x t1y px py ->
  0 <= cross t2x t2y px py t1x t1y -> 0 <= cross t3x t3y px py t2x t2y -> 0 <= cross t3x t3y px py t1x t1y.
Proof. unfold cross, lexlt. intros [H1|[H1 H1']] [H2|[H2 H2']] [H3|[H3 H3']] H4 H5; try nra. Qed.
