Require Import GJModel. From Coq Require Import QArith List. Import ListNotations. Open Scope Q_scope.
Definition A3 : mat := [[0; 2; 1]; [1#2; 0; 3]; [4; 1; 0]].
Eval vm_compute in inv_gj A3.
Eval vm_compute in match inv_gj A3 with Ok x => mmul 3 x A3 | _ => [] end.
Definition A4 : mat := [[0;0;0;1];[0;0;2;0];[0;3;0;0];[5;0;0;7#3]].
Eval vm_compute in match inv_gj A4 with Ok x => (x, mmul 4 x A4, mmul 4 A4 x) | _ => ([],[],[]) end.
Eval vm_compute in inv_gj [[1;2];[2;4]].
Eval vm_compute in inv_gj [[1;2;3];[2;4]].
Definition A8 : mat := map (fun i => map (fun j => (Z.of_nat ((i*7+j*3+i*j) mod 11) - 5) # (Pos.of_nat (1 + (i+j) mod 3))) (seq 0 8)) (seq 0 8).
Time Eval vm_compute in match inv_gj A8 with Ok x => (mmul 8 x A8) | _ => [] end.
