From Coq Require Import QArith Qabs List Bool Lia.
Import ListNotations.
Open Scope Q_scope.

Definition row := list Q.
Definition mat := list row.

Definition qnth (r : row) (j : nat) : Q := nth j r 0.
Definition mnth (m : mat) (i j : nat) : Q := qnth (nth i m []) j.

Fixpoint upd {A} (l : list A) (i : nat) (x : A) : list A :=
  match l, i with
  | [], _ => []
  | _ :: t, O => x :: t
  | h :: t, S i' => h :: upd t i' x
  end.

Definition swap {A} (d : A) (l : list A) (i j : nat) : list A :=
  upd (upd l i (nth j l d)) j (nth i l d).

Definition rscale (c : Q) (r : row) : row := map (fun x => Qred (x * c)) r.
Definition raxpy (c : Q) (r1 r2 : row) : row := (* r2 - c * r1 *)
  map (fun p => Qred (snd p - c * fst p)) (combine r1 r2).

Definition ident (n : nat) : mat :=
  map (fun i => map (fun j => if Nat.eqb i j then 1 else 0) (seq 0 n)) (seq 0 n).

(* first maximum of |m[i][j]| over i,j >= k in row-major order *)
Definition argmax_abs (n k : nat) (m : mat) : nat * nat * Q :=
  fold_left (fun best ij =>
     let '(bi, bj, bv) := best in
     let v := Qabs (mnth m (fst ij) (snd ij)) in
     if Qlt_le_dec bv v then (fst ij, snd ij, v) else best)
    (list_prod (seq k (n - k)) (seq k (n - k))) (k, k, Qabs (mnth m k k)).

Record st := { sm : mat; sb : mat; sp : list nat }.

Inductive res := Ok (x : mat) | Singular | NotSquare.

Definition elim_below (k n : nat) (s : st) : st :=
  let rk := nth k (sm s) [] in let bk := nth k (sb s) [] in
  fold_left (fun s l =>
      let pv2 := mnth (sm s) l k in
      {| sm := upd (sm s) l (raxpy pv2 rk (nth l (sm s) []));
         sb := upd (sb s) l (raxpy pv2 bk (nth l (sb s) []));
         sp := sp s |}) (seq (S k) (n - S k)) s.

Definition fwd_step (n k : nat) (s : st) : option st :=
  let '(im, jm, _) := argmax_abs n k (sm s) in
  let pv := mnth (sm s) im jm in
  if Qeq_bool pv 0 then None else
  let m1 := swap [] (sm s) k im in let b1 := swap [] (sb s) k im in
  let m2 := map (fun r => swap 0 r k jm) m1 in
  let b2 := map (fun r => swap 0 r k jm) b1 in
  let p2 := map (fun c => if Nat.eqb c k then jm else if Nat.eqb c jm then k else c) (sp s) in
  let m3 := upd m2 k (rscale (/ pv) (nth k m2 [])) in
  let b3 := upd b2 k (rscale (/ pv) (nth k b2 [])) in
  Some (elim_below k n {| sm := m3; sb := b3; sp := p2 |}).

Fixpoint fwd (n : nat) (ks : list nat) (s : st) : option st :=
  match ks with
  | [] => Some s
  | k :: ks' => match fwd_step n k s with None => None | Some s' => fwd n ks' s' end
  end.

Definition back (n : nat) (s : st) : mat :=
  fold_left (fun b k1 =>
     fold_left (fun b k2 => upd b k2 (raxpy (mnth (sm s) k2 k1) (nth k1 b []) (nth k2 b [])))
               (rev (seq 0 k1)) b)
    (rev (seq 1 (n - 1))) (sb s).

Definition inv_gj (a : mat) : res :=
  let n := length a in
  if negb (forallb (fun r => Nat.eqb (length r) n) a) then NotSquare else
  match fwd n (seq 0 n) {| sm := a; sb := ident n; sp := seq 0 n |} with
  | None => Singular
  | Some s => let b := back n s in
      Ok (map (fun i => map (fun j => mnth b (nth i (sp s) O) (nth j (sp s) O)) (seq 0 n)) (seq 0 n))
  end.

Definition mmul (a b : mat) : mat :=
  let n := length a in
  map (fun i => map (fun j => Qred (fold_right (fun k acc => mnth a i k * mnth b k j + acc) 0 (seq 0 n))) (seq 0 n)) (seq 0 n).

Definition A3 : mat := [[0; 2; 1]; [1#2; 0; 3]; [4; 1; 0]].
Eval vm_compute in inv_gj A3.
Eval vm_compute in match inv_gj A3 with Ok x => mmul x A3 | _ => [] end.
Definition A4 : mat := [[0;0;0;1];[0;0;2;0];[0;3;0;0];[5;0;0;7#3]].
Eval vm_compute in match inv_gj A4 with Ok x => (x, mmul x A4, mmul A4 x) | _ => ([],[],[]) end.
Eval vm_compute in inv_gj [[1;2];[2;4]].
Eval vm_compute in inv_gj [[1;2;3];[2;4]].
