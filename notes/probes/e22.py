import numpy as np, warnings
warnings.filterwarnings('ignore')
from tweakwcs import convex_hull
for pts in [[(0,0),(1e-12,-1e-12),(10,0),(5,10)], [(0,0),(10,0),(10+1e-12,1e-12),(5,10)], [(0,0),(10,0),(5,10),(1e-12,1e-12+1e-13)], [(0,0),(5,-3),(10,0),(5,10),(5+1e-12,10-1e-12)]]:
    x=[p[0] for p in pts]; y=[p[1] for p in pts]
    hx,hy=convex_hull(x,y,min_separation=1e-11)
    hx0,hy0=convex_hull(x,y)
    print(pts,'\n   nomerge',list(zip(hx0,hy0)),'\n   merged ',list(zip(hx,hy)))
