import numpy as np, warnings, sys, logging, itertools
warnings.filterwarnings('ignore'); logging.disable(logging.CRITICAL)
from tweakwcs import imalign
class Fp:
    """fake footprint: axis-aligned rectangle in a plane; area of intersection."""
    def __init__(s, name, x0,x1,y0,y1): s.name=name; s.b=(x0,x1,y0,y1)
    def _guarded_intersection_area(s, o):
        a=s.b; b=o.b
        w=max(0,min(a[1],b[1])-max(a[0],b[0])); h=max(0,min(a[3],b[3])-max(a[2],b[2]))
        return w*h, 0
    def __repr__(s): return s.name
A=Fp('A',0,10,0,10); B=Fp('B',5,15,0,10); C=Fp('C',9,19,0,10); D=Fp('D',100,110,0,10)
ims=[A,B,C,D]
def true_area(a,b): return a._guarded_intersection_area(b)[0]
bad=0
for perm in itertools.permutations(ims):
    l=list(perm)
    im1,im2,area=imalign._max_overlap_pair(l, False)
    ok = abs(area-true_area(im1,im2))<1e-12
    if not ok: bad+=1
    print(perm, '->', im1, im2, area, true_area(im1,im2), 'rest', l, '' if ok else 'BAD')
print('bad', bad)
