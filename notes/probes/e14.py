import numpy as np, warnings, sys, logging
warnings.filterwarnings('ignore'); logging.disable(logging.CRITICAL)
from tweakwcs import matchutils as mu
rng=np.random.default_rng(11)
def field(n, size, minsep):
    pts=[]
    while len(pts)<n:
        p=rng.uniform(0,size,2)
        if all(np.hypot(*(p-q))>minsep for q in pts): pts.append(p)
    return np.array(pts)
pscale=0.05; sr=0.15
n=43
base=field(n, 12*pscale*np.sqrt(n)*4, 12*pscale)
common=np.arange(18); refonly=np.arange(18,30); imonly=np.arange(30,43)
ref=base[np.concatenate([common,refonly])]; 
for sh in [(1.2165,-0.4072),(1.2,-0.4)]:
  for noise in [0.0,0.02]:
    im=base[np.concatenate([common,imonly])]+np.array(sh)*pscale+rng.normal(0,noise*pscale,(31,2))
    zp=mu._xy_2dhist(im/pscale, ref/pscale, r=sr/pscale)
    est=mu._estimate_2dhist_shift(im, ref, searchrad=sr, pscale=pscale)
    print('true/ps',sh,'noise',noise,'est/ps',np.array(est)/pscale,'nonzero (y,x,count)',[(int(a),int(b),int(zp[a,b])) for a,b in np.argwhere(zp>0)])
    if np.count_nonzero(zp)>1:
        print('   find_peak:', mu._find_peak(zp, peak_fit_box=5, mask=zp>0))
