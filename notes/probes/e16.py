from scen import *
import sys
from tweakwcs.tests.helper_correctors import make_mock_jwst_wcs
from tweakwcs.correctors import JWSTWCSCorrector
np.set_printoptions(precision=6, linewidth=200)
rng=np.random.default_rng(0)
def rotm(a,s=1.0):
    a=np.deg2rad(a); return s*np.array([[np.cos(a),np.sin(a)],[-np.sin(a),np.cos(a)]])
x=rng.uniform(0,1023,50); y=rng.uniform(0,1023,50)
def sky(c): return np.array(c.det_to_world(x,y))
def sep_arcsec(a,b):
    dra=(a[0]-b[0]+180)%360-180
    return np.max(np.hypot(dra*np.cos(np.deg2rad(a[1])), a[1]-b[1]))*3600
def mk(kind):
    if kind=='fits': return FITSWCSCorrector(mkwcs(scale=1.4e-5))
    w=make_mock_jwst_wcs(v2ref=123.0, v3ref=500.0, roll=115.0, crpix=[512.0,512.0], cd=[[1.4e-5,0],[0,1.4e-5]], crval=[82.0,12.0])
    return JWSTWCSCorrector(w, {'v2_ref':123.0,'v3_ref':500.0,'roll_ref':115.0})
M1,s1=rotm(0.3,1.001),np.array([3.0,-2.0]); M2,s2=np.array([[1.002,0.004],[-0.001,0.997]]),np.array([-1.5,4.0])
for kind in ['fits','gwcs']:
    c0=mk(kind); s0=sky(c0)
    # identity
    c=c0.copy(); c.set_correction(); print(kind,'identity',sep_arcsec(sky(c),s0))
    # inverse
    c=c0.copy(); c.set_correction(M1,s1); Mi=np.linalg.inv(M1); 
    ca=c.copy(); ca.set_correction(Mi,-Mi@s1); print(kind,'corr then inverse (own plane, gwcs-law)',sep_arcsec(sky(ca),s0))
    # composition own plane
    c12=c0.copy(); c12.set_correction(M1,s1); c12.set_correction(M2,s2)
    cg=c0.copy(); cg.set_correction(M2@M1, M2@s1+s2)
    cf=c0.copy(); cf.set_correction(M1@M2, M1@s2+s1)
    print(kind,'compose own plane: vs (M2M1): %.3g  vs (M1M2): %.3g'%(sep_arcsec(sky(c12),sky(cg)), sep_arcsec(sky(c12),sky(cf))))
    # composition via fixed ref plane
    ref=c0.copy()
    r12=c0.copy(); r12.set_correction(M1,s1,ref_tpwcs=ref); r12.set_correction(M2,s2,ref_tpwcs=ref)
    rg=c0.copy(); rg.set_correction(M2@M1, M2@s1+s2, ref_tpwcs=ref)
    print(kind,'compose fixed ref plane vs (M2M1): %.3g'%sep_arcsec(sky(r12),sky(rg)))
    # rewrap continues history
    live=c0.copy(); live.set_correction(M1,s1)
    if kind=='fits': re=FITSWCSCorrector(live.wcs)
    else: re=JWSTWCSCorrector(live.wcs, live.ref_angles)
    live.set_correction(M2,s2); re.set_correction(M2,s2)
    print(kind,'rewrap vs live', sep_arcsec(sky(live),sky(re)))
    if kind=='gwcs': print('   frames', live.wcs.available_frames.count('v2v3corr'))
    # original untouched
    print(kind,'orig untouched', sep_arcsec(np.array(mk(kind).det_to_world(x,y)), np.array(c0.original_wcs(x,y) if kind=='gwcs' else c0.original_wcs.all_pix2world(x,y,0))))
