from scen import *
from tweakwcs.wcsimage import RefCatalog, WCSImageCatalog, WCSGroupCatalog
from tweakwcs.tests.helper_correctors import make_mock_jwst_wcs
from tweakwcs.correctors import JWSTWCSCorrector
rng=np.random.default_rng(2)
for parity in [1,-1]:
    for rot in [0,33,200]:
        w=mkwcs(rot=rot)
        cd=w.wcs.cd.copy(); 
        if parity<0: cd[:,0]*=-1   # flip x axis → negative determinant (standard sky parity)
        w.wcs.cd=cd; w.wcs.set()
        x=rng.uniform(0,1023,30); y=rng.uniform(0,1023,30)
        im=WCSImageCatalog(Table([x,y],names=('x','y')), FITSWCSCorrector(w))
        ra,dec=w.all_pix2world(500.,500.,0)
        # chip polygon (no catalog-based hull): catalog with 2 sources
        im2=WCSImageCatalog(Table([x[:2],y[:2]],names=('x','y')), FITSWCSCorrector(w))
        print('det',np.sign(np.linalg.det(cd)),'rot',rot,'cat hull contains center',bool(im.polygon.contains_radec(float(ra),float(dec))),'area %.3g'%im.polygon.area(), '| chip poly contains',bool(im2.polygon.contains_radec(float(ra),float(dec))),'area %.3g'%im2.polygon.area())
