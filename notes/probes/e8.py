import numpy as np, warnings, sys, logging
warnings.filterwarnings('ignore'); logging.disable(logging.CRITICAL)
from tweakwcs import linearfit as lf
from tweakwcs.linalg import inv
rng=np.random.default_rng(0)
def tryfit(uv, xy, g, **kw):
    try:
        f=lf.iter_linear_fit(xy,uv,fitgeom=g,nclip=0, **kw)
        return 'OK matrix=%s shift=%s rmse=%.3g'%(np.array2string(f['matrix'],precision=4).replace('\n',''), f['shift'], f['rmse'])
    except Exception as e:
        return 'EXC %s: %s'%(type(e).__name__, e)
# collinear cases
t=np.array([0.1,0.2,0.3,0.45,0.7])
cases={'collinear_diag_nonrep': np.stack([t,t],1), 'collinear_int': np.stack([np.arange(5.),2*np.arange(5.)+1],1),
       'collinear_slope': np.stack([t,0.3*t+0.1],1), 'coincident': np.tile([1.3,2.7],(5,1)), 'collinear_random': None}
a=rng.uniform(0,100,2); d=rng.normal(size=2); cases['collinear_random']=a+np.outer(rng.uniform(-50,50,6),d)
for name,uv in cases.items():
    xy=uv@np.array([[1.01,0.02],[-0.02,0.99]]).T+[3,4]
    for g in ['general','rscale','rshift','shift']:
        print(name,g,tryfit(uv,xy,g))
# inv
for A in [np.array([[1,2],[2,4.]]), np.array([[0.1,0.2],[0.3,0.6]]), np.array([[1,np.inf],[0,1.]]), np.array([[1,np.nan],[0,1.]]), np.ones((2,3)), np.array([[0,1.],[1,0]]), np.zeros((3,3))]:
    try:
        A0=A.copy(); X=inv(A); print('inv ok', X.tolist(), 'unmodified', np.array_equal(A0,A, equal_nan=True))
    except Exception as e: print('inv EXC', type(e).__name__, e)
