from scen import *
rng=np.random.default_rng(9)
ra,dec=sky_sources(rng, n=500)
def scenario(corrupt, drop, swapw=False):
    cors=[]
    zero_sets=[]
    for k in range(2):
        wt=mkwcs(crval=(82.0+0.002*k,12.0+0.001*k), rot=15*k)
        x,y,idx=observe(wt,ra,dec)
        w=np.ones(len(x)); r2=np.random.default_rng(100+k)
        z=r2.choice(len(x),8,replace=False); w[z]=0.0
        w[w>0]=r2.uniform(0.5,2.0,(w>0).sum())
        x=x.copy(); y=y.copy()
        if corrupt:
            x[z]+=r2.uniform(-0.6,0.6,8); y[z]+=r2.uniform(-0.6,0.6,8)   # corrupted but still matchable
        if drop:
            keep=np.ones(len(x),bool); keep[z]=False; x=x[keep]; y=y[keep]; w=w[keep]
        wg=mkwcs(crval=(82.0+0.002*k+1.5e-5,12.0+0.001*k-1e-5), rot=15*k+0.01)
        cors.append(FITSWCSCorrector(wg, meta={'catalog':Table([x,y,w],names=('x','y','weight')),'name':f'im{k}','group_id':7}))
    refw=np.random.default_rng(5).uniform(0.5,2,len(ra))
    rc=Table([ra,dec,refw],names=('RA','DEC','weight'))
    align_wcs(cors, refcat=rc, fitgeom='general', nclip=0, match=XYXYMatch(searchrad=5,separation=0.1,tolerance=1.0))
    fi=cors[0].meta['fit_info']
    return fi, cors
fa,ca=scenario(False,False); fb,cb=scenario(True,False); fc,cc=scenario(False,True)
for n,f in [('clean',fa),('corrupt zero-w',fb),('dropped zero-w',fc)]:
    print(n, f['status'], f['matrix'].ravel(), f['shift'], 'rmse %.6g'%f['rmse'], 'nmatch',f['nmatches'],'fitmask sum',f['fitmask'].sum())
print('corrupt vs clean matrix diff', np.abs(fa['matrix']-fb['matrix']).max(), 'shift', np.abs(fa['shift']-fb['shift']).max())
print('dropped vs clean matrix diff', np.abs(fa['matrix']-fc['matrix']).max(), 'shift', np.abs(fa['shift']-fc['shift']).max())
print('---- debug clean')
for name,(f,cs) in [('clean',(fa,ca)),('corrupt',(fb,cb))]:
    cat=np.concatenate([np.asarray(c.meta['catalog']['weight']) for c in cs])
    mi=f['matched_input_idx']; mr=f['matched_ref_idx']
    refw=np.random.default_rng(5).uniform(0.5,2,len(ra))
    print(name,'zero-weight matched (by group-cat index):', int((cat[mi]==0).sum()), 'fitmask false', int((~f['fitmask']).sum()), 'fitmask false where w>0:', np.nonzero((~f['fitmask'])&(cat[mi]>0))[0], 'dups', len(mi)-len(set(mi.tolist())))
