from scen import *
from astropy.wcs import Sip, WCS, DistortionLookupTable
from astropy.io import fits
w=mkwcs()
a=np.zeros((4,4)); b=np.zeros((4,4)); a[2,0]=2e-6; a[1,1]=-1e-6; a[0,2]=3e-6; b[2,0]=-1e-6; b[0,2]=2e-6; b[1,1]=1.5e-6
w.sip=Sip(a,b,None,None,w.wcs.crpix); w.wcs.ctype=['RA---TAN-SIP','DEC--TAN-SIP']; w.wcs.set()
# add cpdis lookup table
tab=np.zeros((4,4),dtype=np.float32); tab[1,1]=0.01; tab[2,2]=-0.02
w.cpdis1=DistortionLookupTable(tab,(2.,2.),(512.,512.),(300.,300.))
c=FITSWCSCorrector(w)
M=np.array([[1.001,0.002],[-0.0015,0.9995]]); s=[2.0,-3.0]
before=dict(crpix=w.wcs.crpix.copy(), ctype=list(w.wcs.ctype), sipa=w.sip.a.copy(), sipb=w.sip.b.copy(), sipcrpix=w.sip.crpix.copy(), cp=w.cpdis1.data.copy(), shape=w.pixel_shape, cdelt=w.wcs.cdelt.copy(), crval=w.wcs.crval.copy(), cd=w.wcs.cd.copy())
c.set_correction(M,s)
n=c.wcs
print('crpix same',np.array_equal(n.wcs.crpix,before['crpix']),'ctype',list(n.wcs.ctype)==before['ctype'],'sip a/b',np.array_equal(n.sip.a,before['sipa']),np.array_equal(n.sip.b,before['sipb']),'sip crpix',np.array_equal(n.sip.crpix,before['sipcrpix']),'cpdis',np.array_equal(n.cpdis1.data,before['cp']),'shape',n.pixel_shape==before['shape'],'cdelt',np.array_equal(n.wcs.cdelt,before['cdelt']))
print('crval changed',not np.array_equal(n.wcs.crval,before['crval']),'cd changed',not np.array_equal(n.wcs.cd,before['cd']))
print('orig untouched', np.array_equal(c.original_wcs.wcs.crval,before['crval']), np.array_equal(c.original_wcs.wcs.cd,before['cd']))
x=np.linspace(5,1000,9); y=np.linspace(1000,5,9)
hl=n.to_fits(relax=True); w2=WCS(hl[0].header, hl)
print('roundtrip diff arcsec',np.abs(np.array(w2.all_pix2world(x,y,0))-np.array(n.all_pix2world(x,y,0))).max()*3600)
