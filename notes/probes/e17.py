import numpy as np, warnings, sys, logging
warnings.filterwarnings('ignore'); logging.disable(logging.CRITICAL)
from tweakwcs import linearfit as lf
rng=np.random.default_rng(4)
def eff(f):
    F=f['matrix']; c=f['center']; s=f['shift']
    return F, s + c - F@c
worst={}
def upd(k,v,info=None):
    if v>worst.get(k,(-1,None))[0]: worst[k]=(v,info)
for it in range(400):
    n=int(rng.integers(6,40)); g=rng.choice(['shift','rshift','rscale','general'])
    uv=rng.uniform(-50,50,(n,2)); a=rng.uniform(-180,180)
    R=lf.build_fit_matrix(a, rng.uniform(0.8,1.2) if g in('rscale','general') else 1.0)
    if g=='shift': R=np.eye(2)
    xy=uv@R.T+rng.uniform(-5,5,2)+rng.normal(0,0.05,(n,2))
    k=rng.choice(n,2,replace=False); xy[k]+=rng.uniform(3,8,(2,2))
    wmode=rng.integers(0,4)
    wxy=rng.uniform(0.5,2,n) if wmode in (1,3) else None
    wuv=rng.uniform(0.5,2,n) if wmode in (2,3) else None
    nclip=int(rng.integers(0,4)); sig=(float(rng.choice([2.0,2.5,3.0])), rng.choice(['rmse','mae'])); acc=bool(rng.integers(0,2))
    kw=dict(fitgeom=g,nclip=nclip,sigma=sig,clip_accum=acc)
    f0=lf.iter_linear_fit(xy,uv,wxy,wuv,**kw)
    F0,s0=eff(f0)
    # permutation
    p=rng.permutation(n)
    f1=lf.iter_linear_fit(xy[p],uv[p],None if wxy is None else wxy[p],None if wuv is None else wuv[p],**kw)
    F1,s1=eff(f1)
    upd('perm_param',max(np.abs(F1-F0).max(),np.abs(s1-s0).max()),(g,nclip,sig,acc,wmode))
    upd('perm_mask',float(np.any(f1['fitmask']!=f0['fitmask'][p])),(g,nclip,sig,acc,wmode))
    # weight scaling
    if wmode:
        cst=rng.uniform(0.1,10)
        f2=lf.iter_linear_fit(xy,uv,None if wxy is None else wxy*cst,None if wuv is None else wuv*cst,**kw)
        F2,s2=eff(f2); upd('wscale',max(np.abs(F2-F0).max(),np.abs(s2-s0).max(),abs(f2['rmse']-f0['rmse']),abs(f2['mae']-f0['mae'])),(g,wmode))
    else:
        f2=lf.iter_linear_fit(xy,uv,np.full(n,2.5),None,**kw); F2,s2=eff(f2)
        upd('uniform_w',max(np.abs(F2-F0).max(),np.abs(s2-s0).max(),abs(f2['rmse']-f0['rmse']),abs(f2['mae']-f0['mae'])),(g,nclip,sig))
        upd('uniform_w_mask',float(np.any(f2['fitmask']!=f0['fitmask'])),(g,nclip,sig))
    # centre
    c=rng.uniform(-100,100,2)
    f3=lf.iter_linear_fit(xy,uv,wxy,wuv,center=c,**kw); F3,s3=eff(f3)
    upd('center',max(np.abs(F3-F0).max(),np.abs(s3-s0).max(),abs(f3['rmse']-f0['rmse'])),(g,nclip,sig,acc,wmode))
    # similarity applied to both: T(z)=S z + t
    S=lf.build_fit_matrix(rng.uniform(-180,180), rng.uniform(0.5,2)); 
    if rng.random()<0.3: S=S@np.diag([1,-1])
    t=rng.uniform(-20,20,2)
    f4=lf.iter_linear_fit(xy@S.T+t,uv@S.T+t,wxy,wuv,**kw); F4,s4=eff(f4)
    # expected: xy' = S xy + t ~ S(F uv + s)+t = S F S^-1 (uv' - t) + S s + t
    Fe=S@F0@np.linalg.inv(S); se=S@s0+t-Fe@t
    upd('conj',max(np.abs(F4-Fe).max(),np.abs(s4-se).max()),(g,nclip,sig,acc,wmode))
    upd('conj_mask',float(np.any(f4['fitmask']!=f0['fitmask'])),(g,nclip,sig,acc,wmode,f0['eff_nclip'],f4['eff_nclip']))
    # zero weights w/ corruption
    if wmode:
        z=rng.choice(n,3,replace=False)
        wx2=None if wxy is None else wxy.copy(); wu2=None if wuv is None else wuv.copy()
        if wx2 is not None: wx2[z]=0
        else: wu2[z]=0
        fa=lf.iter_linear_fit(xy,uv,wx2,wu2,**kw)
        xyc=xy.copy(); uvc=uv.copy(); xyc[z]=rng.uniform(-1e6,1e6,(3,2)); uvc[z[:2]]=rng.uniform(-1e6,1e6,(2,2))
        fb=lf.iter_linear_fit(xyc,uvc,wx2,wu2,**kw)
        Fa,sa=eff(fa); Fb,sb=eff(fb)
        upd('zero_w',max(np.abs(Fa-Fb).max(),np.abs(sa-sb).max(),abs(fa['rmse']-fb['rmse'])),(g,wmode))
        upd('zero_w_mask',float(np.any(fa['fitmask']!=fb['fitmask']) or fa['fitmask'][z].any()),(g,wmode))
for k,v in sorted(worst.items()): print(k,v)
