from scen import *
from astropy.io import fits
np.set_printoptions(precision=6, linewidth=200)
rng=np.random.default_rng(0)
def add_sip(w):
    from astropy.wcs import Sip
    a=np.zeros((4,4)); b=np.zeros((4,4))
    a[2,0]=2e-6; a[1,1]=-1e-6; a[0,2]=3e-6; b[2,0]=-1e-6; b[0,2]=2e-6; b[1,1]=1.5e-6
    w.sip=Sip(a,b,None,None,w.wcs.crpix)
    w.wcs.ctype=['RA---TAN-SIP','DEC--TAN-SIP']; w.wcs.set()
    return w
x=rng.uniform(0,1023,50); y=rng.uniform(0,1023,50)
def rotm(a,s=1.0):
    a=np.deg2rad(a); return s*np.array([[np.cos(a),np.sin(a)],[-np.sin(a),np.cos(a)]])
for desc,w in [('cd',mkwcs()),('pc',mkwcs(pc=True)),('sip',add_sip(mkwcs())),('hidec',mkwcs(crval=(359.999,88.0))),('scale',mkwcs(scale=7e-5, rot=200))]:
    c=FITSWCSCorrector(w)
    for M,s in [(rotm(0.05,1.0005),[2.5,-1.5]),(rotm(2.0,1.02),[30.,-20.]),(np.array([[1.01,0.003],[-0.002,0.995]]),[100.,50.])]:
        old=c.copy(); new=c.copy(); new.set_correction(M,s)
        lhs=np.array(old.world_to_tanp(*new.det_to_world(x,y)))
        rhs=M@np.array(old.det_to_tanp(x,y))+np.array(s)[:,None]
        cr=np.array(old.wcs.wcs.crpix)-1
        lhs0=np.array(old.world_to_tanp(*new.det_to_world(*cr))); rhs0=M@np.array(old.det_to_tanp(*cr))+np.array(s)
        # triangle + roundtrips on new
        tri=np.abs(np.array(new.tanp_to_world(*new.det_to_tanp(x,y)))-np.array(new.det_to_world(x,y))).max()*3600
        rt=np.abs(np.array(new.world_to_det(*new.det_to_world(x,y)))-[x,y]).max()
        rt2=np.abs(np.array(new.tanp_to_det(*new.det_to_tanp(x,y)))-[x,y]).max()
        # preserved
        pres = (np.array_equal(old.wcs.wcs.crpix,new.wcs.wcs.crpix), list(old.wcs.wcs.ctype)==list(new.wcs.wcs.ctype), old.wcs.wcs.has_cd()==new.wcs.wcs.has_cd(), np.array_equal(old.wcs.wcs.cdelt,new.wcs.wcs.cdelt), old.wcs.pixel_shape==new.wcs.pixel_shape)
        ps=new.tanp_center_pixel_scale
        print(desc,'|M|',np.round(np.linalg.det(M),4),'s',s,'err max %.3g px, at crpix %.3g'%(np.abs(lhs-rhs).max(), np.abs(lhs0-rhs0).max()),'tri(arcsec) %.2g rt %.2g rt2 %.2g'%(tri,rt,rt2),pres,'pscale %.6f'%ps, 'orig untouched', np.array_equal(c.original_wcs.wcs.crval, w.wcs.crval))
