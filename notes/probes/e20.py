from scen import *
import pickle
from tweakwcs import linearfit as lf, inv, convex_hull, build_fit_matrix
rng=np.random.default_rng(1)
def snap(o): 
    if isinstance(o,np.ndarray): return (o.dtype.str,o.shape,o.tobytes())
    if isinstance(o,Table): return tuple((n,snap(np.asarray(o[n]))) for n in o.colnames)+(repr(sorted(o.meta.items(),key=str)),)
    return pickle.dumps(o)
# linearfit with various dtypes
n=30
for dt in [np.float64,np.longdouble,np.float32]:
    uv=rng.uniform(0,100,(n,2)).astype(dt); xy=(uv*1.01+3).astype(dt); xy[3]+=9
    wxy=rng.uniform(0.5,2,n).astype(dt); wuv=rng.uniform(0.5,2,n).astype(dt); wuv[5]=0
    for g in ['shift','rshift','rscale','general']:
        for acc in [False,True]:
            b=[snap(a) for a in (xy,uv,wxy,wuv)]
            f1=lf.iter_linear_fit(xy,uv,wxy,wuv,fitgeom=g,nclip=3,sigma=(2.0,'rmse'),clip_accum=acc)
            f2=lf.iter_linear_fit(xy,uv,wxy,wuv,fitgeom=g,nclip=3,sigma=(2.0,'rmse'),clip_accum=acc)
            a=[snap(a) for a in (xy,uv,wxy,wuv)]
            if a!=b: print('MUTATED', dt, g, acc, [i for i in range(4) if a[i]!=b[i]])
            if not (np.array_equal(f1['matrix'],f2['matrix']) and np.array_equal(f1['fitmask'],f2['fitmask'])): print('NONDET',dt,g)
        # single-shot
        for fn in [lf.fit_shifts, lf.fit_rscale, lf.fit_rshift, lf.fit_general]:
            b=[snap(a) for a in (xy,uv,wxy,wuv)]
            fn(xy,uv,wxy,wuv)
            a=[snap(a) for a in (xy,uv,wxy,wuv)]
            if a!=b: print('MUTATED single', dt, fn.__name__, [i for i in range(4) if a[i]!=b[i]])
A=rng.uniform(-1,1,(4,4)).astype(np.longdouble); b=snap(A); inv(A); print('inv mutated', snap(A)!=b)
px=rng.uniform(0,10,20); py=rng.uniform(0,10,20); b=(snap(px),snap(py)); convex_hull(px,py,min_separation=0.1); print('hull mutated',(snap(px),snap(py))!=b)
# fit_wcs / align_wcs
w=mkwcs(); ra,dec=sky_sources(rng,n=300); x,y,idx=observe(w,ra,dec)
imcat=Table([x,y,np.ones(len(x))],names=('x','y','weight')); imcat.meta['name']='im'
refcat=Table([ra[idx],dec[idx],np.ones(len(x))],names=('RA','DEC','weight'))
corr=FITSWCSCorrector(mkwcs(crval=(82.00001,12.00001))); reft=FITSWCSCorrector(mkwcs(rot=77))
b=[snap(imcat),snap(refcat),corr.original_wcs.to_header_string(),reft.wcs.to_header_string(), repr(reft.meta)]
out=fit_wcs(refcat,imcat,corr,ref_tpwcs=reft)
a=[snap(imcat),snap(refcat),corr.original_wcs.to_header_string(),reft.wcs.to_header_string(), repr(reft.meta)]
print('fit_wcs mutated:',[i for i in range(5) if a[i]!=b[i]], 'out is corr', out is corr)
cors=[]
for k in range(3):
    wt=mkwcs(crval=(82.0+0.003*k,12.0)); xx,yy,ii=observe(wt,ra,dec)
    cors.append(FITSWCSCorrector(mkwcs(crval=(82.0+0.003*k+1e-5*k,12.0)), meta={'catalog':Table([xx,yy],names=('x','y')),'name':f'im{k}'}))
rc=Table([ra,dec],names=('RA','DEC'))
b=[snap(c.meta['catalog']) for c in cors]+[snap(rc)]+[c.original_wcs.to_header_string() for c in cors]
m=XYXYMatch(searchrad=5,separation=0.1,tolerance=1.0)
r=align_wcs(cors, refcat=rc, match=m, expand_refcat=True)
a=[snap(c.meta['catalog']) for c in cors]+[snap(rc)]+[c.original_wcs.to_header_string() for c in cors]
print('align_wcs mutated:',[i for i in range(len(a)) if a[i]!=b[i]], 'returned is caller refcat', r is rc, len(r), len(rc))
