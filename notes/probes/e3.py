import numpy as np, warnings, sys, logging
warnings.filterwarnings('ignore')
logging.disable(logging.CRITICAL)
from tweakwcs import matchutils as mu
rng = np.random.default_rng(1)
# C12: shifted copies; sparse field so only true pairs in search box
def trial(pscale, searchrad, shift, n=40, field=2000.0):
    ref = rng.uniform(0, field, size=(n,2))*pscale
    img = ref + np.array(shift)
    return mu._estimate_2dhist_shift(img, ref, searchrad=searchrad, pscale=pscale)
for pscale, sr in [(1.0,3.0),(1.0,2.5),(0.5,3.0),(0.3,1.0),(2.0,5.0),(0.05,0.12),(1.0,3.7)]:
    for shift in [(0.0,0.0),(pscale*1.0,-pscale*1.0),(0.4*sr,-0.7*sr)]:
        est = trial(pscale, sr, shift)
        err = np.array(est)-np.array(shift)
        print(f'pscale={pscale} sr={sr} r={sr/pscale:.3f} shift={shift} est={est} err/pscale={err/pscale}')
