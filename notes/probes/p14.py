exec(open('p13.py').read().split("gx=np.linspace")[0])
import random
R=random.Random(3)
def sepas(ra1,de1,ra2,de2):
    dra=(ra1-ra2+180)%360-180
    return np.hypot(dra*np.cos(np.deg2rad(de1)), de1-de2)*3600
viol=0; tot=0
def report(msg,cfg):
    global viol; viol+=1
    if viol<20: print('VIOL',msg,cfg)
for it in range(120):
    n=R.randint(2,6)
    ks=['good']*n
    nj=R.choice([0,0,1,1,2])
    for j in R.sample(range(n),min(nj,n-1)): ks[j]='junk'
    gids=[None]*n
    refmode=R.choice(['none','table','table_noid','table_ids'])
    expand=R.random()<0.75; enforce=R.random()<0.5
    cors=[mk(k,ks[k],gids[k]) for k in range(n)]
    order=list(range(n)); R.shuffle(order); cors=[cors[i] for i in order]; ks2=[ks[i] for i in order]
    cfg=dict(ks=ks2,ref=refmode,expand=expand,enforce=enforce,order=order)
    refcat=None
    if refmode!='none':
        sel=np.array(sorted(R.sample(range(NSRC),120)))
        refcat=Table([ra[sel],dec[sel]],names=('RA','DEC'))
        if refmode=='table_ids': refcat['id']=np.array(R.sample(range(1000,5000),len(sel)))
        if refmode=='table': refcat['id']=np.arange(1,len(sel)+1)
        ref0=refcat.copy()
    tot+=1
    try:
        out=align_wcs(cors, refcat=refcat, expand_refcat=expand, enforce_user_order=enforce, fitgeom='rscale', minobj=8, match=OracleMatch(), nclip=0)
    except Exception as e:
        report('exception %s %s'%(type(e).__name__,e),cfg); continue
    st=[c.meta['fit_info']['status'] for c in cors]
    # 1. aligned images land on truth
    for c,s,k in zip(cors,st,ks2):
        if s=='SUCCESS':
            cat=c.meta['catalog']; r,d=c.det_to_world(cat['x'],cat['y'])
            # truth: nearest true source
            wt_idx=None
    # original rows unchanged prefix
    if refmode!='none':
        n0=len(ref0)
        if len(out)<n0 or not (np.array_equal(np.asarray(out['RA'][:n0]),np.asarray(ref0['RA'])) and np.array_equal(np.asarray(out['DEC'][:n0]),np.asarray(ref0['DEC']))): report('orig rows changed',cfg)
        if 'id' in ref0.colnames and not np.array_equal(np.asarray(out['id'][:n0]),np.asarray(ref0['id'])): report('orig ids changed',cfg)
        if not expand and len(out)!=n0: report('extended without expand',cfg)
        ids=np.asarray(out['id']); 
        base=ids[:n0].max()
        if len(out)>n0 and not np.array_equal(ids[n0:], np.arange(base+1, base+1+len(out)-n0)): report('new ids not consecutive above max: %s'%ids[n0:n0+5],cfg)
        if len(set(ids.tolist()))!=len(ids): report('duplicate ids',cfg)
        # appended rows: each must be a true source position (corrected) not already in refcat within 0.01 arcsec... and unique
        if len(out)>n0:
            from scipy.spatial import cKDTree
            allra=np.asarray(out['RA']); alldec=np.asarray(out['DEC'])
            # distance of every appended row to nearest truth
            tr=cKDTree(np.array([ra*np.cos(np.deg2rad(12.0)),dec]).T)
            dd,jj=tr.query(np.array([allra[n0:]*np.cos(np.deg2rad(12.0)),alldec[n0:]]).T)
            off=dd*3600
            names=np.asarray(out['cat_name'][n0:]).astype(str)
            junknames={c.meta['name'] for c,k in zip(cors,ks2) if k=='junk'}
            failed={c.meta['name'] for c,s in zip(cors,st) if s.startswith('FAILED')}
            bad_from_failed=[nm for nm in set(names) if nm in failed]
            if bad_from_failed: report('rows appended from FAILED images %s'%bad_from_failed,cfg)
            good=np.array([nm not in junknames for nm in names])
            if good.any() and off[good].max()>1e-4: report('appended good-image rows off truth by %.3g arcsec'%off[good].max(),cfg)
            # each appended true source once and not already present
            key=jj[good]
            if len(set(key.tolist()))!=len(key): report('source appended twice',cfg)
            present=set(sel.tolist())
            if any(int(k) in present for k in key): report('appended a source already in reference',cfg)
print('violations',viol,'of',tot)
