from scen import *
from tweakwcs.imalign import NotEnoughCatalogs
rng=np.random.default_rng(5)
ra,dec=sky_sources(rng, n=300)
def mk(k, empty=False, gid=None, n=None):
    wt=mkwcs(crval=(82.0+0.002*k,12.0), rot=10*k)
    x,y,idx=observe(wt,ra,dec)
    if empty: x=x[:0]; y=y[:0]
    if n is not None: x=x[:n]; y=y[:n]
    meta={'catalog':Table([x,y],names=('x','y')),'name':f'im{k}'}
    if gid is not None: meta['group_id']=gid
    return FITSWCSCorrector(wt, meta=meta)
def run(desc, cors, **kw):
    before=[np.array(c.det_to_world(500.,500.)) for c in cors]
    try:
        rc=align_wcs(cors, **kw); res='returned len %d'%len(rc)
    except Exception as e:
        res='EXC %s: %s'%(type(e).__name__, e)
    st=[c.meta.get('fit_info',{}).get('status','<none>') for c in cors]
    moved=[not np.array_equal(b, np.array(c.det_to_world(500.,500.))) for b,c in zip(before,cors)]
    print(desc,'|',res,'|',st,'| moved',moved)
m=XYXYMatch(searchrad=5,separation=0.1,tolerance=1.0)
run('2 ims, 2nd empty, no ref', [mk(0),mk(1,empty=True)], match=m)
run('2 ims, 1st empty, no ref', [mk(0,empty=True),mk(1)], match=m)
run('3 ims, 1st empty, no ref', [mk(0,empty=True),mk(1),mk(2)], match=m)
run('3 ims, 2nd empty, no ref', [mk(0),mk(1,empty=True),mk(2)], match=m)
run('3 ims, 2nd empty, no ref, optimize', [mk(0),mk(1,empty=True),mk(2)], match=m, expand_refcat=True, enforce_user_order=False)
run('1 im no ref', [mk(0)], match=m)
run('1 im empty with ref', [mk(0,empty=True)], refcat=Table([ra,dec],names=('RA','DEC')), match=m)
run('grouped: g1 all empty, g2 ok, ref', [mk(0,empty=True,gid=1),mk(1,empty=True,gid=1),mk(2,gid=2)], refcat=Table([ra,dec],names=('RA','DEC')), match=m)
run('bad fitgeom', [mk(0),mk(1)], match=m, fitgeom='bogus')
run('bad refcat type', [mk(0),mk(1)], match=m, refcat=5)
run('one-source cat (1 point, hull?)', [mk(0),mk(1,n=1)], match=m, fitgeom='shift')
run('two-source cat', [mk(0),mk(1,n=2)], match=m, fitgeom='shift')
