from scen import *
from tweakwcs.wcsimage import RefCatalog
from spherical_geometry import vector as sgv
rng=np.random.default_rng(1)
for crval in [(82.0,12.0),(180.0,88.5),(180.0,80.0),(180.0,60.0),(179.0,30.0),(181.0,30.0),(180.0,0.0),(10.0,88.5),(170.0,88.5),(200.0,-88.5), (179.9,10.0),(180.1,10.0)]:
    w=mkwcs(crval=crval, rot=33.0)
    x=rng.uniform(0,1023,30); y=rng.uniform(0,1023,30)
    ra,dec=w.all_pix2world(x,y,0)
    rc=RefCatalog(Table([ra,dec],names=('RA','DEC')))
    cra,cdec=w.all_pix2world(500,500,0)
    verts=list(rc.polygon.to_radec())[0]
    print(crval,'contains center',bool(rc.polygon.contains_radec(float(cra),float(cdec))),'area %.3g'%rc.poly_area,'signed area %.3g'%rc.polygon.area(),'nverts',len(verts[0]), 'ra range of sources %.3f..%.3f'%(ra.min(),ra.max()))
