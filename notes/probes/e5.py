import numpy as np, warnings, sys, logging
warnings.filterwarnings('ignore'); logging.disable(logging.CRITICAL)
from tweakwcs import linearfit as lf
rng=np.random.default_rng(3)
n=300
uv=rng.uniform(0,100,(n,2)); xy=uv+[1,2]+rng.normal(0,0.01,(n,2))
xy[3]+= [5,5]; xy[17]+=[-8,3]
for accum in [False, True]:
  for nclip in range(0,7):
    f=lf.iter_linear_fit(xy,uv,fitgeom='shift',nclip=nclip,sigma=(2.0,'rmse'),clip_accum=accum)
    print(accum, nclip, 'eff',f['eff_nclip'],'nfit',f['fitmask'].sum(),'out in fit:',f['fitmask'][3],f['fitmask'][17],'rmse %.4g'%f['rmse'], len(f['resids']))
