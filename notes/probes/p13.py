from scen import *
import itertools, copy
from tweakwcs.imalign import NotEnoughCatalogs
from tweakwcs.matchutils import MatchCatalogs
rng=np.random.default_rng(5)
NSRC=400
def sep_sources(n, half, minsep_deg):
    pts=[]
    while len(pts)<n:
        p=rng.uniform(-half,half,2)
        if all(np.hypot(*(p-q))>minsep_deg for q in pts): pts.append(p)
    pts=np.array(pts); return 82.0+pts[:,0]/np.cos(np.deg2rad(12.0)), 12.0+pts[:,1]
ra,dec=sep_sources(NSRC, 0.02, 14e-5)
class Counting(FITSWCSCorrector):
    ncorr=0
    def set_correction(self,*a,**k):
        self.ncorr+=1; return super().set_correction(*a,**k)
class OracleMatch(MatchCatalogs):
    """nearest neighbour within 3 tangent-plane units (sources are >=12 apart)"""
    def __call__(self, refcat, imcat, **kw):
        from scipy.spatial import cKDTree
        r=np.array([refcat['TPx'],refcat['TPy']]).T; m=np.array([imcat['TPx'],imcat['TPy']]).T
        d,j=cKDTree(r).query(m, distance_upper_bound=3.0)
        ii=np.nonzero(np.isfinite(d))[0]; ri=j[ii]
        p=np.random.default_rng(len(ri)).permutation(len(ri))
        return np.array(ri,dtype=int)[p], np.array(ii,dtype=int)[p]
def mk(k, kind, gid):
    wt=mkwcs(crval=(82.0+0.004*(k%3),12.0+0.003*(k//3)), rot=10*k)
    x,y,idx=observe(wt,ra,dec)
    sid=idx.copy()
    if kind=='junk': x=(x+300.0)%1000+7.1; y=(y+411.0)%1000+3.3
    if kind=='empty': x=x[:0]; y=y[:0]; sid=sid[:0]
    wg=mkwcs(crval=(82.0+0.004*(k%3)+1e-5,12.0+0.003*(k//3)-1e-5), rot=10*k+0.005)
    meta={'catalog':Table([x,y,sid],names=('x','y','sid')),'name':f'im{k}'}
    if gid is not None: meta['group_id']=gid
    return Counting(wg, meta=meta)
gx=np.linspace(0,1000,5); GX,GY=np.meshgrid(gx,gx)
def sky(c): return np.array(c.det_to_world(GX.ravel(),GY.ravel())).tobytes()
viol=0; tot=0
def report(msg, cfg):
    global viol; viol+=1
    if viol<25: print('VIOL',msg,cfg)
kinds=['good','junk','empty']
import random
R=random.Random(1)
for it in range(250):
    n=R.randint(1,5)
    ks=[R.choice(kinds) if R.random()<0.5 else 'good' for _ in range(n)]
    gids=[R.choice([None,None,1,2,3]) for _ in range(n)]
    refmode=R.choice(['none','table','corr'])
    expand=R.random()<0.5; enforce=R.random()<0.5; fitgeom=R.choice(['shift','rscale','general']); minobj=R.choice([None,5])
    usematch=R.random()<0.85
    cors=[mk(k,ks[k],gids[k]) for k in range(n)]
    cfg=dict(ks=ks,gids=gids,ref=refmode,expand=expand,enforce=enforce,fitgeom=fitgeom,minobj=minobj,match=usematch)
    before=[sky(c) for c in cors]
    refcat=None
    if refmode=='table': refcat=Table([ra,dec,np.arange(NSRC)],names=('RA','DEC','sid'))
    if refmode=='corr':
        rw=mkwcs(crval=(82.003,12.002),rot=5); rx,ry,ridx=observe(rw,ra,dec)
        refcat=FITSWCSCorrector(rw, meta={'catalog':Table([rx,ry,ridx],names=('x','y','sid')),'name':'refim'})
    if not usematch:
        # without matching: catalogs must be equal length & matched 1-1: only single good image + table refcat of its sources
        cors=[mk(0,'good',None)]; ks=['good']; gids=[None]; n=1; before=[sky(c) for c in cors]
        sid=np.asarray(cors[0].meta['catalog']['sid']); refcat=Table([ra[sid],dec[sid],sid],names=('RA','DEC','sid')); refmode='table'
        cfg.update(ks=ks,gids=gids,ref='table-1to1')
    tot+=1
    try:
        out=align_wcs(cors, refcat=refcat, expand_refcat=expand, enforce_user_order=enforce, fitgeom=fitgeom, minobj=minobj, match=OracleMatch() if usematch else None, nclip=0)
        exc=None
    except Exception as e:
        exc=e
    # group structure
    groups={}
    for k in range(n):
        key=('u',k) if gids[k] is None else ('g',gids[k])
        groups.setdefault(key,[]).append(k)
    nonempty_groups=[g for g,m in groups.items() if any(ks[k]!='empty' for k in m)]
    need=2 if refmode=='none' else 1
    if exc is not None:
        if isinstance(exc, NotEnoughCatalogs):
            if len(nonempty_groups)>=need: report('NotEnoughCatalogs but enough groups',cfg)
        else:
            report('unexpected exception %s: %s'%(type(exc).__name__,exc),cfg)
        if any(sky(c)!=b for c,b in zip(cors,before)): report('WCS modified despite exception',cfg)
        if any(c.ncorr for c in cors): report('set_correction called despite exception',cfg)
        continue
    if len(nonempty_groups)<need: report('should have raised NotEnoughCatalogs',cfg); continue
    st=[c.meta.get('fit_info',{}).get('status') for c in cors]
    for k,s in enumerate(st):
        if not (s in ('REFERENCE','SUCCESS') or (isinstance(s,str) and s.startswith('FAILED:'))): report('bad status %r'%s,cfg)
    nref_groups=sum(1 for g,m in groups.items() if all(st[k]=='REFERENCE' for k in m))
    if (refmode=='none') != (nref_groups==1) or any(st[k]=='REFERENCE' for k in range(n)) and refmode!='none': report('REFERENCE count %d'%nref_groups,cfg)
    for g,m in groups.items():
        if len(set(st[k] for k in m))!=1: report('group status differs %s'%[st[k] for k in m],cfg)
        infos=[cors[k].meta['fit_info'] for k in m]
        if st[m[0]]=='SUCCESS':
            for a in infos[1:]:
                if not (np.array_equal(a['matrix'],infos[0]['matrix']) and np.array_equal(a['shift'],infos[0]['shift']) and a['rmse']==infos[0]['rmse']): report('group fit differs',cfg)
    for k,c in enumerate(cors):
        moved = sky(c)!=before[k]
        if st[k]=='SUCCESS':
            if c.ncorr!=1: report('SUCCESS corrected %d times'%c.ncorr,cfg)
        else:
            if c.ncorr!=0 or moved: report('non-SUCCESS corrected/moved (%s, ncorr=%d, moved=%s)'%(st[k],c.ncorr,moved),cfg)
        if ks[k]=='good' and st[k].startswith('FAILED') : pass
    # expected statuses for good images when reference is good: SUCCESS
print('violations',viol,'of',tot)
