import numpy as np, warnings
from fractions import Fraction as Fr
warnings.filterwarnings('ignore')
from tweakwcs.linalg import inv
rng=np.random.default_rng(0)
def finv(A):
    n=len(A); M=[[Fr(x) for x in r]+[Fr(int(i==j)) for j in range(n)] for i,r in enumerate(A)]
    for c in range(n):
        p=next((r for r in range(c,n) if M[r][c]!=0),None)
        if p is None: return None
        M[c],M[p]=M[p],M[c]
        pv=M[c][c]; M[c]=[v/pv for v in M[c]]
        for r in range(n):
            if r!=c and M[r][c]!=0:
                f=M[r][c]; M[r]=[a-f*b for a,b in zip(M[r],M[c])]
    return [r[n:] for r in M]
worst=0; bad=0; tot=0
for it in range(3000):
    n=int(rng.integers(1,9)); kind=rng.integers(0,6)
    if kind==0: A=rng.integers(-8,9,(n,n)).astype(float)/8
    elif kind==1:
        A=np.zeros((n,n)); p=rng.permutation(n); A[np.arange(n),p]=rng.integers(1,5,n)*rng.choice([-1,1],n)
    elif kind==2:
        A=rng.integers(-4,5,(n,n)).astype(float); np.fill_diagonal(A,0)
    elif kind==3:
        A=rng.integers(-8,9,(n,n)).astype(float)*(2.0**rng.integers(-20,21,(n,1)))
    elif kind==4:
        A=rng.integers(-8,9,(n,n)).astype(float); 
        if n>1: A[-1]=A[0]*2+ (rng.integers(-1,2,n)*2.0**-30)
    else:
        A=rng.integers(-3,4,(n,n)).astype(float); 
        if n>1: A[:,-1]=A[:,0]  # singular
    F=finv(A.tolist())
    A0=A.copy()
    try:
        X=inv(A); err=None
    except np.linalg.LinAlgError as e: X=None
    except Exception as e: X='EXC '+type(e).__name__
    tot+=1
    if not np.array_equal(A0,A): bad+=1; print('MUTATED')
    if F is None:
        if X is not None: bad+=1; print('singular not raised', n, kind, A.tolist())
        continue
    if X is None or isinstance(X,str):
        bad+=1; print('regular raised', n, kind, X, A.tolist()); continue
    Fx=np.array([[float(v) for v in r] for r in F])
    normA=np.abs(A).sum(1).max(); normX=np.abs(Fx).sum(1).max(); cond=normA*normX
    R=np.abs(np.array(X,dtype=float)@A-np.eye(n)).max()
    rel=R/(cond*2.2e-16*n)
    E=np.abs(np.array(X,dtype=float)-Fx).max()/(normX*cond*2.2e-16*n)
    worst=max(worst,rel,E)
    if rel>64 or E>64: bad+=1; print('inaccurate',n,kind,rel,E,cond)
print('bad',bad,'of',tot,'worst ratio',worst)
