from scen import *
from tweakwcs.wcsimage import RefCatalog, WCSImageCatalog, WCSGroupCatalog
from spherical_geometry.polygon import SphericalPolygon
rng=np.random.default_rng(21)
cnt=0; bad=0
for crval in [(0.0,0.0),(0.0,10.0),(359.9999,0.0),(0.0001,0.0),(82.0,0.0),(90.0,0.0),(0.0,45.0),(180.0,0.0),(270.0,0.0),(45.0,0.0)]:
  for trial in range(20):
    n=3
    ims=[]
    for k in range(3):
        w=mkwcs(crval=(crval[0]+0.003*k,crval[1]+0.002*k), rot=float(rng.uniform(0,360)), scale=1e-5)
        x=rng.uniform(0,1023,n); y=rng.uniform(0,1023,n)
        ims.append(WCSImageCatalog(Table([x,y],names=('x','y')), FITSWCSCorrector(w), name=f'i{k}'))
    g=WCSGroupCatalog(ims, bb_policy='exact')
    ok=True
    for im in ims:
        ra,dec=[np.asarray(v) for v in im.det_to_world(im.catalog['x'],im.catalog['y'])]
        c=(ra.mean(),dec.mean()) if crval[0] not in (0.0,359.9999,0.0001) else None
        # centroid via vectors
        from spherical_geometry import vector as sgv
        v=np.array(sgv.lonlat_to_vector(ra,dec)).T.mean(0); lon,lat=sgv.vector_to_lonlat(*v)
        if not g.polygon.contains_radec(float(lon),float(lat)): ok=False
    cnt+=1
    if not ok:
        bad+=1
        print('BAD',crval,trial,'group area',g.polygon.area(),'sum member areas',sum(abs(im.polygon.area()) for im in ims), 'npolys',len(list(g.polygon.polygons)))
print(bad,'of',cnt)
