from scen import *
from tweakwcs.wcsimage import RefCatalog, WCSImageCatalog, WCSGroupCatalog
from spherical_geometry import vector as sgv
def contains_margin(poly, ra, dec, f=1e-6):
    # move points a fraction f toward the centroid of the point cloud before testing
    v=np.array(sgv.lonlat_to_vector(ra,dec)).T; c=v.mean(0); c/=np.linalg.norm(c)
    w=(1-f)*v+f*c; w/=np.linalg.norm(w,axis=1)[:,None]
    lon,lat=sgv.vector_to_lonlat(w[:,0],w[:,1],w[:,2])
    return np.array([poly.contains_radec(a,b) for a,b in zip(lon,lat)])

rng=np.random.default_rng(11)
bad=0; tot=0
for crval in [(82.0,12.0),(0.001,30.0),(359.999,-45.0),(180.0,88.5),(10.0,-89.0),(0.0,0.0)]:
    for trial in range(6):
        n=int(rng.choice([3,4,5,10,50]))
        ims=[]
        for k in range(int(rng.integers(1,4))):
            w=mkwcs(crval=(crval[0]+0.003*k/np.cos(np.deg2rad(crval[1])),crval[1]+0.002*k), rot=float(rng.uniform(0,360)), scale=float(rng.choice([1e-5,5e-5])))
            x=rng.uniform(0,1023,n); y=rng.uniform(0,1023,n)
            if trial==0: x=np.round(x/100)*100; y=np.round(y/100)*100  # lattice w/ duplicates & collinear runs
            c=FITSWCSCorrector(w)
            im=WCSImageCatalog(Table([x,y],names=('x','y')), c, name=f'i{k}')
            ims.append(im)
        objs=[('img',im,im.catalog['x'],im.catalog['y'],im) for im in ims]
        for pol in ['auto','exact',0,1]:
            g=WCSGroupCatalog(ims, bb_policy=pol)
            # sources of group
            ins=np.concatenate([contains_margin(g.polygon,*[np.asarray(v) for v in im.det_to_world(im.catalog['x'],im.catalog['y'])]) for im in ims])
            tot+=1
            if not ins.all():
                # distance-to-boundary check is expensive; just count
                bad+=1; print('GROUP not containing', crval, pol, n, int((~ins).sum()),'of',len(ins))
        for im in ims:
            ra,dec=im.det_to_world(im.catalog['x'],im.catalog['y'])
            ins=contains_margin(im.polygon,np.asarray(ra),np.asarray(dec))
            tot+=1
            if not ins.all(): bad+=1; print('IMG not containing', crval, n, int((~ins).sum()),'of',len(ins), 'trial',trial)
        rc=RefCatalog(Table([ra,dec],names=('RA','DEC')))
        ins=contains_margin(rc.polygon,np.asarray(ra),np.asarray(dec)); tot+=1
        if not ins.all(): bad+=1; print('REF not containing', crval, n, int((~ins).sum()),'of',len(ins),'trial',trial)
        # symmetric areas
        if len(ims)>1:
            a=ims[0].intersection_area(ims[1]); b=ims[1].intersection_area(ims[0])
            if abs(a-b)>1e-4*max(a,b,1e-30) or a>min(abs(ims[0].polygon.area()),abs(ims[1].polygon.area()))*(1+1e-4): print('AREA asym/too big',a,b,ims[0].polygon.area(),ims[1].polygon.area())
print('bad',bad,'of',tot)
