import numpy as np, warnings, sys, logging
warnings.filterwarnings('ignore'); logging.disable(logging.CRITICAL)
from astropy.table import Table
from tweakwcs import XYXYMatch
rng=np.random.default_rng(2)
def field(n, size, minsep):
    pts=[]
    while len(pts)<n:
        p=rng.uniform(0,size,2)
        if all(np.hypot(*(p-q))>minsep for q in pts): pts.append(p)
    return np.array(pts)
bad=0; tot=0
for trial in range(60):
    pscale=rng.choice([0.01,0.05,0.3,1.0,2.5,10.0])
    sr=rng.choice([3.0,5.0,2.5,7.3])*pscale if rng.random()<0.7 else rng.choice([1.0,3.0])
    tol=1.0*pscale; sep=0.5*pscale
    n=int(rng.integers(15,60))
    minsep=4*(tol+sep)+2*sr
    base=field(n, size=minsep*np.sqrt(n)*4, minsep=minsep)
    ncommon=int(n*rng.uniform(0.4,1.0))
    perm=rng.permutation(n)
    common=perm[:ncommon]; rest=perm[ncommon:]
    nrefonly=len(rest)//2
    ref_ids=np.concatenate([common,rest[:nrefonly]]); im_ids=np.concatenate([common,rest[nrefonly:]])
    ref_ids=rng.permutation(ref_ids); im_ids=rng.permutation(im_ids)
    shift=rng.uniform(-0.6,0.6,2)*sr
    refxy=base[ref_ids]; imxy=base[im_ids]+shift+rng.normal(0,0.02*pscale,(len(im_ids),2))
    ref=Table([refxy[:,0],refxy[:,1]],names=('TPx','TPy')); im=Table([imxy[:,0],imxy[:,1]],names=('TPx','TPy'))
    for use2d in [True, False]:
        m=XYXYMatch(searchrad=sr,separation=sep,tolerance=tol,use2dhist=use2d,xoffset=shift[0],yoffset=shift[1])
        try:
            ri,ii=m(ref,im,tp_pscale=pscale,tp_units='u')
        except Exception as e:
            print('EXC',type(e).__name__,e); bad+=1; continue
        got=set(zip(ref_ids[ri].tolist(), im_ids[ii].tolist()))
        want=set((c,c) for c in common.tolist())
        tot+=1
        if got!=want:
            bad+=1
            print(f'MISMATCH use2d={use2d} pscale={pscale} sr={sr:.3g} r={sr/pscale:.3g} n={n} common={ncommon} got={len(got)} false={len(got-want)} missing={len(want-got)} shift/ps={shift/pscale}')
print('bad',bad,'of',tot)
