from scen import *
from tweakwcs.wcsimage import RefCatalog, convex_hull, WCSImageCatalog, WCSGroupCatalog
ARC=np.deg2rad(1/3600.)
for pts in [[(82.0,12.0)], [(82.0,12.0),(82.01,12.0)], [(82.0,12.0),(82.0,12.01)], [(82.0,12.0),(82.007,12.007)], [(82.0,12.0),(82.01,12.0),(82.02,12.0)], [(0.001,89.0),(359.999,89.0)]]:
    t=Table([[p[0] for p in pts],[p[1] for p in pts]],names=('RA','DEC'))
    for tol in [1.0, 10.0]:
        r=RefCatalog(t, footprint_tol=tol)
        area=r.poly_area
        inside=[bool(r.polygon.contains_radec(p[0],p[1])) for p in pts]
        verts=list(r.polygon.to_radec())[0]
        ext_ra=(np.max(verts[0])-np.min(verts[0]))*3600; ext_dec=(np.max(verts[1])-np.min(verts[1]))*3600
        print(len(pts),'tol',tol,'area(arcsec^2)=%.4g'%(area/ARC**2),'inside',inside,'extent arcsec ra %.4g dec %.4g'%(ext_ra,ext_dec))
