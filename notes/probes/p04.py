from scen import *
from tweakwcs.tests.helper_correctors import make_mock_jwst_wcs
from tweakwcs.correctors import JWSTWCSCorrector
import copy
rng=np.random.default_rng(0)
def rotm(a,s=1.0):
    a=np.deg2rad(a); return s*np.array([[np.cos(a),np.sin(a)],[-np.sin(a),np.cos(a)]])
x=rng.uniform(0,1023,30); y=rng.uniform(0,1023,30)
def sky(c): return np.array(c.det_to_world(x,y))
for kind in ['fits','gwcs']:
    if kind=='fits':
        w0=mkwcs(scale=1.4e-5); c=FITSWCSCorrector(w0); ow=lambda: np.array(w0.all_pix2world(x,y,0))
    else:
        w0=make_mock_jwst_wcs(v2ref=123.0, v3ref=500.0, roll=115.0, crpix=[512.0,512.0], cd=[[2.4e-7,0],[0,2.4e-7]], crval=[82.0,12.0])
        c=JWSTWCSCorrector(w0, {'v2_ref':123.0,'v3_ref':500.0,'roll_ref':115.0}); ow=lambda: np.array(w0(x,y))
    o0=ow(); ps0=c.tanp_center_pixel_scale
    hist=[]
    cur=c
    for k in range(5):
        M=rotm(rng.uniform(-1,1), rng.uniform(0.98,1.02)); s=rng.uniform(-5,5,2)*ps0
        op=rng.choice(['live','copy','rewrap'])
        if op=='copy':
            c2=cur.copy(); before=sky(cur).copy(); c2.set_correction(M,s)
            assert np.array_equal(before, sky(cur)), 'copy not independent'
            cur=c2
        elif op=='rewrap':
            cur = FITSWCSCorrector(cur.wcs) if kind=='fits' else JWSTWCSCorrector(cur.wcs, cur.ref_angles)
            cur.set_correction(M,s)
        else:
            cur.set_correction(M,s)
        assert np.array_equal(o0, ow()), 'original wcs modified'
        if kind=='gwcs': assert cur.wcs.available_frames.count('v2v3corr')==1
        # C20
        h=0.5; px,py=300.,700.
        a=np.array(cur.det_to_tanp(px+h,py))-np.array(cur.det_to_tanp(px-h,py)); b=np.array(cur.det_to_tanp(px,py+h))-np.array(cur.det_to_tanp(px,py-h))
        J=np.array([a,b]).T/(2*h)
        ps=cur.tanp_pixel_scale(px,py)
        assert abs(ps-np.sqrt(abs(np.linalg.det(J))))<1e-6*ps, ('pscale', ps, np.sqrt(abs(np.linalg.det(J))))
        # C03 triangle + round trips
        t=cur.det_to_tanp(x,y); assert np.abs(np.array(cur.tanp_to_world(*t))-sky(cur)).max()*3600<1e-7
        assert np.abs(np.array(cur.world_to_det(*cur.det_to_world(x,y)))-[x,y]).max()<1e-5
        assert np.abs(np.array(cur.tanp_to_det(*t))-[x,y]).max()<1e-5
        assert np.abs(np.array(cur.world_to_tanp(*cur.tanp_to_world(*t)))-np.array(t)).max()<1e-7*max(1,ps0)
    print(kind,'ok; pscale0 %.6g final %.6g'%(ps0,cur.tanp_center_pixel_scale))
