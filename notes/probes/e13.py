import numpy as np, warnings, sys, logging
warnings.filterwarnings('ignore'); logging.disable(logging.CRITICAL)
from tweakwcs import matchutils as mu
rng=np.random.default_rng(7)
n=40
for pscale, sr in [(0.05,0.15),(1.0,3.0),(0.5,1.5),(0.1,0.3)]:
    base=rng.uniform(0,1,(n,2))*4000*pscale
    for sh in [(1.2,-0.4),(0.2,0.3),(-1.0,2.0)]:
        shift=np.array(sh)*pscale
        im=base+shift
        zp=mu._xy_2dhist(im/pscale, base/pscale, r=sr/pscale)
        est=mu._estimate_2dhist_shift(im, base, searchrad=sr, pscale=pscale)
        print(pscale, sr, sr/pscale, 'true/ps',sh,'est/ps',np.array(est)/pscale, 'hist shape',zp.shape,'nonzero at (y,x)',np.argwhere(zp>0).tolist(), zp.sum())
