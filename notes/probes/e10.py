import numpy as np, warnings, sys, logging
warnings.filterwarnings('ignore'); logging.disable(logging.CRITICAL)
from tweakwcs import linearfit as lf
rng=np.random.default_rng(0)
def wrapdiff(a,b):
    d=(a-b+180)%360-180
    return abs(d)
worst={}
def upd(k,v,info):
    if v>worst.get(k,(0,None))[0]: worst[k]=(v,info)
special=[0,45,90,135,180,-45,-90,-135,-180,30,60,120,150,-30,-60,-120,-150, 179.999, -179.999]
for it in range(20000):
    if it%2==0:
        rx=rng.choice(special); ry=rng.choice(special) if rng.random()<0.5 else rx
    else:
        rx=rng.uniform(-180,180); ry=rng.uniform(-180,180) if rng.random()<0.6 else rx
    if rng.random()<0.3: ry = rx+180 if rx<=0 else rx-180  # reflection
    sx=rng.uniform(0.5,2); sy=rng.uniform(0.5,2) if rng.random()<0.5 else sx
    M=lf.build_fit_matrix((rx,ry),(sx,sy))
    det=np.linalg.det(M)
    if abs(det)<1e-3: continue
    p=np.array([M[0,0],M[0,1],1.0],dtype=np.longdouble); q=np.array([M[1,0],M[1,1],2.0],dtype=np.longdouble)
    f=lf._build_fit(p,q,'general')
    M2=lf.build_fit_matrix(f['rot'],f['scale'])
    upd('recon',np.abs(M2-M).max(),(rx,ry,sx,sy))
    upd('skew',wrapdiff(f['skew'], f['rot'][1]-f['rot'][0]),(rx,ry,f['rot'],f['skew']))
    upd('skewrange', max(0,abs(f['skew'])-180),(rx,ry))
    upd('rotrange', max(0,max(abs(f['rot'][0]),abs(f['rot'][1]))-180),(rx,ry))
    upd('meanrot', abs(f['<rot>']-0.5*(f['rot'][0]+f['rot'][1])),(rx,ry))
    upd('scale', abs(f['<scale>']-np.sqrt(abs(det))),(rx,ry))
    if bool(f['proper'])!=(det>0): upd('proper',1,(rx,ry,det))
    # for rscale geometry w/ similarity matrices
    if sx==sy and (rx==ry or abs(abs(rx-ry)-180)<1e-9):
        g=lf._build_fit(p,q,'rscale')
        M3=lf.build_fit_matrix(g['rot'],g['scale'])
        upd('recon_rscale',np.abs(M3-M).max(),(rx,ry,sx,sy,g['rot'],g['scale']))
        upd('skew_rscale',wrapdiff(g['skew'], g['rot'][1]-g['rot'][0]),(rx,ry,g['rot'],g['skew']))
for k,v in worst.items(): print(k,v)
