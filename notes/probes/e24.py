from scen import *
from tweakwcs.tests.helper_correctors import make_mock_jwst_wcs
from tweakwcs.correctors import JWSTWCSCorrector
rng=np.random.default_rng(3)
def rotm(a,s=1.0):
    a=np.deg2rad(a); return s*np.array([[np.cos(a),np.sin(a)],[-np.sin(a),np.cos(a)]])
def sep(ra1,de1,ra2,de2):
    dra=(ra1-ra2+180)%360-180
    return np.hypot(dra*np.cos(np.deg2rad(de1)), de1-de2)*3600
def mkg(v2,v3,roll,crval,scale=8.7e-8):  # mock scale is in radian-like units: 8.7e-8*206265*... 
    w=make_mock_jwst_wcs(v2ref=v2, v3ref=v3, roll=roll, crpix=[512.0,512.0], cd=[[scale,0],[0,scale]], crval=list(crval))
    return JWSTWCSCorrector(w, {'v2_ref':v2,'v3_ref':v3,'roll_ref':roll})
def members(kind):
    if kind=='fits':
        return [FITSWCSCorrector(mkwcs(crval=(82.0+0.01*k,12.0+0.004*k), rot=20*k, scale=1.4e-5*(1+0.1*k))) for k in range(3)]
    return [mkg(120.0+200*k, -500.0+30*k, 10.0*k, (82.0,12.0)) for k in range(3)]
for kind in ['fits','gwcs']:
    ms=members(kind)
    # the group's true error: one sky-level affine defined in plane of a "truth" corrector = member 0
    truth_plane=ms[0].copy()
    unit=1.0 if kind=='fits' else ms[0].tanp_center_pixel_scale
    G=rotm(0.02,1.0002); g=np.array([2.0,-1.0])*unit
    cats=[]; refs=[]
    for m in ms:
        x=rng.uniform(20,1000,40); y=rng.uniform(20,1000,40)
        ra,dec=m.det_to_world(x,y)
        t=np.array(truth_plane.world_to_tanp(ra,dec)); t2=G@t+g[:,None]
        rra,rdec=truth_plane.tanp_to_world(t2[0],t2[1])
        cats.append((x,y)); refs.append((rra,rdec))
    planes={'member0':ms[0].copy(),'member2':ms[2].copy()}
    if kind=='fits': planes['nonmember_rot']=FITSWCSCorrector(mkwcs(crval=(82.02,12.01),rot=77,scale=3e-5))
    results={}
    for pname,plane in planes.items():
        cs=[m.copy() for m in ms]
        for k,c in enumerate(cs):
            c.meta['catalog']=Table([cats[k][0],cats[k][1]],names=('x','y')); c.meta['group_id']=1; c.meta['name']=f'm{k}'
        allra=np.concatenate([r[0] for r in refs]); alldec=np.concatenate([r[1] for r in refs])
        rc=Table([allra,alldec],names=('RA','DEC'))
        align_wcs(cs, refcat=rc, ref_tpwcs=plane, match=None, fitgeom='rscale', nclip=0)
        errs=[sep(*c.det_to_world(*cats[k]),*refs[k]).max() for k,c in enumerate(cs)]
        results[pname]=[np.array(c.det_to_world(*cats[k])) for k,c in enumerate(cs)]
        print(kind,pname,[c.meta['fit_info']['status'] for c in cs],'max err arcsec per member',['%.3g'%e for e in errs],'rmse',cs[0].meta['fit_info']['rmse'])
    names=list(results)
    for a in names[1:]:
        d=max(sep(results[names[0]][k][0],results[names[0]][k][1],results[a][k][0],results[a][k][1]).max() for k in range(3))
        print(kind,'plane independence',names[0],'vs',a,'%.3g arcsec'%d)
