import numpy as np, warnings, logging
warnings.filterwarnings('ignore'); logging.disable(logging.CRITICAL)
from tweakwcs import linearfit as lf
def rotm(a,s=1.0):
    a=np.deg2rad(a); return s*np.array([[np.cos(a),np.sin(a)],[-np.sin(a),np.cos(a)]])
for uv in [np.array([[0,0],[1,0],[3,0]],float), np.array([[0,0],[0,1],[0,3]],float), np.array([[0,5],[1,5],[3,5],[7,5]],float), np.array([[2,2],[4,4]],float)*1.0, np.array([[0,0],[1,0]],float)]:
    n=len(uv)
    for w in [None, np.arange(1,n+1,dtype=float)]:
        for g,sc in [('rscale',1.25),('rshift',1.0)]:
            R=rotm(30,sc); xy=uv@R.T+[3,4]
            for direct in [False,True]:
                if direct:
                    f=(lf.fit_rscale if g=='rscale' else lf.fit_rshift)(xy.astype(np.longdouble),uv.astype(np.longdouble),w,None)
                    F=f['matrix']; s=f['shift']
                else:
                    f=lf.iter_linear_fit(xy,uv,w,None,fitgeom=g,nclip=0)
                    F=f['matrix']; c=f['center']; s=f['shift']+c-F@c
                pred=uv@F.T+s
                print(uv.tolist(),'w' if w is not None else '-',g,'direct' if direct else 'iter','max resid %.3g'%np.abs(pred-xy).max(),'rmse %.3g'%f['rmse'])
