from scen import *
import logging
logging.disable(logging.NOTSET)
rng=np.random.default_rng(5)
ra,dec=sky_sources(rng, n=300)
def mk(k, gid=None):
    wt=mkwcs(crval=(82.0+0.002*k,12.0), rot=10*k)
    x,y,idx=observe(wt,ra,dec)
    meta={'catalog':Table([x,y],names=('x','y')),'name':f'im{k}'}
    if gid is not None: meta['group_id']=gid
    return FITSWCSCorrector(wt, meta=meta)
class H(logging.Handler):
    def __init__(s): super().__init__(); s.rec=[]
    def emit(s, r):
        m=r.getMessage()
        if m.startswith('Aligning image catalog') or m.startswith('Selected image'): s.rec.append(m)
h=H(); lg=logging.getLogger('tweakwcs.imalign'); lg.addHandler(h)
for l in ['tweakwcs.wcsimage','tweakwcs.matchutils','tweakwcs.linearfit']: logging.getLogger(l).setLevel(logging.CRITICAL)
cors=[mk(0),mk(1,gid=2),mk(2),mk(3,gid=2),mk(4)]
align_wcs(cors, match=XYXYMatch(searchrad=5,separation=0.1,tolerance=1.0), enforce_user_order=True)
print(h.rec)
