import numpy as np, warnings, logging
warnings.filterwarnings('ignore'); logging.disable(logging.CRITICAL)
from tweakwcs import matchutils as mu
rng=np.random.default_rng(3)
worst=0; bad=0; tot=0; worst_sparse=0
for it in range(400):
    pscale=float(rng.choice([0.05,0.3,1.0,2.5])); r=float(rng.choice([3.0,5.0,2.5,7.3,4.0000000001])); sr=r*pscale
    dense=rng.random()<0.6
    n=int(rng.integers(150,400)) if dense else 40
    size=(60 if dense else 4000)*pscale
    ref=rng.uniform(0,size,(n,2))
    shift=rng.uniform(-1,1,2)*sr*0.9
    keep=rng.random(n)<0.8
    im=ref[keep]+shift+rng.normal(0,0.05*pscale,(keep.sum(),2))
    im=np.vstack([im, rng.uniform(0,size,(int(0.2*n),2))])
    est=np.array(mu._estimate_2dhist_shift(im,ref,searchrad=sr,pscale=pscale))
    err=np.abs(est-shift)/pscale
    tot+=1
    if dense: worst=max(worst,err.max())
    else: worst_sparse=max(worst_sparse,err.max())
    lim=2.5 if dense else 0.5+0.2
    if err.max()>lim: bad+=1; print('BAD dense' if dense else 'BAD sparse',pscale,r,n,'err bins',err,'true bins',shift/pscale)
print('bad',bad,'of',tot,'worst dense',worst,'worst sparse',worst_sparse)
