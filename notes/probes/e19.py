from scen import *
from astropy.io import fits
from tweakwcs.tests.helper_correctors import make_mock_jwst_wcs
from tweakwcs.correctors import JWSTWCSCorrector
def mkg():
    w=make_mock_jwst_wcs(v2ref=123.0, v3ref=500.0, roll=115.0, crpix=[512.0,512.0], cd=[[1.4e-5,0],[0,1.4e-5]], crval=[82.0,12.0])
    return JWSTWCSCorrector(w, {'v2_ref':123.0,'v3_ref':500.0,'roll_ref':115.0})
M=np.array([[1.001,0.002],[-0.0015,0.9995]]); s=[2.0,-3.0]
for kind,c in [('fits',FITSWCSCorrector(mkwcs())),('gwcs',mkg())]:
    c.set_correction(M,s)
    for shp in [(),(1,),(5,),(2,3),(2,1,3),(0,)]:
        x=np.full(shp,100.0)+ (np.arange(int(np.prod(shp))).reshape(shp) if shp!=() else 0); y=x*0.5+3
        if shp==(): x=float(x); y=float(y)
        res={}
        for name,f,args in [('d2w',c.det_to_world,(x,y)),('d2t',c.det_to_tanp,(x,y))]:
            try:
                o=f(*args); res[name]=(np.shape(o[0]),np.shape(o[1]))
            except Exception as e: res[name]='EXC '+type(e).__name__+str(e)[:50]
        try:
            w=c.det_to_world(x,y); t=c.det_to_tanp(x,y)
            for name,f,args in [('w2d',c.world_to_det,w),('w2t',c.world_to_tanp,w),('t2d',c.tanp_to_det,t),('t2w',c.tanp_to_world,t)]:
                try:
                    o=f(*args); res[name]=(np.shape(o[0]),np.shape(o[1]))
                except Exception as e: res[name]='EXC '+type(e).__name__+str(e)[:50]
        except Exception as e: pass
        bad={k:v for k,v in res.items() if v!=(shp,shp)}
        print(kind,shp,'bad:',bad)
    # pixel scale vs FD jacobian
    for (px,py) in [(100.,200.),(511.,511.),(900.,50.)]:
        h=0.5
        a=np.array(c.det_to_tanp(px+h,py))-np.array(c.det_to_tanp(px-h,py)); b=np.array(c.det_to_tanp(px,py+h))-np.array(c.det_to_tanp(px,py-h))
        J=np.array([a,b]).T/(2*h)
        print(kind,'pscale',c.tanp_pixel_scale(px,py), np.sqrt(abs(np.linalg.det(J))))
    print(kind,'center pscale',c.tanp_center_pixel_scale)
# C18: CD vs PC twins + header roundtrip
wcd=mkwcs(); wpc=mkwcs(pc=True)
a=FITSWCSCorrector(wcd); b=FITSWCSCorrector(wpc)
a.set_correction(M,s); b.set_correction(M,s)
x=np.linspace(0,1000,7); y=np.linspace(1000,0,7)
print('twins diff arcsec', np.abs(np.array(a.det_to_world(x,y))-np.array(b.det_to_world(x,y))).max()*3600, 'has_cd',a.wcs.wcs.has_cd(), b.wcs.wcs.has_cd(), 'has_pc', b.wcs.wcs.has_pc())
from astropy import wcs as fw
for c in (a,b):
    h=c.wcs.to_header(relax=True); w2=fw.WCS(h)
    print('header rt diff arcsec', np.abs(np.array(w2.all_pix2world(x,y,0))-np.array(c.det_to_world(x,y))).max()*3600, [k for k in h if k.startswith(('CD','PC','CDELT'))])
