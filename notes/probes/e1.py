import numpy as np, warnings
warnings.filterwarnings('ignore')
from tweakwcs import linearfit as lf, linalg
print('USE_NUMPY', linalg._USE_NUMPY_LINALG_INV, linalg._MAX_LINALG_TYPE, np.finfo(np.longdouble).eps)
# rot shortcut: rotation by 45deg of a lattice
uv = np.array([[0,0],[1,0],[0,1],[1,1],[2,1]],dtype=float)
for ang in [45, -45, 135, 90, 180, 30, 225]:
    a = np.deg2rad(ang)
    R = np.array([[np.cos(a), np.sin(a)],[-np.sin(a), np.cos(a)]])
    xy = uv @ R.T + [3, 4]
    for g in ['rscale','rshift']:
        f = lf.iter_linear_fit(xy, uv, fitgeom=g, nclip=0)
        print(ang, g, np.round(f['matrix'],6).tolist(), f['rmse'], f['proper_rot'])
# exact 45 deg: integer-coordinates: uv -> xy = (u+v, -u+v) (rot 45 scaled sqrt2)
xy = np.stack([uv[:,0]+uv[:,1], -uv[:,0]+uv[:,1]],1)
f = lf.iter_linear_fit(xy, uv, fitgeom='rscale', nclip=0)
print('exact45 scaled', f['matrix'].tolist(), f['rmse'])
