import numpy as np, warnings, sys, logging
warnings.filterwarnings('ignore'); logging.disable(logging.CRITICAL)
from astropy.table import Table
from tweakwcs import XYXYMatch, matchutils as mu
from stsci.stimage import xyxymatch
rng=np.random.default_rng(7)
def field(n, size, minsep):
    pts=[]
    while len(pts)<n:
        p=rng.uniform(0,size,2)
        if all(np.hypot(*(p-q))>minsep for q in pts): pts.append(p)
    return np.array(pts)
pscale=0.05; sr=0.15; tol=pscale; sep=0.5*pscale
n=30
base=field(n, 20*np.sqrt(n)*pscale*4, 20*pscale)
for shift in [(0,0),(0.06,-0.02),(0.05,0.0),(0.02,0.02)]:
    shift=np.array(shift)
    im=base+shift
    est=mu._estimate_2dhist_shift(im, base, searchrad=sr, pscale=pscale)
    for org in [est, tuple(shift), (0.0,0.0)]:
        m=xyxymatch(im, base, origin=org, tolerance=tol, separation=sep)
        print('shift',shift,'est',est,'origin',org,'nmatch',len(m), 'correct', int(np.sum(m['ref_idx']==m['input_idx'])))
