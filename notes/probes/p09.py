exec(open('p13.py').read().split("gx=np.linspace")[0])
import random
R=random.Random(11)
viol=0; tot=0
for it in range(60):
    ng=R.randint(1,3)   # images in the group
    wmode=R.choice(['im','ref','both'])
    fitgeom=R.choice(['shift','rscale','general'])
    def build(corrupt, drop):
        cors=[]
        for k in range(ng):
            c=mk(k,'good',7)
            cat=c.meta['catalog']; n=len(cat)
            r2=np.random.default_rng(1000*it+k)
            w=r2.uniform(0.5,2.0,n); z=r2.choice(n,min(6,n//3),replace=False)
            x=np.asarray(cat['x']).copy(); y=np.asarray(cat['y']).copy()
            if wmode in('im','both'):
                w[z]=0.0
                if corrupt: x[z]+=r2.uniform(-2,2,len(z)); y[z]+=r2.uniform(-2,2,len(z))   # still within oracle radius 3
                if drop:
                    keep=np.ones(n,bool); keep[z]=False; x=x[keep]; y=y[keep]; w=w[keep]
            t=Table([x,y],names=('x','y'))
            if wmode in('im','both'): t['weight']=w
            c.meta['catalog']=t
            cors.append(c)
        rc=Table([ra,dec],names=('RA','DEC'))
        if wmode in('ref','both'):
            rw=np.random.default_rng(5+it).uniform(0.5,2,NSRC); zr=np.random.default_rng(6+it).choice(NSRC,60,replace=False)
            rw[zr]=0.0
            rra=ra.copy(); rdec=dec.copy()
            if corrupt: rra[zr]+=np.random.default_rng(7+it).uniform(-2e-5,2e-5,60)
            rc=Table([rra,rdec,rw],names=('RA','DEC','weight'))
            if drop:
                keep=np.ones(NSRC,bool); keep[zr]=False; rc=rc[keep]
        align_wcs(cors, refcat=rc, fitgeom=fitgeom, nclip=0, match=OracleMatch())
        return cors[0].meta['fit_info']
    fa=build(False,False); fb=build(True,False); fc=build(False,True)
    tot+=1
    if not (fa['status']==fb['status']==fc['status']=='SUCCESS'): print('status',fa['status'],fb['status'],fc['status']); viol+=1; continue
    d1=max(np.abs(fa['matrix']-fb['matrix']).max(), np.abs(fa['shift']-fb['shift']).max(), abs(fa['rmse']-fb['rmse']))
    d2=max(np.abs(fa['matrix']-fc['matrix']).max(), np.abs(fa['shift']-fc['shift']).max(), abs(fa['rmse']-fc['rmse']))
    if d1>1e-9 or d2>1e-9 or fa['fitmask'].sum()!=fc['fitmask'].sum():
        viol+=1; print('VIOL',wmode,fitgeom,ng,'corrupt diff',d1,'drop diff',d2, fa['fitmask'].sum(), fb['fitmask'].sum(), fc['fitmask'].sum())
print('violations',viol,'of',tot)
