import numpy as np, warnings, itertools
warnings.filterwarnings('ignore')
from tweakwcs import convex_hull
rng=np.random.default_rng(0)
def cross(o,a,b): return (a[0]-o[0])*(b[1]-o[1])-(a[1]-o[1])*(b[0]-o[0])
def ref_hull(pts):
    P=sorted(set(pts))
    if len(P)<=1: return P
    # brute force: extreme points = points not strictly inside/on-segment of others: use gift wrapping with exact ints
    def is_vertex(p):
        # p is a vertex iff exists a line through p with all other points strictly on one side or ... use: p not in conv(others)
        others=[q for q in P if q!=p]
        # p in conv(others) iff for some triangle/segment contains p. brute force
        for a,b in itertools.combinations(others,2):
            if cross(a,b,p)==0 and min(a[0],b[0])<=p[0]<=max(a[0],b[0]) and min(a[1],b[1])<=p[1]<=max(a[1],b[1]): return False
        for a,b,c in itertools.combinations(others,3):
            d1=cross(a,b,p); d2=cross(b,c,p); d3=cross(c,a,p)
            if (d1>=0 and d2>=0 and d3>=0) or (d1<=0 and d2<=0 and d3<=0):
                if cross(a,b,c)!=0: return False
        return True
    V=[p for p in P if is_vertex(p)]
    if len(V)<=2: return V
    # order CCW starting at lexicographic min
    c=(sum(v[0] for v in V)/len(V), sum(v[1] for v in V)/len(V))
    V.sort(key=lambda v: np.arctan2(v[1]-c[1], v[0]-c[0]))
    i=V.index(min(V)); return V[i:]+V[:i]
bad=0; tot=0
for it in range(3000):
    n=int(rng.integers(0,12)); kind=rng.integers(0,4)
    if kind==0: pts=[(int(a),int(b)) for a,b in rng.integers(-5,6,(n,2))]
    elif kind==1: pts=[(int(a),int(2*a+1)) for a in rng.integers(-5,6,n)]  # collinear
    elif kind==2: pts=[(int(a),int(b)) for a,b in rng.integers(0,3,(n,2))]  # tiny lattice w/ dups
    else: pts=[(int(a),int(b)) for a,b in rng.integers(-100,100,(n,2))]
    x=[float(p[0]) for p in pts]; y=[float(p[1]) for p in pts]
    as_arr=bool(rng.integers(0,2))
    hx,hy=convex_hull(np.array(x),np.array(y)) if as_arr else convex_hull(x,y)
    got=list(zip([int(v) for v in hx],[int(v) for v in hy]))
    want=ref_hull(pts)
    tot+=1
    if len(want)>=2: want=want+[want[0]]
    if len(set(pts))==2:  # code returns [p0,p1,p0]
        pass
    if got!=want:
        bad+=1
        if bad<10: print('DIFF',pts,'got',got,'want',want)
print('bad',bad,'of',tot)
