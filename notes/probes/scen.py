import numpy as np, warnings, sys, logging, copy
warnings.filterwarnings('ignore'); logging.disable(logging.CRITICAL)
from astropy import wcs as fitswcs
from astropy.table import Table
from tweakwcs import FITSWCSCorrector, align_wcs, fit_wcs, XYXYMatch
from tweakwcs.linearfit import build_fit_matrix

def mkwcs(crval=(82.0,12.0), rot=30.0, scale=1e-5, crpix=(512.,512.), shape=(1024,1024), pc=False):
    w = fitswcs.WCS(naxis=2)
    if pc:
        w.wcs.pc = build_fit_matrix(rot, 1.0); w.wcs.cdelt=[scale,scale]
    else:
        w.wcs.cd = build_fit_matrix(rot, scale)
    w.wcs.crval = list(crval); w.wcs.crpix=list(crpix)
    w.wcs.ctype=['RA---TAN','DEC--TAN']
    w.pixel_shape=list(shape)
    w.wcs.set()
    return w

def sky_sources(rng, center=(82.0,12.0), half=0.012, n=400):
    ra = center[0] + rng.uniform(-half, half, n)/np.cos(np.deg2rad(center[1]))
    dec = center[1] + rng.uniform(-half, half, n)
    return ra, dec

def observe(w_true, ra, dec, shape=(1024,1024)):
    x,y = w_true.all_world2pix(ra,dec,0)
    m = (x>5)&(x<shape[0]-5)&(y>5)&(y<shape[1]-5)
    return x[m], y[m], np.nonzero(m)[0]
