from scen import *
rng=np.random.default_rng(5)
ra,dec=sky_sources(rng, n=600)
offs=[(0,0),(0.004,0.001),(0.008,-0.002),(0.003,0.006)]
def build(junk=None, empty=None):
    cors=[]; truth=[]
    for k,(dra,dde) in enumerate(offs):
        wt=mkwcs(crval=(82.0+dra,12.0+dde), rot=10*k)
        x,y,idx=observe(wt,ra,dec)
        wg=mkwcs(crval=(82.0+dra+2e-5*(k>0),12.0+dde-1.5e-5*(k>0)), rot=10*k)  # erroneous
        if junk==k:
            x=rng.uniform(10,1000,len(x)); y=rng.uniform(10,1000,len(y))
        if empty==k:
            x=x[:0]; y=y[:0]; idx=idx[:0]
        cat=Table([x,y],names=('x','y'))
        cors.append(FITSWCSCorrector(wg, meta={'catalog':cat,'name':f'im{k}'}))
        truth.append(idx)
    return cors, truth
for junk in [None,1,2,3]:
  for enforce in [True, False]:
    cors,truth=build(junk=junk)
    before=[np.array(c.det_to_world(500.,500.)) for c in cors]
    rc=align_wcs(cors, expand_refcat=True, enforce_user_order=enforce, fitgeom='rscale', minobj=12, match=XYXYMatch(searchrad=15,separation=0.1,tolerance=1.0))
    st=[c.meta['fit_info']['status'][:12] for c in cors]
    moved=[not np.allclose(b, np.array(c.det_to_world(500.,500.)),atol=1e-13,rtol=0) for b,c in zip(before,cors)]
    names={str(n):int((rc['cat_name']==n).sum()) for n in sorted(set(rc['cat_name']))}
    print('junk',junk,'enforce',enforce, st, 'moved',moved,'refcat len',len(rc), names, 'ids ok', list(rc['id'])==list(range(1,len(rc)+1)))
