from scen import *
from tweakwcs.tests.helper_correctors import make_mock_jwst_wcs
from tweakwcs.correctors import JWSTWCSCorrector
rng=np.random.default_rng(1)
def rotm(a,s=1.0):
    a=np.deg2rad(a); return s*np.array([[np.cos(a),np.sin(a)],[-np.sin(a),np.cos(a)]])
def sep_arcsec(ra1,de1,ra2,de2):
    dra=(ra1-ra2+180)%360-180
    return np.hypot(dra*np.cos(np.deg2rad(de1)), de1-de2)*3600
def mkg(v2=123.0,v3=500.0,roll=115.0,crval=(82.0,12.0),scale=1.4e-5):
    w=make_mock_jwst_wcs(v2ref=v2, v3ref=v3, roll=roll, crpix=[512.0,512.0], cd=[[scale,0],[0,scale]], crval=list(crval))
    return JWSTWCSCorrector(w, {'v2_ref':v2,'v3_ref':v3,'roll_ref':roll})
def run(kind, fitgeom, npass, M, s, weights=False):
    c = FITSWCSCorrector(mkwcs(scale=1.4e-5)) if kind=='fits' else mkg()
    # pre-history
    for _ in range(npass):
        c.set_correction(rotm(0.2,1.001),[1.5,-0.7])
    x=rng.uniform(20,1000,60); y=rng.uniform(20,1000,60)
    # reference positions = current tangent positions mapped by affine, to sky via current corrector
    tx,ty=c.det_to_tanp(x,y)
    t=M@np.array([tx,ty])+np.array(s)[:,None]
    rra,rdec=c.tanp_to_world(t[0],t[1])
    imcat=Table([x,y],names=('x','y')); refcat=Table([rra,rdec],names=('RA','DEC'))
    if weights: imcat['weight']=rng.uniform(0.5,2,60); refcat['weight']=rng.uniform(0.5,2,60)
    out=fit_wcs(refcat,imcat,c.copy(),fitgeom=fitgeom,nclip=0)
    fi=out.meta['fit_info']
    ra,dec=out.det_to_world(x,y)
    d=sep_arcsec(ra,dec,rra,rdec)
    dfit=sep_arcsec(np.asarray(fi['fit_RA']),np.asarray(fi['fit_DEC']),rra,rdec)
    ps=c.tanp_center_pixel_scale
    return fi['status'], d.max(), fi['rmse'], dfit.max(), np.abs(fi['matrix']-M).max(), np.abs(fi['shift']-s).max(), ps
for kind in ['fits','gwcs']:
    unit = 1.0 if kind=='fits' else 0.05  # tangent units: px vs arcsec
    for npass in [0,1,2]:
        for fitgeom,M in [('shift',np.eye(2)),('rscale',rotm(0.1,1.0003)),('general',np.array([[1.0004,0.0006],[-0.0003,0.9997]]))]:
            s=[3.0*unit,-2.0*unit]
            r=run(kind,fitgeom,npass,M,s, weights=(npass==1))
            print(kind,'hist',npass,fitgeom,'status',r[0],'max sky err %.3g arcsec rmse %.3g fit_RA err %.3g  dM %.2g ds %.2g'%(r[1],r[2],r[3],r[4],r[5]))
