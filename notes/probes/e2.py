import numpy as np, warnings, sys
warnings.filterwarnings('ignore')
pass
from tweakwcs.tests.helper_correctors import make_mock_jwst_wcs
from tweakwcs.correctors import JWSTWCSCorrector, FITSWCSCorrector
np.set_printoptions(precision=12, linewidth=200)
w = make_mock_jwst_wcs(v2ref=123.0, v3ref=500.0, roll=115.0, crpix=[512.0,512.0], cd=[[1e-5,0],[0,1e-5]], crval=[82.0,12.0])
wi = {'v2_ref':123.0,'v3_ref':500.0,'roll_ref':115.0}
c = JWSTWCSCorrector(w, wi)
x = np.array([10.,500.,900.,30.]); y=np.array([20.,700.,1500.,1900.])
def check(c, M, s):
    old = c.copy()
    c.set_correction(M, s)
    lhs = np.array(old.world_to_tanp(*c.det_to_world(x,y)))
    rhs = np.dot(M, np.array(old.det_to_tanp(x,y))) + np.array(s)[:,None]
    return np.abs(lhs-rhs).max()
M1 = [[1.001*np.cos(0.01), np.sin(0.01)],[-np.sin(0.01), np.cos(0.01)]]; s1=[3.0,-2.0]
M2 = [[1.0, 0.02],[0.0, 0.97]]; s2=[-1.0, 5.0]
print('first corr err (arcsec)', check(c, M1, s1))
print('frames', c.wcs.available_frames)
print('second corr err', check(c, M2, s2))
print('frames', c.wcs.available_frames)
# rewrap
c2 = JWSTWCSCorrector(c.wcs, wi)
print('rewrapped third corr err', check(c2, M1, s1))
print('live third corr err', check(c, M1, s1))
print('live vs rewrapped sky diff', np.abs(np.array(c.det_to_world(x,y))-np.array(c2.det_to_world(x,y))).max())
# triangle: tanp_to_world(det_to_tanp) == det_to_world
a = np.array(c.tanp_to_world(*c.det_to_tanp(x,y))); b=np.array(c.det_to_world(x,y))
print('triangle', np.abs(a-b).max()*3600)
print('roundtrip det', np.abs(np.array(c.tanp_to_det(*c.det_to_tanp(x,y)))-np.array([x,y])).max())
print('pscale', c.tanp_center_pixel_scale, c.tanp_pixel_scale(500,500))
