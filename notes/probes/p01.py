from scen import *
from astropy.wcs import Sip
from tweakwcs.tests.helper_correctors import make_mock_jwst_wcs
from tweakwcs.correctors import JWSTWCSCorrector
import random
R=random.Random(7); rng=np.random.default_rng(7)
def rotm(a,s=1.0,flip=False):
    a=np.deg2rad(a); m=s*np.array([[np.cos(a),np.sin(a)],[-np.sin(a),np.cos(a)]])
    return m@np.diag([1,-1]) if flip else m
def sepas(ra1,de1,ra2,de2):
    dra=(np.asarray(ra1)-ra2+180)%360-180
    return np.hypot(dra*np.cos(np.deg2rad(de1)), np.asarray(de1)-de2)*3600
worst={'fits':0,'gwcs':0}; worst_rmse={'fits':0,'gwcs':0}; bad=0; tot=0
for it in range(300):
    kind=R.choice(['fits','gwcs'])
    crval=R.choice([(82.0,12.0),(0.0003,-33.0),(359.9997,45.0),(200.0,88.0),(10.0,-87.5),(180.0,70.0)])
    if kind=='fits':
        scale=R.choice([1e-5,1.4e-5,7e-5]); w=mkwcs(crval=crval, rot=R.uniform(0,360), scale=scale, pc=R.random()<0.3)
        if R.random()<0.4:
            a=np.zeros((4,4)); b=np.zeros((4,4)); a[2,0]=2e-6; a[1,1]=-1e-6; a[0,2]=3e-6; b[2,0]=-1e-6; b[0,2]=2e-6; b[1,1]=1.5e-6
            w.sip=Sip(a,b,None,None,w.wcs.crpix); w.wcs.ctype=['RA---TAN-SIP','DEC--TAN-SIP']; w.wcs.set()
        c=FITSWCSCorrector(w); unit=1.0
    else:
        v2,v3,roll=R.uniform(-300,300),R.uniform(-600,600),R.uniform(0,360)
        gw=make_mock_jwst_wcs(v2ref=v2, v3ref=v3, roll=roll, crpix=[512.0,512.0], cd=[[2.4e-7,0],[0,2.4e-7]], crval=list(crval))
        c=JWSTWCSCorrector(gw, {'v2_ref':v2,'v3_ref':v3,'roll_ref':roll}); unit=c.tanp_center_pixel_scale
    npass=R.choice([0,0,1,2])
    for _ in range(npass): c.set_correction(rotm(R.uniform(-0.5,0.5),R.uniform(0.999,1.001)),[R.uniform(-3,3)*unit,R.uniform(-3,3)*unit])
    fitgeom=R.choice(['shift','rshift','rscale','general'])
    flip=False
    if fitgeom=='shift': M=np.eye(2)
    elif fitgeom=='rshift': M=rotm(R.uniform(-2,2),1.0)
    elif fitgeom=='rscale': M=rotm(R.uniform(-2,2),R.uniform(0.99,1.01))
    else: M=np.array([[R.uniform(0.99,1.01),R.uniform(-0.01,0.01)],[R.uniform(-0.01,0.01),R.uniform(0.99,1.01)]])
    s=np.array([R.uniform(-20,20),R.uniform(-20,20)])*unit
    n=R.randint(4,40)
    x=rng.uniform(20,1000,n); y=rng.uniform(20,1000,n)
    tx,ty=c.det_to_tanp(x,y); t=M@np.array([tx,ty])+s[:,None]
    rra,rdec=c.tanp_to_world(t[0],t[1])
    imcat=Table([x,y],names=('x','y')); refcat=Table([rra,rdec],names=('RA','DEC'))
    wm=R.choice([0,1,2,3])
    if wm in(1,3): imcat['weight']=rng.uniform(0.5,2,n)
    if wm in(2,3): refcat['weight']=rng.uniform(0.5,2,n)
    tot+=1
    try:
        out=fit_wcs(refcat,imcat,c.copy(),fitgeom=fitgeom,nclip=0)
    except Exception as e:
        bad+=1; print('EXC',type(e).__name__,e,kind,fitgeom); continue
    fi=out.meta['fit_info']
    if fi['status']!='SUCCESS': bad+=1; print('status',fi['status']); continue
    ra,dec=out.det_to_world(x,y)
    d=sepas(ra,dec,rra,rdec).max()
    # residual through corrected WCS measured in original tangent plane of c
    ox,oy=c.world_to_tanp(ra,dec); rx,ry=c.world_to_tanp(rra,rdec)
    res=np.sqrt(np.mean((ox-rx)**2+(oy-ry)**2))
    pix = d/ (3600*scale) if kind=='fits' else d
    worst[kind]=max(worst[kind],pix); worst_rmse[kind]=max(worst_rmse[kind],abs(fi['rmse']-res)/unit)
    lim = 2e-5 if kind=='fits' else 1e-7
    if pix>lim: bad+=1; print('OFF',kind,fitgeom,'hist',npass,'crval',crval,'err',pix,'rmse',fi['rmse'],'measured',res)
print('bad',bad,'of',tot,'worst (fits px / gwcs arcsec)',worst,'worst |rmse-measured|/unit',worst_rmse)
