import numpy as np, warnings, sys, logging, itertools
warnings.filterwarnings('ignore'); logging.disable(logging.CRITICAL)
from tweakwcs import matchutils as mu
rng=np.random.default_rng(0)
VOC={'SUCCESS','ERROR:NODATA','WARNING:EDGE','WARNING:BADFIT','WARNING:CENTER-OF-MASS'}
bad=0; tot=0; stat={}
def chk(data, box, mask):
    global bad, tot
    tot+=1
    try:
        (x,y),st,sl=mu._find_peak(data, peak_fit_box=box, mask=mask)
    except Exception as e:
        bad+=1; print('EXC',type(e).__name__,e, data.tolist(), box, None if mask is None else mask.tolist()); return
    stat[st]=stat.get(st,0)+1
    ny,nx=data.shape
    ok = st in VOC and np.isfinite(x) and np.isfinite(y) and 0<=x<=nx-1 and 0<=y<=ny-1
    y1,y2=sl[0].start,sl[0].stop; x1,x2=sl[1].start,sl[1].stop
    ok2 = (x1<=x<=x2-1 and y1<=y<=y2-1)
    if not (ok and ok2):
        bad+=1
        if bad<15: print('BAD',st,(x,y),'box',(x1,x2,y1,y2),'shape',data.shape,'boxsize',box,data.astype(int).tolist(), None if mask is None else mask.astype(int).tolist())
for it in range(30000):
    ny=int(rng.integers(1,9)); nx=int(rng.integers(1,9))
    kind=rng.integers(0,4)
    if kind==0: data=rng.integers(0,4,(ny,nx)).astype(float)
    elif kind==1: data=(rng.random((ny,nx))<0.2).astype(float)*rng.integers(1,5,(ny,nx))
    elif kind==2:
        data=rng.integers(0,2,(ny,nx)).astype(float); data[rng.integers(0,ny),rng.integers(0,nx)]+=rng.integers(3,30)
    else: data=rng.integers(0,50,(ny,nx)).astype(float)
    box=int(rng.integers(1,8))
    m=rng.integers(0,3)
    mask=None if m==0 else (data>0 if m==1 else rng.random((ny,nx))<0.7)
    chk(data,box,mask)
print('bad',bad,'of',tot,stat)
# concave paraboloid exact vertex
worst=0
for it in range(2000):
    n=int(rng.integers(7,12))
    xv=rng.uniform(2.2,n-3.2); yv=rng.uniform(2.2,n-3.2)
    a=-rng.uniform(0.5,3); c=-rng.uniform(0.5,3); b=rng.uniform(-0.9,0.9)*np.sqrt(a*c)
    j,i=np.indices((n,n))
    d=100+a*(i-xv)**2+c*(j-yv)**2+b*(i-xv)*(j-yv)
    (x,y),st,sl=mu._find_peak(d,peak_fit_box=5)
    if st=='SUCCESS': worst=max(worst,abs(x-xv),abs(y-yv))
    else: print('paraboloid status',st,(xv,yv),(x,y))
print('paraboloid worst err',worst)
